(** * Agg.Check — glue for the correspondence stage of property C17 (checks/c17.py):
    tuple-argument wrappers of the models and boolean equalities of their result types.
    Nothing here is used by the theorems. *)

From Chalk Require Import Ir.Syntax Ir.Fold Agg.Instance Agg.AntiUnify Agg.MayInv Agg.Solution Agg.Loop.

(** Panic messages are never compared: any panic equals any panic. *)
Definition rs_eqb {A} (e : A -> A -> bool) (a b : res A) : bool :=
  match a, b with Ok x, Ok y => e x y | Panic _, Panic _ => true | _, _ => false end.

Definition csubst_eqb (a b : csubst) : bool := binders_eqb (fst a) (fst b) && tms_eqb (snd a) (snd b).
Definition aggout_eqb (a b : binders * tm) : bool := binders_eqb (fst a) (fst b) && tm_eqb (snd a) (snd b).
Definition solprio_eqb (a b : solution * priority) : bool := solution_eqb (fst a) (fst b) && priority_eqb (snd a) (snd b).

Definition chk_agg (p : N * (tm * tm)) : res (binders * tm) := agg_pair (fst p) (fst (snd p)) (snd (snd p)).
Definition chk_merge (p : binders * (csubst * csubst)) : res csubst := merge (fst p) (fst (snd p)) (snd (snd p)).
Definition chk_merge_seq (p : binders * list csubst) : res (list csubst) :=
  match snd p with [] => Panic OtherPanic | g :: r => merge_seq (fst p) g r end.
Definition chk_mayinv (m : mi_mode) (p : list tm * csubst) : res bool := may_invalidate m (fst p) (snd p).
Definition chk_f1_class (p : list tm * csubst) : bool := f1_class (fst p) (snd p).
Definition chk_combine (p : solution * solution) : solution := combine (fst p) (snd p).
Definition chk_with_prio (p : tm * ((solution * priority) * (solution * priority))) : res (solution * priority) :=
  with_priorities (fst p) (fst (fst (snd p))) (snd (fst (snd p))) (fst (snd (snd p))) (snd (snd (snd p))).
Definition chk_inputs (p : tm * solution) : res (list tm) := calculate_inputs (fst p) (snd p).

(** The property evaluated on outputs of the implementation. *)
Definition chk_inst2 (p : (tm * tm) * tm) : bool := instance_of (fst (fst p)) (snd p) && instance_of (snd (fst p)) (snd p).
Definition chk_inst_all (p : list (list tm) * list tm) : bool := forallb (fun s => instance_of_list s (snd p)) (fst p).
(** (variant g' cur, instance new cur, repeats_var cur) *)
Definition chk_mayinv_prop (p : (list tm * list tm) * list tm) : bool * (bool * bool) :=
  let '((new, cur), g') := p in (variant_list g' cur, (instance_of_list new cur, repeats_var cur)).
Definition b3_eqb (a b : bool * (bool * bool)) : bool :=
  Bool.eqb (fst a) (fst b) && Bool.eqb (fst (snd a)) (fst (snd b)) && Bool.eqb (snd (snd a)) (snd (snd b)).

Definition chk_variant (p : list tm * list tm) : bool := variant_list (fst p) (snd p).
Definition chk_inst_list (p : list tm * list tm) : bool := instance_of_list (fst p) (snd p).
Definition chk_repeats (cur : list tm) : bool := repeats_var cur.

(** Verdict of the may-invalidate property on real outputs, for a case where the real check
    said "cannot change": 0 = the property holds (the answer is an instance of the guidance
    and, unless the guidance repeats a variable, the really merged guidance is a variant of
    it); 1 = it fails and the input is in the known class F1; 2 = it fails otherwise. *)
Definition chk_mi_verdict (p : (list tm * list tm) * list tm) : N :=
  let '((new, cur), g') := p in
  if instance_of_list new cur && (repeats_var cur || variant_list g' cur) then 0
  else if f1_class new ([], cur) then 1 else 2.

(** End to end: 0 = the known solution is an instance of the definite guidance; 1 = it is
    not and the guidance repeats a variable (class F1); 2 = it is not, otherwise. *)
Definition chk_e2e_verdict (p : list tm * list tm) : N :=
  if instance_of_list (fst p) (snd p) then 0 else if repeats_var (snd p) then 1 else 2.

(** ** One-pass codes: 0 = model agrees and the property holds on the real output. *)

(** aggregate: 1 = model differs (property holds), 2 = property fails on the real output. *)
Definition chk_agg_code (p : (N * (tm * tm)) * res (binders * tm)) : N :=
  let m := rs_eqb aggout_eqb (chk_agg (fst p)) (snd p) in
  let pr := match snd p with
            | Ok o => chk_inst2 (snd (fst p), snd o)
            | Panic _ => true
            end in
  if pr then (if m then 0 else 1) else 2.

Fixpoint prefixes_ok (seen : list (list tm)) (rest : list (list tm)) (outs : list csubst) : bool :=
  match rest, outs with
  | a :: r, g :: o => forallb (fun s => instance_of_list s (snd g)) (seen ++ [a]) && prefixes_ok (seen ++ [a]) r o
  | _, _ => true
  end.

(** merge sequences: every answer merged so far is an instance of the real guidance at that point. *)
Definition chk_mergeseq_code (p : (binders * list csubst) * res (list csubst)) : N :=
  let m := rs_eqb (list_eqb csubst_eqb) (chk_merge_seq (fst p)) (snd p) in
  let pr := match snd p, map snd (snd (fst p)) with
            | Ok outs, first :: rest => prefixes_ok [first] rest outs
            | _, _ => true
            end in
  if pr then (if m then 0 else 1) else 2.

(** may_invalidate: 1 = unchanged model differs; +4 = property fails inside class F1; +8 = property fails outside. *)
Definition chk_mi_code (p : ((list tm * csubst) * res bool) * option (list tm)) : N :=
  let '((inp, out), merged) := p in
  let m := if rs_eqb Bool.eqb (chk_mayinv MOld inp) out then 0 else 1 in
  let v := match out, merged with
           | Ok false, Some g' => chk_mi_verdict ((fst inp, snd (snd inp)), g')
           | _, _ => 0
           end in
  m + 4 * v.

(** ** make_solution over a scripted answer stream *)
Definition chk_ms (m : mi_mode) (p : (binders * list event) * list (list tm)) : res (option solution) :=
  make_solution m (fst (fst p)) (snd (fst p)) (snd p).

Definition osol_eqb : option solution -> option solution -> bool := option_eqb solution_eqb.

(** 0 = if the real result carries definite guidance, every answer after the first is an
    instance of it; 1 = not so, and the two models disagree on this script (class F1);
    2 = not so otherwise. *)
Definition chk_ms_verdict (p : ((binders * list event) * list (list tm)) * res (option solution)) : N :=
  let ok := match snd p, snd (fst (fst p)) with
            | Ok (Some (Ambig (Definite _ s))), _ :: rest => forallb (fun x => instance_of_list x s) (answers_of rest)
            | _, _ => true
            end in
  if ok then 0
  else if rs_eqb osol_eqb (chk_ms MOld (fst p)) (chk_ms MFix (fst p)) then 2 else 1.
