(** * Agg.Loop — model of [AggregateOps::make_solution] (chalk-engine/src/slg/aggregate.rs): the
    loop that draws answers from a stream, merges them into guidance and stops as soon as
    [may_invalidate] says that no future answer can change it.

    The answer stream is a script: a list of events ([peek_answer] looks at the head,
    [next_answer] removes it, an exhausted script is [NoMoreSolutions]) plus the
    substitutions of the strands that are still unsolved; [any_future_answer] ranges over the
    answers still in the script, then over the strands.  The harness drives the real
    [make_solution] with exactly such a stream (hook H2), so the model is tied to the code. *)

From Coq Require Import PeanoNat.
From Chalk Require Import Ir.Syntax Ir.Fold Agg.Instance Agg.AntiUnify Agg.MayInv Agg.Solution.

Inductive event :=
| EAnswer (c : csubst) (constraints : list tm) (ambiguous : bool)
| EFloundered
| EQuantum.

(** [identity_constrained_subst]: the root goal's own variables. *)
Definition identity_csubst (root : binders) : csubst := (root, identity_subst (map fst root)).

Fixpoint any_may_invalidate (m : mi_mode) (g : csubst) (news : list (list tm)) : res bool :=
  match news with
  | [] => Ok false
  | n :: r =>
      match may_invalidate m n g with
      | Ok false => any_may_invalidate m g r
      | x => x
      end
  end.

Fixpoint answers_of (evs : list event) : list (list tm) :=
  match evs with
  | [] => []
  | EAnswer c _ _ :: r => snd c :: answers_of r
  | _ :: r => answers_of r
  end.

Definition future_may_invalidate (m : mi_mode) (g : csubst) (rest : list event) (strands : list (list tm)) : res bool :=
  any_may_invalidate m g (answers_of rest ++ strands).

Definition is_nil {A} (l : list A) : bool := match l with [] => true | _ => false end.

Fixpoint loop (m : mi_mode) (root : binders) (g : csubst) (rest : list event) (strands : list (list tm)) {struct rest} : res guidance :=
  if is_nil (snd g) || is_trivial g then Ok Unknown
  else
    match future_may_invalidate m g rest strands with
    | Panic s => Panic s
    | Ok false => Ok (Definite (fst g) (snd g))
    | Ok true =>
        match rest with
        | [] => Ok (Definite (fst g) (snd g))
        | EQuantum :: _ => Ok (Suggested (fst g) (snd g))
        | EAnswer c _ _ :: r => rbind (merge root g c) (fun g' => loop m root g' r strands)
        | EFloundered :: r => rbind (merge root g (identity_csubst root)) (fun g' => loop m root g' r strands)
        end
    end.

Definition make_solution (m : mi_mode) (root : binders) (evs : list event) (strands : list (list tm)) : res (option solution) :=
  match evs with
  | [] => Ok None
  | EQuantum :: _ => Ok (Some (Ambig Unknown))
  | first :: rest =>
      let '(c, ks, amb) := match first with
                             | EAnswer c ks a => (c, ks, a)
                             | _ => (identity_csubst root, [], true)
                             end in
      match rest with
      | EQuantum :: _ =>
          if is_identity_subst (snd c) then Ok (Some (Ambig Unknown)) else Ok (Some (Ambig (Suggested (fst c) (snd c))))
      | _ =>
          if is_nil rest && negb amb then Ok (Some (Unique (fst c) (snd c) ks))
          else rbind (loop m root c rest strands) (fun g => Ok (Some (Ambig g)))
      end
  end.

(** ** Merged guidance never repeats a variable *)

Definition fr (n k : nat) : list N := map N.of_nat (seq n k).

Lemma fr_app n k1 k2 : fr n k1 ++ fr (n + k1) k2 = fr n (k1 + k2).
Proof. unfold fr. rewrite seq_app, map_app. reflexivity. Qed.

Lemma NoDup_fr n k : NoDup (fr n k).
Proof.
  unfold fr. assert (H : NoDup (seq n k)) by apply seq_NoDup. induction H as [| x l Hx _ IH]; cbn [map]; constructor; [| assumption].
  intros HI. apply in_map_iff in HI. destruct HI as (y & E & Hy). apply Nat2N.inj in E. subst. contradiction.
Qed.

Definition pv_spec (st st' : binders) (vars : list N) : Prop :=
  exists ext, st' = st ++ ext /\ vars = fr (length st) (length ext).

Lemma pv_fresh st x i : i = N.of_nat (length st) -> pv_spec st (st ++ [x]) [i].
Proof. intros ->. exists [x]. split; [reflexivity |]. reflexivity. Qed.

Lemma pv_keep st : pv_spec st st [].
Proof. exists []. rewrite app_nil_r. split; reflexivity. Qed.

Lemma pv_cons st st1 st2 v1 v2 : pv_spec st st1 v1 -> pv_spec st1 st2 v2 -> pv_spec st st2 (v1 ++ v2).
Proof.
  intros (e1 & -> & ->) (e2 & -> & ->). exists (e1 ++ e2). rewrite app_assoc, !app_length. split; [reflexivity |].
  apply fr_app.
Qed.

Lemma au_lt_pv u a b st : pv_spec st (snd (au_lt u a b st)) (pvars (fst (au_lt u a b st))).
Proof.
  assert (F : pv_spec st (snd (fresh_lt u st)) (pvars (fst (fresh_lt u st)))) by (apply pv_fresh; reflexivity).
  unfold au_lt. destruct a as [| | ha [| ? ?]]; try exact F. destruct b as [| | hb [| ? ?]]; try exact F.
  destruct (head_eqb ha hb); [| exact F]. apply pv_keep.
Qed.

Lemma au_const_pv u a b st :
  kind_of a = KConst -> ctys_ok a -> pv_spec st (snd (au_const u a b st)) (pvars (fst (au_const u a b st))).
Proof.
  intros Ka Wa. pose proof (ctys_ok_const_ty _ Ka Wa) as CT.
  assert (F : pv_spec st (snd (fresh_const u (const_ty a) st)) (pvars (fst (fresh_const u (const_ty a) st)))).
  { cbn [fresh_const fst snd pvars]. rewrite CT. apply pv_fresh. reflexivity. }
  assert (K : forall h cs, a = Node h cs -> pvars a = []).
  { intros h cs ->. apply ctys_ok_node in Wa. destruct Wa as [Wa _]. rewrite (Wa Ka). reflexivity. }
  unfold au_const. destruct a as [| | ha ca]; try exact F. destruct ha; try exact F; destruct b as [| | hb cb]; try exact F; destruct hb; try exact F;
    (match goal with |- context [if ?c then _ else _] => destruct c end; [| exact F]); cbn [fst snd]; erewrite K by reflexivity; apply pv_keep.
Qed.

Lemma au_ty_pv : forall a u b st g st',
  kind_of a = KTy -> ctys_ok a -> au_ty u a b st = Ok (g, st') -> pv_spec st st' (pvars g).
Proof.
  induction a as [srt d i | d i c _ | ha ca IH] using tm_ind'; intros u b st g st' Ka Wa HA.
  1,2: (cbn [au_ty] in HA; inversion HA; subst; apply pv_fresh; reflexivity).
  assert (F : Ok (fresh_ty u st) = Ok (g, st') -> pv_spec st st' (pvars g)).
  { intros E. inversion E; subst. apply pv_fresh. reflexivity. }
  destruct b as [| | hb cb]; [exact (F HA) | exact (F HA) |].
  rewrite au_ty_node in HA. destruct (head_eqb ha hb) eqn:Eh; [| exact (F HA)].
  destruct (hclass_of ha) eqn:Ec; [| | exact (F HA)].
  - destruct (Nat.eqb (length ca) (length cb)); [| discriminate].
    destruct (au_list u ca cb st) as [[gs st2] | e] eqn:EL; cbn [rbind fst snd] in HA; [| discriminate].
    inversion HA; subst. clear HA F. cbn [pvars].
    apply ctys_ok_node in Wa. destruct Wa as [_ Wa]. clear Ec Eh Ka.
    revert cb st gs st' EL. induction IH as [| x r Hx _ IHr]; intros cb st gs st' EL.
    + cbn [au_list] in EL. inversion EL. apply pv_keep.
    + destruct cb as [| y r']; cbn [au_list] in EL; [inversion EL; apply pv_keep |].
      destruct (au_garg u x y st) as [[g1 st1] | e] eqn:E1; cbn [rbind fst snd] in EL; [| discriminate].
      destruct (au_list u r r' st1) as [[g2 st2] | e] eqn:E2; cbn [rbind fst snd] in EL; [| discriminate].
      inversion EL; subst. cbn [flat_map]. eapply pv_cons; [| exact (IHr (Forall_inv_tail Wa) _ _ _ _ E2)].
      unfold au_garg in E1. destruct (kind_of x) eqn:Kx, (kind_of y) eqn:Ky; try discriminate.
      * exact (Hx _ _ _ _ _ eq_refl (Forall_inv Wa) E1).
      * inversion E1. replace g1 with (fst (au_lt u x y st)) by (rewrite H0; reflexivity).
        replace st1 with (snd (au_lt u x y st)) by (rewrite H0; reflexivity). apply au_lt_pv.
      * inversion E1. replace g1 with (fst (au_const u x y st)) by (rewrite H0; reflexivity).
        replace st1 with (snd (au_const u x y st)) by (rewrite H0; reflexivity). apply au_const_pv; [assumption | exact (Forall_inv Wa)].
  - destruct ca; [| exact (F HA)]. destruct cb; [| exact (F HA)]. inversion HA; subst. apply pv_keep.
Qed.

Lemma au_garg_pv u a b st g st' : ctys_ok a -> au_garg u a b st = Ok (g, st') -> pv_spec st st' (pvars g).
Proof.
  intros Wa E. unfold au_garg in E. destruct (kind_of a) eqn:Ka, (kind_of b) eqn:Kb; try discriminate.
  - exact (au_ty_pv _ _ _ _ _ _ Ka Wa E).
  - inversion E. replace g with (fst (au_lt u a b st)) by (rewrite H0; reflexivity).
    replace st' with (snd (au_lt u a b st)) by (rewrite H0; reflexivity). apply au_lt_pv.
  - inversion E. replace g with (fst (au_const u a b st)) by (rewrite H0; reflexivity).
    replace st' with (snd (au_const u a b st)) by (rewrite H0; reflexivity). apply au_const_pv; assumption.
Qed.

Lemma merge_args_pv : forall g us ans st gs st',
  Forall ctys_ok g -> merge_args us g ans st = Ok (gs, st') -> pv_spec st st' (flat_map pvars gs).
Proof.
  induction g as [| p1 r1 IH]; intros us ans st gs st' Wg HM.
  - cbn [merge_args] in HM. inversion HM. apply pv_keep.
  - destruct ans as [| p2 r2]; cbn [merge_args] in HM; [inversion HM; apply pv_keep |].
    destruct us as [| u ur]; [discriminate |].
    match type of HM with rbind ?X _ = _ => destruct X as [[g1 st1] | e] eqn:E1 end; cbn [rbind fst snd] in HM; [| discriminate].
    destruct (merge_args ur r1 r2 st1) as [[g2 st2] | e] eqn:E2; cbn [rbind fst snd] in HM; [| discriminate].
    inversion HM; subst. cbn [flat_map]. eapply pv_cons; [| exact (IH _ _ _ _ _ (Forall_inv_tail Wg) E2)].
    destruct (kind_of p1) eqn:K1; try exact (au_garg_pv _ _ _ _ _ _ (Forall_inv Wg) E1).
    inversion E1; subst. apply pv_fresh. reflexivity.
Qed.

(** After one merge the guidance is outside the known class F1 for good. *)
Lemma merge_linear root g ans g' : Forall ctys_ok (snd g) -> merge root g ans = Ok g' -> repeats_var (snd g') = false.
Proof.
  intros Wg H. unfold merge in H.
  destruct (merge_args (map snd root) (snd g) (snd ans) []) as [[gs st'] | e] eqn:E; cbn [rbind fst snd] in H; [| discriminate].
  inversion H; subst. cbn [snd]. unfold repeats_var. destruct (merge_args_pv _ _ _ _ _ _ Wg E) as (ext & _ & ->).
  apply negb_false_iff, nodup_b_NoDup, NoDup_fr.
Qed.

(** ** Definite guidance covers every answer *)

Definition trusted_check (m : mi_mode) (g : csubst) : Prop :=
  m = MFix \/ (m = MOld /\ repeats_var (snd g) = false).

Lemma flat_top_vars0 t : flat t -> top_vars0 t.
Proof.
  induction t as [srt d i | d i c _ | h cs IH] using tm_ind'; cbn [flat top_vars0]; auto.
  intros [_ H] _. induction IH as [| x r Hx _ IHr]; [exact I |]. destruct H as [H1 H2]. split; [apply Hx, H1 | apply IHr, H2].
Qed.

Lemma mi_sound m new (g : csubst) :
  trusted_check m g ->
  length new = length (snd g) -> Forall top_vars0 (snd g) -> Forall ctys_ok (snd g) -> Forall ctys_ok new ->
  may_invalidate m new g = Ok false -> instance_of_list new (snd g) = true.
Proof.
  intros [-> | [-> L]] El TV Wg Wn H; apply may_invalidate_fixed_sound_lemma; try assumption.
  eapply may_invalidate_linear_modes; eassumption.
Qed.

Lemma any_may_invalidate_false m g news :
  any_may_invalidate m g news = Ok false -> Forall (fun n => may_invalidate m n g = Ok false) news.
Proof.
  induction news as [| n r IH]; cbn [any_may_invalidate]; intros H; [constructor |].
  destruct (may_invalidate m n g) as [[|] | e] eqn:E; try discriminate. constructor; [assumption | apply IH, H].
Qed.

Definition answer_ok (g : csubst) (x : list tm) : Prop := same_kinds (snd g) x /\ Forall ctys_ok x.

Lemma identity_from_ctys ks : forall i, Forall ctys_ok (identity_from i ks).
Proof. induction ks as [| k r IH]; intros i; cbn [identity_from]; constructor; [destruct k; cbn; auto | apply IH]. Qed.

Lemma loop_covers m root strands : forall rest g seen bs s,
  trusted_check m g ->
  Forall top_vars0 (snd g) -> Forall ctys_ok (snd g) ->
  Forall (answer_ok g) (answers_of rest) -> same_kinds (snd g) (snd (identity_csubst root)) ->
  Forall (fun x => instance_of_list x (snd g) = true) seen ->
  loop m root g rest strands = Ok (Definite bs s) ->
  Forall (fun x => instance_of_list x s = true) (seen ++ answers_of rest).
Proof.
  induction rest as [| ev r IH]; intros g seen bs s TC TV Wg HA HI HS HL; cbn [loop] in HL;
    (destruct (is_nil (snd g) || is_trivial g); [discriminate |]);
    unfold future_may_invalidate in HL.
  - cbn [answers_of app] in *. rewrite app_nil_r.
    destruct (any_may_invalidate m g strands) as [[|] | e]; try discriminate; inversion HL; subst; exact HS.
  - destruct (any_may_invalidate m g (answers_of (ev :: r) ++ strands)) as [[|] | e] eqn:EA; try discriminate.
    + (* some future answer may change the guidance: draw the next answer and merge it *)
      assert (STEP : forall c, (ev = EFloundered -> answers_of (ev :: r) = answers_of r) ->
                (forall c' ks amb, ev = EAnswer c' ks amb -> c' = c) ->
                answer_ok g (snd c) ->
                rbind (merge root g c) (fun g' => loop m root g' r strands) = Ok (Definite bs s) ->
                Forall (fun x => instance_of_list x s = true) ((seen ++ [snd c]) ++ answers_of r)).
      { intros c _ _ [SK Wc] HR. destruct (merge root g c) as [g' |] eqn:EM; cbn [rbind] in HR; [| discriminate].
        destruct (merge_generalizes_lemma _ _ _ _ SK Wg Wc EM) as [I1 I2].
        destruct (merge_shape _ _ _ _ SK Wg EM) as (F1 & K1 & W1).
        apply (IH g' (seen ++ [snd c]) bs s); try assumption.
        - destruct TC as [-> | [-> _]]; [left; reflexivity | right; split; [reflexivity | exact (merge_linear _ _ _ _ Wg EM)]].
        - eapply Forall_impl; [| exact F1]. apply flat_top_vars0.
        - assert (HA' : Forall (answer_ok g) (answers_of r)) by (destruct ev; cbn [answers_of] in HA; [exact (Forall_inv_tail HA) | exact HA | exact HA]).
          eapply Forall_impl; [| exact HA']. intros x [A B]. split; [exact (same_kinds_trans _ _ _ K1 A) | assumption].
        - exact (same_kinds_trans _ _ _ K1 HI).
        - apply Forall_app. split; [| constructor; [assumption | constructor]].
          eapply Forall_impl; [| exact HS]. intros x Hx. exact (instance_of_list_trans _ _ _ F1 Hx I1). }
      destruct ev as [c ks amb | |]; [| | discriminate].
      * cbn [answers_of]. specialize (STEP c (fun H => ltac:(discriminate H)) (fun c' _ _ H => ltac:(inversion H; reflexivity)) (Forall_inv HA) HL).
        rewrite <- app_assoc in STEP. exact STEP.
      * cbn [answers_of].
        assert (OKI : answer_ok g (snd (identity_csubst root))) by (split; [exact HI | apply identity_from_ctys]).
        specialize (STEP (identity_csubst root) (fun _ => eq_refl) (fun c' ks amb H => ltac:(discriminate H)) OKI HL).
        rewrite <- app_assoc in STEP. apply Forall_app in STEP. destruct STEP as [S1 S2]. apply Forall_app in S2. destruct S2 as [_ S2].
        apply Forall_app. split; assumption.
    + (* no future answer can change the guidance: it is returned as definite *)
      inversion HL; subst. apply Forall_app. split; [exact HS |].
      apply any_may_invalidate_false in EA. apply Forall_app in EA. destruct EA as [EA _].
      clear - EA HA TC TV Wg. induction (answers_of (ev :: r)) as [| x l IHl]; [constructor |].
      constructor; [| apply IHl; [exact (Forall_inv_tail HA) | exact (Forall_inv_tail EA)]].
      destruct (Forall_inv HA) as [SK Wx]. apply (mi_sound m); try assumption; [| exact (Forall_inv EA)].
      symmetry. apply same_kinds_length. assumption.
Qed.

(** [make_solution] of the repaired code — and of the code as it is when the FIRST answer
    repeats no variable: if the result carries definite guidance ([Unique] or
    [Ambig(Definite)]), every answer drawn from the stream or still in it after the first is
    an instance of that guidance. *)
Lemma make_solution_covers_lemma m root c ks amb rest strands bs s :
  trusted_check m c ->
  Forall top_vars0 (snd c) -> Forall ctys_ok (snd c) ->
  Forall (answer_ok c) (answers_of rest) -> same_kinds (snd c) (snd (identity_csubst root)) ->
  make_solution m root (EAnswer c ks amb :: rest) strands = Ok (Some (Ambig (Definite bs s))) ->
  Forall (fun x => instance_of_list x s = true) (answers_of rest).
Proof.
  intros TC TV Wc HA HI H. cbn [make_solution] in H.
  assert (L : loop m root c rest strands = Ok (Definite bs s)).
  { destruct rest as [| [c2 k2 a2 | |] r]; cbn [is_nil andb] in H.
    - destruct (negb amb); [discriminate |]. destruct (loop m root c [] strands) as [g |]; cbn [rbind] in H; inversion H; reflexivity.
    - destruct (loop m root c (EAnswer c2 k2 a2 :: r) strands) as [g |]; cbn [rbind] in H; inversion H; reflexivity.
    - destruct (loop m root c (EFloundered :: r) strands) as [g |]; cbn [rbind] in H; inversion H; reflexivity.
    - destruct (is_identity_subst (snd c)); discriminate. }
  exact (loop_covers m root strands rest c [] bs s TC TV Wc HA HI (Forall_nil _) L).
Qed.

(** Finding F1 at this level: the unchanged loop returns [[Vec<^0>, ^0]] as definite although
    the second answer [[Vec<I32>, U32]] is not an instance; the repaired loop merges it. *)
Lemma make_solution_refuted_lemma :
  exists root c rest bs s,
    Forall top_vars0 (snd c) /\ Forall ctys_ok (snd c) /\ Forall (answer_ok c) (answers_of rest) /\
    same_kinds (snd c) (snd (identity_csubst root)) /\
    repeats_var (snd c) = true /\
    make_solution MOld root (EAnswer c [] false :: rest) [] = Ok (Some (Ambig (Definite bs s))) /\
    ~ Forall (fun x => instance_of_list x s = true) (answers_of rest).
Proof.
  exists f1_root, f1_cur, [EAnswer ([], f1_new) [] false], (fst f1_cur), (snd f1_cur).
  repeat split; try reflexivity; try (cbn; repeat constructor; intros; discriminate).
  intros H. inversion H as [| ? ? H1 _]. vm_compute in H1. discriminate H1.
Qed.

Example make_solution_nonvacuous :
  let root := f1_root in
  make_solution MOld root [EAnswer f1_cur [] false; EAnswer ([], f1_new) [] false] [] = Ok (Some (Ambig (Definite (fst f1_cur) (snd f1_cur))))
  /\ make_solution MFix root [EAnswer f1_cur [] false; EAnswer ([], f1_new) [] false] []
     = Ok (Some (Ambig (Definite [(VTy General, 0); (VTy General, 0)] [ex_vec (Var STy 0 0); Var STy 0 1])))
  /\ make_solution MOld root [EAnswer ([], [ex_vec ex_i32; ex_u32]) [] false; EAnswer ([], [ex_vec ex_u32; ex_u32]) [] false] []
     = Ok (Some (Ambig (Definite [(VTy General, 0)] [ex_vec (Var STy 0 0); ex_u32])))
  /\ make_solution MOld root [EAnswer ([], f1_new) [] false] [] = Ok (Some (Unique [] f1_new []))
  /\ make_solution MOld root [EAnswer ([], f1_new) [] false; EQuantum] [] = Ok (Some (Ambig (Suggested [] f1_new)))
  /\ make_solution MOld root [EFloundered; EAnswer ([], f1_new) [] false] [] = Ok (Some (Ambig Unknown))
  /\ make_solution MOld root [] [] = Ok None.
Proof. cbv zeta. repeat split; reflexivity. Qed.
