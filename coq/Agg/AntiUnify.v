(** * Agg.AntiUnify — model of chalk-engine/src/slg/aggregate.rs: [AntiUnifier],
    [merge_into_guidance], [is_trivial], and the generalisation theorems of property C17.

    The anti-unifier walks two terms in parallel; wherever they disagree (and, being "very
    simplistic", also wherever both have a variable, a fn pointer or a dyn type) it puts a NEW
    inference variable created in the given universe — one per position, never shared.
    [merge_into_guidance] runs it over the two substitutions in a fresh [InferenceTable] and
    canonicalises the result; as every fresh variable occurs exactly once and they are
    created in traversal order, canonical variable [^0.k] is the k-th variable created.  The
    model therefore threads the canonical binders built so far ([binders]: kind and universe
    of every fresh variable, in creation order) and writes the k-th fresh variable directly as
    the bound variable [^0.k]. *)

From Coq Require Import PeanoNat.
From Chalk Require Import Ir.Syntax Ir.Fold Agg.Instance.

Definition binders := list (vkind * N).

Definition fresh_ty (u : N) (st : binders) : tm * binders :=
  (Var STy 0 (N.of_nat (length st)), st ++ [(VTy General, u)]).
Definition fresh_lt (u : N) (st : binders) : tm * binders :=
  (Var SLt 0 (N.of_nat (length st)), st ++ [(VLt, u)]).
Definition fresh_const (u : N) (cty : tm) (st : binders) : tm * binders :=
  (CVar 0 (N.of_nat (length st)) cty, st ++ [(VConst, u)]).

(** [aggregate_lifetimes]: a bound variable on either side, or two different lifetimes, give a
    fresh lifetime variable; equal lifetimes are kept. *)
Definition au_lt (u : N) (a b : tm) (st : binders) : tm * binders :=
  match a, b with
  | Node ha [], Node hb [] => if head_eqb ha hb then (a, st) else fresh_lt u st
  | _, _ => fresh_lt u st
  end.

Definition const_ty (c : tm) : tm :=
  match c with
  | CVar _ _ t => t
  | Node _ (t :: _) => t
  | _ => usize_ty
  end.

(** [aggregate_consts]: the result has the type of the first const.  Inference and bound
    variables and mixed placeholder/concrete pairs give a fresh const variable; two
    placeholders are kept if the consts are equal, two concrete consts if [const_eq] (value
    equality in [ChalkIr]) holds. *)
Definition au_const (u : N) (a b : tm) (st : binders) : tm * binders :=
  match a, b with
  | Node (HCPlaceholder _ _) _, Node (HCPlaceholder _ _) _ =>
      if tm_eqb a b then (a, st) else fresh_const u (const_ty a) st
  | Node (HCConcrete v1) _, Node (HCConcrete v2) _ =>
      if v1 =? v2 then (a, st) else fresh_const u (const_ty a) st
  | _, _ => fresh_const u (const_ty a) st
  end.

(** How [aggregate_tys] treats a pair of equal head constructors. *)
Inductive hclass :=
| HcStruct   (* rebuild the head, aggregate the children pairwise (name-and-substs, slice, raw, ref, array) *)
| HcLeaf     (* no children: keep *)
| HcFresh.   (* always a fresh variable: inference variables, fn pointers, dyn *)

Definition hclass_of (h : head) : hclass :=
  match h with
  | HAdt _ | HAssocTy _ | HTuple _ | HOpaqueTy _ | HFnDef _ | HClosure _ | HCoroutine _
  | HCoroutineWitness _ | HProjection _ | HOpaqueAlias _ | HSlice | HRaw _ | HRef _ | HArray => HcStruct
  | HScalar _ | HStr | HNever | HForeign _ | HError | HPlaceholder _ _ => HcLeaf
  | _ => HcFresh
  end.

(** [aggregate_tys] with [aggregate_generic_args] / [aggregate_name_and_substs] inlined.
    Children are dispatched on their kind as [aggregate_generic_args] does ("mismatched
    parameter kinds" panic); the length assertion of [aggregate_name_and_substs] is
    [Panic AssertFailed].  Evaluation order is left to right ([Ref]: lifetime, then type;
    [Array]: type, then const), which fixes the numbering of the fresh variables. *)
Fixpoint au_ty (u : N) (a b : tm) (st : binders) {struct a} : res (tm * binders) :=
  match a, b with
  | Node ha ca, Node hb cb =>
      if head_eqb ha hb then
        match hclass_of ha with
        | HcStruct =>
            if Nat.eqb (length ca) (length cb) then
              rbind ((fix go (l l' : list tm) (st : binders) {struct l} : res (list tm * binders) :=
                        match l, l' with
                        | x :: r, y :: r' =>
                            rbind (match kind_of x, kind_of y with
                                   | KTy, KTy => au_ty u x y st
                                   | KLt, KLt => Ok (au_lt u x y st)
                                   | KConst, KConst => Ok (au_const u x y st)
                                   | _, _ => Panic OtherPanic
                                   end)
                                  (fun gs1 => rbind (go r r' (snd gs1)) (fun gs2 => Ok (fst gs1 :: fst gs2, snd gs2)))
                        | _, _ => Ok ([], st)
                        end) ca cb st)
                    (fun cs => Ok (Node ha (fst cs), snd cs))
            else Panic AssertFailed
        | HcLeaf => match ca, cb with [], [] => Ok (a, st) | _, _ => Ok (fresh_ty u st) end
        | HcFresh => Ok (fresh_ty u st)
        end
      else Ok (fresh_ty u st)
  | _, _ => Ok (fresh_ty u st)
  end.

(** [AntiUnifier::aggregate_generic_args]. *)
Definition au_garg (u : N) (x y : tm) (st : binders) : res (tm * binders) :=
  match kind_of x, kind_of y with
  | KTy, KTy => au_ty u x y st
  | KLt, KLt => Ok (au_lt u x y st)
  | KConst, KConst => Ok (au_const u x y st)
  | _, _ => Panic OtherPanic
  end.

Fixpoint au_list (u : N) (l l' : list tm) (st : binders) {struct l} : res (list tm * binders) :=
  match l, l' with
  | x :: r, y :: r' =>
      rbind (au_garg u x y st)
            (fun gs1 => rbind (au_list u r r' (snd gs1)) (fun gs2 => Ok (fst gs1 :: fst gs2, snd gs2)))
  | _, _ => Ok ([], st)
  end.

Lemma au_ty_node u ha ca hb cb st :
  au_ty u (Node ha ca) (Node hb cb) st =
  if head_eqb ha hb then
    match hclass_of ha with
    | HcStruct => if Nat.eqb (length ca) (length cb)
                  then rbind (au_list u ca cb st) (fun cs => Ok (Node ha (fst cs), snd cs))
                  else Panic AssertFailed
    | HcLeaf => match ca, cb with [], [] => Ok (Node ha ca, st) | _, _ => Ok (fresh_ty u st) end
    | HcFresh => Ok (fresh_ty u st)
    end
  else Ok (fresh_ty u st).
Proof.
  cbn [au_ty]. destruct (head_eqb ha hb); [| reflexivity]. destruct (hclass_of ha); try reflexivity.
  destruct (Nat.eqb (length ca) (length cb)); [| reflexivity]. f_equal.
  generalize cb st. clear cb st. induction ca as [| x r IH]; intros cb st; destruct cb as [| y r']; cbn [au_list]; try reflexivity.
  unfold au_garg.
  match goal with |- rbind ?X _ = rbind ?Y _ => change Y with X; destruct X as [gs1 | e]; cbn [rbind]; [| reflexivity] end.
  rewrite IH. reflexivity.
Qed.

(** The pair-level entry point used by the correspondence: one fresh table. *)
Definition agg_pair (u : N) (a b : tm) : res (binders * tm) :=
  rbind (au_garg u a b []) (fun gs => Ok (snd gs, fst gs)).

(** ** [merge_into_guidance] *)

Definition csubst : Type := binders * list tm.

(** Element [index] of the two substitutions is aggregated in the universe of the root
    goal's canonical binder [index] (slice index panic if there is none); a *lifetime* of the
    current guidance is replaced by a fresh lifetime variable without looking at the answer.
    [zip] stops at the shorter substitution. *)
Fixpoint merge_args (us : list N) (g ans : list tm) (st : binders) {struct g} : res (list tm * binders) :=
  match g, ans with
  | p1 :: r1, p2 :: r2 =>
      match us with
      | [] => Panic IndexOutOfBounds
      | u :: ur =>
          rbind (match kind_of p1 with KLt => Ok (fresh_lt u st) | _ => au_garg u p1 p2 st end)
                (fun gs1 => rbind (merge_args ur r1 r2 (snd gs1)) (fun gs2 => Ok (fst gs1 :: fst gs2, snd gs2)))
      end
  | _, _ => Ok ([], st)
  end.

Definition merge (root : binders) (g ans : csubst) : res csubst :=
  rbind (merge_args (map snd root) (snd g) (snd ans) []) (fun gs => Ok (snd gs, fst gs)).

(** The guidance after each merge, as the [MergeSeq] harness command reports it. *)
Fixpoint merge_seq (root : binders) (g : csubst) (rest : list csubst) : res (list csubst) :=
  match rest with
  | [] => Ok []
  | s :: r => rbind (merge root g s) (fun g' => rbind (merge_seq root g' r) (fun l => Ok (g' :: l)))
  end.

Fixpoint merge_all (root : binders) (g : csubst) (rest : list csubst) : res csubst :=
  match rest with
  | [] => Ok g
  | s :: r => rbind (merge root g s) (fun g' => merge_all root g' r)
  end.

(** [is_trivial]: every type / const parameter is the bound variable with its own index;
    any lifetime makes the substitution non-trivial. *)
Fixpoint is_trivial_from (idx : N) (s : list tm) : bool :=
  match s with
  | [] => true
  | p :: r =>
      (match p with
       | Var STy d i => (d =? 0) && (i =? idx)
       | CVar d i _ => (d =? 0) && (i =? idx)
       | _ => false
       end) && is_trivial_from (N.succ idx) r
  end.

Definition is_trivial (c : csubst) : bool := is_trivial_from 0 (snd c).

(** ** Well-formedness used by the theorems *)

(** Const types are [usize] (as in [ChalkIr] lowering, cf. [Ir/Syntax.v]); in particular
    they are closed and two consts at the same position have the same type — which
    [aggregate_consts] assumes without checking ("It would be nice to check that c1 and c2
    have the same type"). *)
Fixpoint ctys_ok (t : tm) : Prop :=
  match t with
  | Var _ _ _ => True
  | CVar _ _ c => c = usize_ty
  | Node h cs =>
      (head_kind h = KConst -> cs = [usize_ty]) /\
      (fix go (l : list tm) : Prop := match l with [] => True | x :: r => ctys_ok x /\ go r end) cs
  end.

Lemma ctys_ok_node h cs : ctys_ok (Node h cs) <-> (head_kind h = KConst -> cs = [usize_ty]) /\ Forall ctys_ok cs.
Proof.
  cbn [ctys_ok]. split; intros [H1 H2]; (split; [assumption |]); clear H1.
  - induction cs as [| x r IH]; constructor; [apply H2 | apply IH, H2].
  - induction H2 as [| x r Hx _ IH]; [exact I | split; assumption].
Qed.

(** Patterns whose variables all belong to the outermost binder and never sit below a binder
    — the shape of every anti-unifier output. *)
Fixpoint flat (t : tm) : Prop :=
  match t with
  | Var _ d _ => d = 0
  | CVar d _ _ => d = 0
  | Node h cs => binds h = false /\ (fix go (l : list tm) : Prop := match l with [] => True | x :: r => flat x /\ go r end) cs
  end.

Lemma flat_node h cs : flat (Node h cs) <-> binds h = false /\ Forall flat cs.
Proof.
  cbn [flat]. split; intros [H1 H2]; (split; [assumption |]); clear H1.
  - induction cs as [| x r IH]; constructor; [apply H2 | apply IH, H2].
  - induction H2 as [| x r Hx _ IH]; [exact I | split; assumption].
Qed.

(** ** Generalisation: both inputs are instances of the anti-unifier's output *)

Definition same_kinds (l l' : list tm) : Prop := Forall2 (fun x y => kind_of x = kind_of y) l l'.

Lemma nth_error_mid {A} (pre : list A) x post : nth_error (pre ++ x :: post) (length pre) = Some x.
Proof. rewrite nth_error_app2 by lia. rewrite Nat.sub_diag. reflexivity. Qed.

(** The statement proved for each aggregation function: the new state extends the old one by
    some binders [ext], and there are two lists of parameters for exactly these new
    variables that instantiate the output to the left resp. right input — wherever the new
    variables sit in a longer parameter list. *)
Definition gen_spec (st st' : binders) (inst_a inst_b : list tm -> Prop) : Prop :=
  exists ext l1 l2,
    st' = st ++ ext /\ length l1 = length ext /\ length l2 = length ext /\
    forall pre post, length pre = length st -> inst_a (pre ++ l1 ++ post) /\ inst_b (pre ++ l2 ++ post).

Lemma gen_fresh_var st u k (v a b : tm) :
  (forall τ, nth_error τ (length st) = Some a -> subst τ 0 v = Ok a) ->
  (forall τ, nth_error τ (length st) = Some b -> subst τ 0 v = Ok b) ->
  gen_spec st (st ++ [(k, u)]) (fun τ => subst τ 0 v = Ok a) (fun τ => subst τ 0 v = Ok b).
Proof.
  intros Ha Hb. exists [(k, u)], [a], [b]. repeat split.
  - apply Ha. rewrite <- H. apply nth_error_mid.
  - apply Hb. rewrite <- H. apply nth_error_mid.
Qed.

Lemma subst_var_hit τ srt n p :
  nth_error τ n = Some p -> kind_of p = sort_kind srt -> subst τ 0 (Var srt 0 (N.of_nat n)) = Ok p.
Proof.
  intros H K. cbn [subst]. change (0 <=? 0) with true. change (0 =? 0) with true. cbv iota.
  rewrite Nat2N.id, H, K, kind_eqb_refl, shift_in_0. reflexivity.
Qed.

Lemma subst_cvar_hit τ c n p :
  nth_error τ n = Some p -> kind_of p = KConst -> subst τ 0 (CVar 0 (N.of_nat n) c) = Ok p.
Proof.
  intros H K. cbn [subst]. change (0 <=? 0) with true. change (0 =? 0) with true. cbv iota.
  rewrite Nat2N.id, H, K. cbn [kind_eqb]. rewrite shift_in_0. reflexivity.
Qed.

Lemma gen_keep st (a b : tm) :
  a = b -> (forall τ, subst τ 0 a = Ok a) ->
  gen_spec st st (fun τ => subst τ 0 a = Ok a) (fun τ => subst τ 0 a = Ok b).
Proof.
  intros <- H. exists [], [], []. rewrite app_nil_r. repeat split; apply H.
Qed.

Lemma subst_leaf τ k h : subst τ k (Node h []) = Ok (Node h []).
Proof. reflexivity. Qed.

Lemma subst_const_usize τ k h : subst τ k (Node h [usize_ty]) = Ok (Node h [usize_ty]).
Proof. reflexivity. Qed.

Lemma au_lt_gen u a b st :
  kind_of a = KLt -> kind_of b = KLt ->
  gen_spec st (snd (au_lt u a b st))
           (fun τ => subst τ 0 (fst (au_lt u a b st)) = Ok a) (fun τ => subst τ 0 (fst (au_lt u a b st)) = Ok b).
Proof.
  intros Ka Kb.
  assert (F : gen_spec st (snd (fresh_lt u st)) (fun τ => subst τ 0 (fst (fresh_lt u st)) = Ok a)
                       (fun τ => subst τ 0 (fst (fresh_lt u st)) = Ok b)).
  { cbn [fresh_lt fst snd]. apply gen_fresh_var; intros τ H; apply subst_var_hit; assumption. }
  unfold au_lt. destruct a as [| | ha [| ? ?]]; try exact F. destruct b as [| | hb [| ? ?]]; try exact F.
  destruct (head_eqb ha hb) eqn:E; [| exact F]. apply head_eqb_eq in E. subst hb.
  cbn [fst snd]. apply gen_keep; [reflexivity | intros; reflexivity].
Qed.

Lemma au_const_gen u a b st :
  kind_of a = KConst -> kind_of b = KConst -> ctys_ok a -> ctys_ok b ->
  gen_spec st (snd (au_const u a b st))
           (fun τ => subst τ 0 (fst (au_const u a b st)) = Ok a) (fun τ => subst τ 0 (fst (au_const u a b st)) = Ok b).
Proof.
  intros Ka Kb Wa Wb.
  assert (F : gen_spec st (snd (fresh_const u (const_ty a) st)) (fun τ => subst τ 0 (fst (fresh_const u (const_ty a) st)) = Ok a)
                       (fun τ => subst τ 0 (fst (fresh_const u (const_ty a) st)) = Ok b)).
  { cbn [fresh_const fst snd]. apply gen_fresh_var; intros τ H; apply subst_cvar_hit; assumption. }
  unfold au_const. destruct a as [| | ha ca]; try exact F. destruct ha; try exact F; destruct b as [| | hb cb]; try exact F; destruct hb; try exact F.
  - destruct (tm_eqb (Node (HCPlaceholder ui idx) ca) (Node (HCPlaceholder ui0 idx0) cb)) eqn:E; [| exact F].
    apply tm_eqb_eq in E. cbn [fst snd]. apply gen_keep; [assumption |].
    apply ctys_ok_node in Wa. destruct Wa as [Wa _]. rewrite (Wa eq_refl). intros; reflexivity.
  - destruct (N.eqb_spec value value0) as [-> |]; [| exact F]. cbn [fst snd].
    apply ctys_ok_node in Wa. destruct Wa as [Wa _]. apply ctys_ok_node in Wb. destruct Wb as [Wb _].
    rewrite (Wa eq_refl), (Wb eq_refl). apply gen_keep; [reflexivity | intros; reflexivity].
Qed.

Lemma gen_spec_cons st st1 st2 (ia ib : list tm -> Prop) (ja jb : list tm -> Prop) (ka kb : list tm -> Prop) :
  gen_spec st st1 ia ib -> gen_spec st1 st2 ja jb ->
  (forall τ, ia τ -> ja τ -> ka τ) -> (forall τ, ib τ -> jb τ -> kb τ) ->
  gen_spec st st2 ka kb.
Proof.
  intros (e1 & l1 & l2 & -> & L1 & L2 & H1) (e2 & m1 & m2 & -> & M1 & M2 & H2) Ka Kb.
  exists (e1 ++ e2), (l1 ++ m1), (l2 ++ m2). rewrite app_assoc, !app_length. repeat split; try lia.
  - apply Ka.
    + rewrite <- app_assoc. apply H1. assumption.
    + replace (pre ++ (l1 ++ m1) ++ post) with ((pre ++ l1) ++ m1 ++ post) by (rewrite <- !app_assoc; reflexivity).
      apply H2. rewrite !app_length. lia.
  - apply Kb.
    + rewrite <- app_assoc. apply H1. assumption.
    + replace (pre ++ (l2 ++ m2) ++ post) with ((pre ++ l2) ++ m2 ++ post) by (rewrite <- !app_assoc; reflexivity).
      apply H2. rewrite !app_length. lia.
Qed.

Lemma kind_of_ty_shape a : kind_of a = KTy -> (exists d i, a = Var STy d i) \/ (exists h cs, a = Node h cs /\ head_kind h = KTy).
Proof.
  destruct a as [[] d i | d i c | h cs]; cbn [kind_of]; intros H; try discriminate; [left | right]; eauto.
Qed.

Lemma au_ty_gen : forall a u b st g st',
  kind_of a = KTy -> kind_of b = KTy -> ctys_ok a -> ctys_ok b ->
  au_ty u a b st = Ok (g, st') ->
  gen_spec st st' (fun τ => subst τ 0 g = Ok a) (fun τ => subst τ 0 g = Ok b).
Proof.
  induction a as [srt d i | d i c _ | ha ca IH] using tm_ind'; intros u b st g st' Ka Kb Wa Wb HA.
  1,2: (cbn [au_ty] in HA; inversion HA; subst; apply gen_fresh_var; intros τ H; apply subst_var_hit; assumption).
  assert (F : Ok (fresh_ty u st) = Ok (g, st') -> gen_spec st st' (fun τ => subst τ 0 g = Ok (Node ha ca)) (fun τ => subst τ 0 g = Ok b)).
  { intros E. inversion E; subst. apply gen_fresh_var; intros τ H; apply subst_var_hit; assumption. }
  destruct b as [| | hb cb]; [exact (F HA) | exact (F HA) |].
  rewrite au_ty_node in HA. destruct (head_eqb ha hb) eqn:Eh; [| exact (F HA)].
  apply head_eqb_eq in Eh. subst hb. destruct (hclass_of ha) eqn:Ec; [| | exact (F HA)].
  - (* structural *)
    destruct (Nat.eqb (length ca) (length cb)) eqn:El; [| discriminate]. apply Nat.eqb_eq in El.
    destruct (au_list u ca cb st) as [[gs st2] | e] eqn:EL; cbn [rbind fst snd] in HA; [| discriminate].
    inversion HA; subst. clear HA F.
    apply ctys_ok_node in Wa. destruct Wa as [_ Wa]. apply ctys_ok_node in Wb. destruct Wb as [_ Wb].
    assert (NB : binds ha = false) by (destruct ha; try discriminate Ec; reflexivity).
    assert (L : gen_spec st st' (fun τ => Forall2 (fun x y => subst τ 0 x = Ok y) gs ca) (fun τ => Forall2 (fun x y => subst τ 0 x = Ok y) gs cb)).
    { clear Ec NB Ka Kb. revert cb st gs st' El Wb EL. induction IH as [| x r Hx _ IHr]; intros cb st gs st' El Wb EL.
      - destruct cb; [| discriminate]. cbn [au_list] in EL. inversion EL; subst.
        exists [], [], []. rewrite app_nil_r. repeat split; constructor.
      - destruct cb as [| y r']; [discriminate |]. cbn [au_list] in EL.
        destruct (au_garg u x y st) as [[g1 st1] | e] eqn:E1; cbn [rbind fst snd] in EL; [| discriminate].
        destruct (au_list u r r' st1) as [[g2 st2] | e] eqn:E2; cbn [rbind fst snd] in EL; [| discriminate].
        inversion EL; subst. inversion Wa; subst. inversion Wb; subst.
        assert (G1 : gen_spec st st1 (fun τ => subst τ 0 g1 = Ok x) (fun τ => subst τ 0 g1 = Ok y)).
        { unfold au_garg in E1. destruct (kind_of x) eqn:Kx, (kind_of y) eqn:Ky; try discriminate.
          - eapply Hx; first [eassumption | reflexivity].
          - inversion E1. replace g1 with (fst (au_lt u x y st)) by (rewrite H0; reflexivity).
            replace st1 with (snd (au_lt u x y st)) by (rewrite H0; reflexivity). apply au_lt_gen; assumption.
          - inversion E1. replace g1 with (fst (au_const u x y st)) by (rewrite H0; reflexivity).
            replace st1 with (snd (au_const u x y st)) by (rewrite H0; reflexivity). apply au_const_gen; assumption. }
        eapply gen_spec_cons; [exact G1 | eapply IHr; try eassumption; cbn [length] in El; lia | |];
          intros τ H1' H2'; constructor; assumption. }
    destruct L as (ext & l1 & l2 & -> & L1 & L2 & H). exists ext, l1, l2. repeat split; try assumption.
    + apply subst_node_ok. unfold under. rewrite NB. apply H. assumption.
    + apply subst_node_ok. unfold under. rewrite NB. apply H. assumption.
  - (* leaf *)
    destruct ca; [| exact (F HA)]. destruct cb; [| exact (F HA)]. inversion HA; subst.
    apply gen_keep; [reflexivity | intros; reflexivity].
Qed.

Lemma au_garg_gen u a b st g st' :
  ctys_ok a -> ctys_ok b -> au_garg u a b st = Ok (g, st') ->
  gen_spec st st' (fun τ => subst τ 0 g = Ok a) (fun τ => subst τ 0 g = Ok b).
Proof.
  intros Wa Wb E. unfold au_garg in E. destruct (kind_of a) eqn:Ka, (kind_of b) eqn:Kb; try discriminate.
  - exact (au_ty_gen _ _ _ _ _ _ Ka Kb Wa Wb E).
  - inversion E. replace g with (fst (au_lt u a b st)) by (rewrite H0; reflexivity).
    replace st' with (snd (au_lt u a b st)) by (rewrite H0; reflexivity). apply au_lt_gen; assumption.
  - inversion E. replace g with (fst (au_const u a b st)) by (rewrite H0; reflexivity).
    replace st' with (snd (au_const u a b st)) by (rewrite H0; reflexivity). apply au_const_gen; assumption.
Qed.

Lemma gen_spec_top st' (ia ib : list tm -> Prop) :
  gen_spec [] st' ia ib -> (exists τ, ia τ) /\ (exists τ, ib τ).
Proof.
  intros (ext & l1 & l2 & _ & _ & _ & H). destruct (H [] [] eq_refl) as [H1 H2].
  cbn [app] in H1, H2. rewrite app_nil_r in H1, H2. eauto.
Qed.

(** Pair level: both arguments are instances of [aggregate_generic_args]' result. *)
Lemma aggregate_generalizes_lemma u a b bs g :
  ctys_ok a -> ctys_ok b -> agg_pair u a b = Ok (bs, g) ->
  instance_of a g = true /\ instance_of b g = true.
Proof.
  intros Wa Wb H. unfold agg_pair in H. destruct (au_garg u a b []) as [[g' st'] | e] eqn:E; cbn [rbind fst snd] in H; [| discriminate].
  inversion H; subst. destruct (gen_spec_top _ _ _ (au_garg_gen _ _ _ _ _ _ Wa Wb E)) as [H1 H2].
  split; apply instance_of_spec_lemma; assumption.
Qed.

(** [merge_into_guidance]. *)
Lemma merge_args_gen : forall g us ans st gs st',
  same_kinds g ans -> Forall ctys_ok g -> Forall ctys_ok ans ->
  merge_args us g ans st = Ok (gs, st') ->
  gen_spec st st' (fun τ => Forall2 (fun x y => subst τ 0 x = Ok y) gs g) (fun τ => Forall2 (fun x y => subst τ 0 x = Ok y) gs ans).
Proof.
  induction g as [| p1 r1 IH]; intros us ans st gs st' SK Wg Wa HM.
  - cbn [merge_args] in HM. inversion HM; subst. inversion SK; subst.
    exists [], [], []. rewrite app_nil_r. repeat split; constructor.
  - inversion SK as [| ? p2 ? r2 Kp SK' ]; subst. cbn [merge_args] in HM. destruct us as [| u ur]; [discriminate |].
    inversion Wg; subst. inversion Wa; subst.
    match type of HM with rbind ?X _ = _ => destruct X as [[g1 st1] | e] eqn:E1 end; cbn [rbind fst snd] in HM; [| discriminate].
    destruct (merge_args ur r1 r2 st1) as [[g2 st2] | e] eqn:E2; cbn [rbind fst snd] in HM; [| discriminate].
    inversion HM; subst.
    assert (G1 : gen_spec st st1 (fun τ => subst τ 0 g1 = Ok p1) (fun τ => subst τ 0 g1 = Ok p2)).
    { destruct (kind_of p1) eqn:K1; try (eapply au_garg_gen; eassumption).
      inversion E1; subst. apply gen_fresh_var; intros τ H; apply subst_var_hit; try assumption; cbn [sort_kind]; congruence. }
    eapply gen_spec_cons; [exact G1 | eapply IH; eassumption | |]; intros τ H1' H2'; constructor; assumption.
Qed.

Lemma Forall2_rmap_ok τ gs ss : Forall2 (fun x y => subst τ 0 x = Ok y) gs ss -> rmap (subst τ 0) gs = Ok ss.
Proof. apply rmap_ok. Qed.

Lemma merge_generalizes_lemma root g ans g' :
  same_kinds (snd g) (snd ans) -> Forall ctys_ok (snd g) -> Forall ctys_ok (snd ans) ->
  merge root g ans = Ok g' ->
  instance_of_list (snd g) (snd g') = true /\ instance_of_list (snd ans) (snd g') = true.
Proof.
  intros SK Wg Wa H. unfold merge in H.
  destruct (merge_args (map snd root) (snd g) (snd ans) []) as [[gs st'] | e] eqn:E; cbn [rbind fst snd] in H; [| discriminate].
  inversion H; subst. cbn [snd].
  destruct (gen_spec_top _ _ _ (merge_args_gen _ _ _ _ _ _ SK Wg Wa E)) as [(t1 & H1) (t2 & H2)].
  split; apply instance_of_list_spec_lemma; [exists t1 | exists t2]; apply Forall2_rmap_ok; assumption.
Qed.

(** ** Output shape: flat, kind-preserving, const types kept *)

Lemma au_lt_shape u a b st : kind_of a = KLt -> flat (fst (au_lt u a b st)) /\ kind_of (fst (au_lt u a b st)) = KLt /\ ctys_ok (fst (au_lt u a b st)).
Proof.
  intros Ka. unfold au_lt. destruct a as [| | ha [| ? ?]]; try (cbn; auto). destruct b as [| | hb [| ? ?]]; try (cbn; auto).
  destruct (head_eqb ha hb); cbn [fst]; [| cbn; auto]. cbn [kind_of] in Ka. repeat split; try assumption.
  - destruct ha; try discriminate Ka; reflexivity.
  - rewrite Ka. discriminate.
Qed.

Lemma au_const_shape u a b st :
  kind_of a = KConst -> ctys_ok a ->
  flat (fst (au_const u a b st)) /\ kind_of (fst (au_const u a b st)) = KConst /\ ctys_ok (fst (au_const u a b st)).
Proof.
  intros Ka Wa.
  assert (CT : const_ty a = usize_ty).
  { destruct a as [srt d i | d i c | h cs]; [destruct srt; discriminate | exact Wa |]. apply ctys_ok_node in Wa. destruct Wa as [Wa _]. rewrite (Wa Ka). reflexivity. }
  assert (F : flat (fst (fresh_const u (const_ty a) st)) /\ kind_of (fst (fresh_const u (const_ty a) st)) = KConst /\ ctys_ok (fst (fresh_const u (const_ty a) st))).
  { cbn [fresh_const fst]. rewrite CT. cbn. auto. }
  assert (K : forall h cs, a = Node h cs -> flat a /\ kind_of a = KConst /\ ctys_ok a).
  { intros h cs ->. split; [| split; assumption]. apply flat_node. split.
    - destruct h; try discriminate Ka; reflexivity.
    - apply ctys_ok_node in Wa. destruct Wa as [Wa _]. rewrite (Wa Ka). repeat constructor. }
  unfold au_const. destruct a as [| | ha ca]; try exact F. destruct ha; try exact F; destruct b as [| | hb cb]; try exact F; destruct hb; try exact F.
  - match goal with |- context [if ?c then _ else _] => destruct c end; [cbn [fst]; eapply K; reflexivity | exact F].
  - match goal with |- context [if ?c then _ else _] => destruct c end; [cbn [fst]; eapply K; reflexivity | exact F].
Qed.

Lemma au_ty_shape : forall a u b st g st',
  kind_of a = KTy -> ctys_ok a -> au_ty u a b st = Ok (g, st') ->
  flat g /\ kind_of g = KTy /\ ctys_ok g.
Proof.
  induction a as [srt d i | d i c _ | ha ca IH] using tm_ind'; intros u b st g st' Ka Wa HA.
  1,2: (cbn [au_ty] in HA; inversion HA; subst; cbn; auto).
  assert (F : Ok (fresh_ty u st) = Ok (g, st') -> flat g /\ kind_of g = KTy /\ ctys_ok g).
  { intros E. inversion E; subst. cbn. auto. }
  destruct b as [| | hb cb]; [exact (F HA) | exact (F HA) |].
  rewrite au_ty_node in HA. destruct (head_eqb ha hb) eqn:Eh; [| exact (F HA)].
  destruct (hclass_of ha) eqn:Ec; [| | exact (F HA)].
  - destruct (Nat.eqb (length ca) (length cb)); [| discriminate].
    destruct (au_list u ca cb st) as [[gs st2] | e] eqn:EL; cbn [rbind fst snd] in HA; [| discriminate].
    inversion HA; subst. clear HA F.
    assert (NB : binds ha = false) by (destruct ha; try discriminate Ec; reflexivity).
    apply ctys_ok_node in Wa. destruct Wa as [Wk Wa]. cbn [kind_of] in Ka.
    assert (L : Forall flat gs /\ Forall ctys_ok gs).
    { clear Ec NB Ka Wk Eh. revert cb st gs st' EL. induction IH as [| x r Hx _ IHr]; intros cb st gs st' EL.
      - cbn [au_list] in EL. inversion EL. split; constructor.
      - destruct cb as [| y r']; cbn [au_list] in EL; [inversion EL; split; constructor |].
        destruct (au_garg u x y st) as [[g1 st1] | e] eqn:E1; cbn [rbind fst snd] in EL; [| discriminate].
        destruct (au_list u r r' st1) as [[g2 st2] | e] eqn:E2; cbn [rbind fst snd] in EL; [| discriminate].
        inversion EL; subst. inversion Wa; subst.
        destruct (IHr H2 _ _ _ _ E2) as [R1 R2].
        assert (G1 : flat g1 /\ ctys_ok g1).
        { unfold au_garg in E1. destruct (kind_of x) eqn:Kx, (kind_of y) eqn:Ky; try discriminate.
          - destruct (Hx _ _ _ _ _ eq_refl H1 E1) as (? & ? & ?). auto.
          - inversion E1. replace g1 with (fst (au_lt u x y st)) by (rewrite H0; reflexivity).
            destruct (au_lt_shape u x y st Kx) as (? & ? & ?). auto.
          - inversion E1. replace g1 with (fst (au_const u x y st)) by (rewrite H0; reflexivity).
            destruct (au_const_shape u x y st Kx H1) as (? & ? & ?). auto. }
        destruct G1. split; constructor; assumption. }
    destruct L as [L1 L2]. split; [| split].
    + apply flat_node. auto.
    + exact Ka.
    + apply ctys_ok_node. split; [| assumption]. intros HK. rewrite HK in Ka. discriminate.
  - destruct ca; [| exact (F HA)]. destruct cb; [| exact (F HA)]. inversion HA; subst.
    split; [| split; assumption]. apply flat_node. split; [| constructor]. destruct ha; try discriminate Ec; reflexivity.
Qed.

Lemma au_garg_shape u a b st g st' :
  ctys_ok a -> au_garg u a b st = Ok (g, st') -> flat g /\ kind_of g = kind_of a /\ ctys_ok g.
Proof.
  intros Wa E. unfold au_garg in E. destruct (kind_of a) eqn:Ka, (kind_of b) eqn:Kb; try discriminate.
  - exact (au_ty_shape _ _ _ _ _ _ Ka Wa E).
  - inversion E. replace g with (fst (au_lt u a b st)) by (rewrite H0; reflexivity). apply au_lt_shape. assumption.
  - inversion E. replace g with (fst (au_const u a b st)) by (rewrite H0; reflexivity). apply au_const_shape; assumption.
Qed.

Lemma merge_args_shape : forall g us ans st gs st',
  same_kinds g ans -> Forall ctys_ok g -> merge_args us g ans st = Ok (gs, st') ->
  Forall flat gs /\ same_kinds gs g /\ Forall ctys_ok gs.
Proof.
  induction g as [| p1 r1 IH]; intros us ans st gs st' SK Wg HM.
  - cbn [merge_args] in HM. inversion HM; subst. repeat split; constructor.
  - inversion SK as [| ? p2 ? r2 Kp SK' ]; subst. cbn [merge_args] in HM. destruct us as [| u ur]; [discriminate |].
    inversion Wg; subst.
    match type of HM with rbind ?X _ = _ => destruct X as [[g1 st1] | e] eqn:E1 end; cbn [rbind fst snd] in HM; [| discriminate].
    destruct (merge_args ur r1 r2 st1) as [[g2 st2] | e] eqn:E2; cbn [rbind fst snd] in HM; [| discriminate].
    inversion HM; subst. destruct (IH _ _ _ _ _ SK' H2 E2) as (R1 & R2 & R3).
    assert (G1 : flat g1 /\ kind_of g1 = kind_of p1 /\ ctys_ok g1).
    { destruct (kind_of p1) eqn:K1; try (rewrite <- K1; eapply au_garg_shape; eassumption).
      inversion E1; subst. cbn. auto. }
    destruct G1 as (? & ? & ?). repeat split; constructor; assumption.
Qed.

(** ** Composition of instantiations on flat patterns, and the sequence theorem *)

Lemma subst_kind : forall p τ k p', subst τ k p = Ok p' -> kind_of p' = kind_of p.
Proof.
  intros p τ k p'. destruct p as [srt d i | d i c | h cs]; cbn [subst].
  - destruct (k <=? d); [| intros H; inversion H; reflexivity].
    destruct (d =? k); [| intros H; inversion H; reflexivity].
    destruct (nth_error τ (N.to_nat i)) as [q |]; [| discriminate].
    destruct (kind_eqb (kind_of q) (sort_kind srt)) eqn:E; [| discriminate].
    intros H; inversion H. rewrite kind_of_shift_in. destruct (kind_of q), srt; try discriminate E; reflexivity.
  - destruct (k <=? d); [| intros H; inversion H; reflexivity].
    destruct (d =? k); [| intros H; inversion H; reflexivity].
    destruct (nth_error τ (N.to_nat i)) as [q |]; [| discriminate].
    destruct (kind_eqb (kind_of q) KConst) eqn:E; [| discriminate].
    intros H; inversion H. rewrite kind_of_shift_in. destruct (kind_of q); try discriminate E; reflexivity.
  - destruct (rmap (subst τ (under h k)) cs); cbn [rbind]; [| discriminate]. intros H; inversion H; reflexivity.
Qed.

(** [σ] after [τ]: apply [σ] to every parameter of [τ] (parameters on which [σ] panics are
    not used by a successful instantiation and are left alone). *)
Definition compose (σ τ : list tm) : list tm :=
  map (fun p => match subst σ 0 p with Ok p' => p' | Panic _ => p end) τ.

Lemma subst_flat_compose : forall g τ σ m s,
  flat g -> subst τ 0 g = Ok m -> subst σ 0 m = Ok s -> subst (compose σ τ) 0 g = Ok s.
Proof.
  induction g as [srt d i | d i c _ | h cs IH] using tm_ind'; intros τ σ m s Fg H1 H2.
  - cbn [flat] in Fg. subst d. cbn [subst] in *. change (0 <=? 0) with true in *. change (0 =? 0) with true in *. cbv iota in *.
    unfold compose. rewrite nth_error_map. destruct (nth_error τ (N.to_nat i)) as [p |]; [| discriminate]. cbn [option_map].
    destruct (kind_eqb (kind_of p) (sort_kind srt)) eqn:E; [| discriminate]. inversion H1; subst. rewrite shift_in_0 in H2.
    rewrite H2. rewrite (subst_kind _ _ _ _ H2), E, shift_in_0. reflexivity.
  - cbn [flat] in Fg. subst d. cbn [subst] in *. change (0 <=? 0) with true in *. change (0 =? 0) with true in *. cbv iota in *.
    unfold compose. rewrite nth_error_map. destruct (nth_error τ (N.to_nat i)) as [p |]; [| discriminate]. cbn [option_map].
    destruct (kind_eqb (kind_of p) KConst) eqn:E; [| discriminate]. inversion H1; subst. rewrite shift_in_0 in H2.
    rewrite H2. rewrite (subst_kind _ _ _ _ H2), E, shift_in_0. reflexivity.
  - apply flat_node in Fg. destruct Fg as [NB Fc].
    apply subst_node_inv in H1. destruct H1 as (cs1 & -> & F1).
    apply subst_node_inv in H2. destruct H2 as (cs2 & -> & F2).
    apply subst_node_ok. unfold under in *. rewrite NB in *.
    clear NB. revert cs2 F2. induction F1 as [| x y r r' Hxy _ IHr]; intros cs2 F2; inversion F2; subst; constructor.
    + eapply (Forall_inv IH); [exact (Forall_inv Fc) | eassumption | eassumption].
    + apply IHr; [exact (Forall_inv_tail IH) | exact (Forall_inv_tail Fc) | assumption].
Qed.

Lemma instance_of_list_trans s g g' :
  Forall flat g' -> instance_of_list s g = true -> instance_of_list g g' = true -> instance_of_list s g' = true.
Proof.
  rewrite !instance_of_list_spec_lemma. intros Fg (σ & Hs) (τ & Hg). exists (compose σ τ).
  apply rmap_ok. apply rmap_ok_inv in Hs. apply rmap_ok_inv in Hg.
  revert s Hs. induction Hg as [| x y r r' Hxy _ IHr]; intros s Hs; inversion Hs; subst; constructor.
  - eapply subst_flat_compose; [exact (Forall_inv Fg) | eassumption | eassumption].
  - apply IHr; [exact (Forall_inv_tail Fg) | assumption].
Qed.

Lemma same_kinds_trans a b c : same_kinds a b -> same_kinds b c -> same_kinds a c.
Proof.
  intros H. revert c. induction H as [| x y r r' Hxy _ IH]; intros c H2; inversion H2; subst; constructor; [congruence | apply IH; assumption].
Qed.

Lemma same_kinds_sym a b : same_kinds a b -> same_kinds b a.
Proof. induction 1; constructor; [congruence | assumption]. Qed.

Lemma merge_shape root g ans g' :
  same_kinds (snd g) (snd ans) -> Forall ctys_ok (snd g) -> merge root g ans = Ok g' ->
  Forall flat (snd g') /\ same_kinds (snd g') (snd g) /\ Forall ctys_ok (snd g').
Proof.
  intros SK Wg H. unfold merge in H.
  destruct (merge_args (map snd root) (snd g) (snd ans) []) as [[gs st'] | e] eqn:E; cbn [rbind fst snd] in H; [| discriminate].
  inversion H; subst. cbn [snd]. eapply merge_args_shape; eassumption.
Qed.

(** The first answer and every answer merged after it are instances of the final guidance. *)
Lemma merge_all_generalizes_lemma root : forall r g s g',
  Forall ctys_ok (snd g) ->
  Forall (fun x => same_kinds (snd g) (snd x) /\ Forall ctys_ok (snd x)) (s :: r) ->
  merge_all root g (s :: r) = Ok g' ->
  instance_of_list (snd g) (snd g') = true /\
  Forall (fun x => instance_of_list (snd x) (snd g') = true) (s :: r) /\
  Forall flat (snd g').
Proof.
  induction r as [| s2 r2 IH]; intros g s g' Wg HR HM; cbn [merge_all] in HM;
    destruct (merge root g s) as [g1 | e] eqn:E1; cbn [rbind] in HM; try discriminate;
    inversion HR as [| ? ? [SKs Ws] HR']; subst;
    destruct (merge_generalizes_lemma _ _ _ _ SKs Wg Ws E1) as [I1 I2];
    destruct (merge_shape _ _ _ _ SKs Wg E1) as (F1 & K1 & W1).
  - inversion HM; subst. repeat split; [assumption | constructor; [assumption | constructor] | assumption].
  - assert (HR1 : Forall (fun x => same_kinds (snd g1) (snd x) /\ Forall ctys_ok (snd x)) (s2 :: r2)).
    { eapply Forall_impl; [| exact HR']. intros x [A B]. split; [eapply same_kinds_trans; eassumption | assumption]. }
    destruct (IH g1 s2 g' W1 HR1 HM) as (J1 & J2 & J3).
    repeat split; [| constructor; [| assumption] | assumption]; eapply instance_of_list_trans; eassumption.
Qed.

(** ** Non-vacuity *)

Definition ex_vec (t : tm) : tm := Node (HAdt 0) [t].
Definition ex_i32 : tm := Node (HScalar (Int I32)) [].
Definition ex_u32 : tm := Node (HScalar (Uint U32)) [].

Example aggregate_generalizes_nonvacuous :
  let a := Node (HRef Not) [Node HLStatic []; Node (HTuple 2) [ex_vec ex_i32; Node HArray [ex_u32; Node (HCConcrete 3) [usize_ty]]]] in
  let b := Node (HRef Not) [Node HLErased []; Node (HTuple 2) [ex_vec ex_u32; Node HArray [ex_u32; Node (HCConcrete 4) [usize_ty]]]] in
  ctys_ok a /\ ctys_ok b /\
  agg_pair 1 a b = Ok ([(VLt, 1); (VTy General, 1); (VConst, 1)],
                       Node (HRef Not) [Var SLt 0 0; Node (HTuple 2) [ex_vec (Var STy 0 1); Node HArray [ex_u32; CVar 0 2 usize_ty]]]).
Proof. cbv zeta. repeat split; cbn; auto; intros; discriminate. Qed.

Example merge_generalizes_nonvacuous :
  let root := [(VTy General, 0); (VTy General, 2); (VLt, 1)] in
  let g : csubst := ([(VTy General, 0)], [ex_vec (Var STy 0 0); Var STy 0 0; Node HLStatic []]) in
  let a1 : csubst := ([], [ex_vec ex_i32; ex_u32; Node HLStatic []]) in
  let a2 : csubst := ([], [ex_vec (ex_vec ex_u32); ex_u32; Node HLErased []]) in
  merge_all root g [a1; a2] = Ok ([(VTy General, 0); (VTy General, 2); (VLt, 1)], [ex_vec (Var STy 0 0); Var STy 0 1; Var SLt 0 2])
  /\ merge_seq root g [a1; a2] = Ok [([(VTy General, 0); (VTy General, 2); (VLt, 1)], [ex_vec (Var STy 0 0); Var STy 0 1; Var SLt 0 2]);
                                     ([(VTy General, 0); (VTy General, 2); (VLt, 1)], [ex_vec (Var STy 0 0); Var STy 0 1; Var SLt 0 2])]
  /\ is_trivial ([(VTy General, 0); (VConst, 0)], [Var STy 0 0; CVar 0 1 usize_ty]) = true
  /\ is_trivial g = false.
Proof. cbv zeta. repeat split; reflexivity. Qed.

(** The hypothesis on const types is needed: [aggregate_consts] keeps the FIRST const when the
    values agree and never compares the types, so for ill-typed input the second argument
    is not an instance of the result. *)
Example aggregate_needs_const_types :
  let a := Node (HCConcrete 3) [usize_ty] in
  let b := Node (HCConcrete 3) [Node (HScalar (Uint U8)) []] in
  agg_pair 0 a b = Ok ([], a) /\ instance_of b a = false /\ ~ ctys_ok b.
Proof. cbv zeta. repeat split; try reflexivity. intros [H _]. specialize (H eq_refl). discriminate H. Qed.
