"""C18 — clause pre-filtering never discards an applicable clause."""
import os

from vlib import core, irgen, sx
from vlib.sx import Pair

META = {
    "id": "C18",
    "level": "proof",
    "technique": "Coq theorem could_match_complete (model of MatchZipper: whenever instantiations of variables/lifetimes/consts/aliases make two terms equal the filter answers true; all terms) + differential correspondence could_match vs model (head-constructor pair sweep + mutated random pairs) + direct check on the implementation: real relate succeeds => real could_match true",
    "level_text": "Machine-checked proof (Coq 8.16, axiom-free) that the Gallina model of CouldMatch::could_match (zip_tys table of MatchZipper, derived Zip impls for generic args, trait refs, where clauses, domain goals, binders, slices) never rejects a pair that instantiations make syntactically equal, for all terms and all kind-preserving instantiations; tied to /repo on every run by comparing the real could_match with the model on an exhaustive sweep of head-constructor pairs and on mutated random pairs, and by checking on the implementation alone that whenever the real unifier succeeds the real filter said true.",
    "level_note": "Trusted: Coq kernel; hand-written model coq/Ir/CouldMatch.v tied by correspondence on generated pairs (bounded depth); 'unifiable' is formalised as equality under instantiation of bound/inference variables, lifetimes, consts and type-position aliases, which real unification success implies; harness conversion. The filter call sites (impls_for_trait, build_table, solve_from_clauses) are exercised end to end by C01/C04 runs, not modelled here.",
    "design_ref": "DESIGN.md section 4 C18",
    "bins": ["irbin", "solve", "implsel"],
    "assumptions": ["ADT/fn-def variance tables have at least as many entries as the substitution (true for lowered programs)"],
}

N = irgen.node


def kind(t):
    if t[0] == "Var":
        return "T" if t[1] == "STy" else "L"
    if t[0] == "CVar":
        return "C"
    h = irgen.head_name(t)
    if h in ("HLInfer", "HLPlaceholder", "HLStatic", "HLErased", "HLError"):
        return "L"
    if h in ("HCInfer", "HCPlaceholder", "HCConcrete"):
        return "C"
    if h in irgen.TY_HEADS:
        return "T"
    return "O"


def paths(t, pre=(), alias_pos=False):
    """(path, subterm) for every position except AliasTy positions (first child of AliasEq / Normalize),
    which only an alias may occupy; their arguments are included."""
    if not alias_pos:
        yield pre, t
    if t[0] == "Node":
        first_alias = irgen.head_name(t) in ("HAliasEq", "HNormalize")
        for i, c in enumerate(t[2]):
            yield from paths(c, pre + (i,), first_alias and i == 0)


def replace_at(t, path, new):
    if not path:
        return new
    cs = list(t[2])
    cs[path[0]] = replace_at(cs[path[0]], path[1:], new)
    return ("Node", t[1], cs)


def tweak_head(r, t):
    """Change the data of a rigid head (id, scalar, mutability, arity) or return None."""
    if t[0] != "Node":
        return None
    h, cs = t[1], t[2]
    name = irgen.head_name(t)
    if name in ("HAdt", "HAssocTy", "HOpaqueTy", "HFnDef", "HClosure", "HCoroutine", "HCoroutineWitness", "HForeign",
                "HProjection", "HOpaqueAlias", "HTraitRef", "HObjectSafe"):
        return ("Node", (name, (h[1] + 1) % 3), cs)
    if name == "HScalar":
        return N(("HScalar", "Char" if h[1] != "Char" else "Bool"))
    if name in ("HRef", "HRaw"):
        return ("Node", (name, "Mut" if h[1] == "Not" else "Not"), cs)
    if name == "HTuple" and cs:
        return ("Node", ("HTuple", len(cs) - 1), cs[:-1])
    if name in ("HAll", "HList") and cs:
        return ("Node", h, cs[:-1])
    return None


def mutate(r, g, t, binders_at):
    """One random edit: generalise a subterm to a variable (stays unifiable) or break a rigid position."""
    ps = list(paths(t))
    path, sub = r.choice(ps)
    k = kind(sub)
    choice = r.random()
    if choice < 0.45 and k in "TLC":
        if k == "T":
            new = r.choice([("Var", "STy", depth_of(t, path), 3 * r.randrange(2)), N(("HInfer", r.randrange(2), "General"))])
        elif k == "L":
            new = r.choice([("Var", "SLt", depth_of(t, path), 1 + 3 * r.randrange(2)), N("HLStatic")])
        else:
            new = ("CVar", depth_of(t, path), 2 + 3 * r.randrange(2), irgen.USIZE)
        return replace_at(t, path, new)
    if choice < 0.8:
        tw = tweak_head(r, sub)
        if tw is not None:
            return replace_at(t, path, tw)
    if k == "T":
        return replace_at(t, path, g.ty(2, depth_of(t, path)))
    if k == "L":
        return replace_at(t, path, g.lifetime(depth_of(t, path)))
    if k == "C":
        return replace_at(t, path, g.const(depth_of(t, path)))
    return t


def depth_of(t, path):
    """Number of binder levels between the root of t and the position."""
    d = 0
    cur = t
    for i in path:
        name = irgen.head_name(cur)
        if name in ("HBinders", "HFnPtr"):
            d += 1
        cur = cur[2][i]
    return d


def sweep_types():
    """One or more representatives of every TyKind head with small children."""
    u8 = N(("HScalar", ("Uint", "U8")))
    s = N("HStr")
    v = ("Var", "STy", 0, 0)
    reps = []
    for ident in (1, 2):
        for args in ([u8], [s], [v], [u8, s]):
            for hn in ("HAdt", "HAssocTy", "HOpaqueTy", "HFnDef", "HClosure", "HCoroutine", "HCoroutineWitness", "HProjection", "HOpaqueAlias"):
                reps.append(N((hn, ident), args))
        reps.append(N(("HForeign", ident)))
    reps += [u8, N(("HScalar", "Bool")), s, N("HNever"), N("HError"), v, N(("HInfer", 0, "General")), N(("HInfer", 2, "Integer")),
             N(("HPlaceholder", 1, 0)), N(("HPlaceholder", 1, 1))]
    for a in (u8, s, v):
        reps += [N(("HTuple", 1), [a]), N(("HTuple", 2), [a, u8]), N("HSlice", [a]), N(("HRaw", "Mut"), [a]), N(("HRaw", "Not"), [a]),
                 N(("HRef", "Mut"), [N("HLStatic"), a]), N(("HRef", "Not"), [("Var", "SLt", 0, 1), a]),
                 N("HArray", [a, N(("HCConcrete", 3), [irgen.USIZE])]), N("HArray", [a, ("CVar", 0, 2, irgen.USIZE)]),
                 N(("HFnPtr", 0, "AbiRust", "Safe", False), [a, u8]), N(("HFnPtr", 1, "AbiC", "Unsafe", False), [a])]
    tr = N(("HTraitRef", 0), [("Var", "STy", 1, 0)])
    for lt in (N("HLStatic"), N("HLErased")):
        reps.append(N("HDyn", [N(("HBinders", [("VTy", "General")]), [N("HList", [N(("HBinders", []), [N("HImplemented", [tr])])])]), lt]))
    return reps


def run(ctx):
    ok, why = ctx.proof_stage("Props.C18", ["could_match_complete", "could_match_slice_complete"])
    core.build_harness(bins=["irbin"])
    r = ctx.rng
    g = irgen.IrGen(r, max_depth=ctx.n(3, 5), disciplined=True, free_levels=1, infer_disjoint=True, nids=3, errors=True)
    pairs = []   # (family, a, b)
    reps = sweep_types()
    for a in reps:
        for b in reps:
            pairs.append(("sweep", a, b))
    lts = [N("HLStatic"), N("HLErased"), N("HLError"), ("Var", "SLt", 0, 1), N(("HLInfer", 4)), N(("HLPlaceholder", 1, 0))]
    cts = [N(("HCConcrete", 1), [irgen.USIZE]), N(("HCConcrete", 2), [irgen.USIZE]), ("CVar", 0, 2, irgen.USIZE), N(("HCInfer", 6), [irgen.USIZE]), N(("HCPlaceholder", 1, 0), [irgen.USIZE])]
    for xs in (lts, cts):
        for a in xs:
            for b in xs:
                pairs.append(("sweep-lc", a, b))
    for a in lts[:2] + cts[:2] + reps[:3]:      # mixed kinds as generic arguments
        for b in lts[:2] + cts[:2] + reps[:3]:
            pairs.append(("sweep-garg", N(("HAdt", 1), [a]), N(("HAdt", 1), [b])))
    nrand = ctx.n(1500, 40000)
    for i in range(nrand):
        k = r.random()
        if k < 0.6:
            a = g.ty()
        elif k < 0.8:
            a = g.domain_goal(3, 0)
        elif k < 0.9:
            a = g.trait_ref(3, 0)
        else:
            a = g.wc(3, 0)
        b = a
        for _ in range(r.choice([0, 1, 1, 2, 3])):
            b = mutate(r, g, b, 0)
        if r.random() < 0.1:
            b = g.ty() if kind(a) == "T" else b
        pairs.append(("mutated", a, b))
    slices = []
    for _ in range(ctx.n(200, 4000)):
        a = g.subst(2, 0, 0, 3)
        b = [mutate(r, g, x, 0) if r.random() < 0.5 else x for x in a]
        if r.random() < 0.2 and b:
            b = b[:-1]
        slices.append((a, b))

    cm = core.run_harness("irbin", [("CouldMatch", a, b) for _, a, b in pairs])
    un = core.run_harness("irbin", [("Unifies", a, b) for _, a, b in pairs])
    cms = core.run_harness("irbin", [("CouldMatchSlice", a, b) for a, b in slices])
    n_unif = n_reject = 0
    viol = 0
    coq_pairs, coq_idx = [], []
    for i, ((fam, a, b), c, u) in enumerate(zip(pairs, cm, un)):
        if c not in ("true", "false"):
            raise core.CheckFailure("could_match did not return on %s / %s: %s" % (sx.to_sexp(a)[:200], sx.to_sexp(b)[:200], c))
        unif = (u == "true")
        n_unif += unif
        n_reject += (c == "false")
        ctx.count(fam, (sx.to_sexp(a), sx.to_sexp(b)), nontrivial=(a != b))
        if unif and c == "false" and viol < 3:
            viol += 1
            ctx.violation({"kind": "property", "a": sx.to_sexp(a), "b": sx.to_sexp(b),
                           "what": "real InferenceTable::relate(Invariant) succeeds on the instantiated pair but real could_match answers false: the filter would discard an applicable clause"})
        coq_pairs.append((Pair(a, b), c == "true"))
        coq_idx.append(i)
    for p in pairs[:2] + pairs[-3:]:
        ctx.sample({"family": p[0], "a": sx.to_sexp(p[1])[:300], "b": sx.to_sexp(p[2])[:300]})
    ctx.cov["unifiable_pairs"] = n_unif
    ctx.cov["rejected_pairs"] = n_reject
    bad = core.coq_mismatches(ctx.work, "cm", ["Ir.Syntax", "Ir.CouldMatch"], fn="(fun p => could_match false (fst p) (snd p))",
                              eqb="implb", in_ty="tm * tm", out_ty="bool", pairs=coq_pairs, shard=ctx.n(500, 2000))
    sl_pairs = []
    for (a, b), c in zip(slices, cms):
        if c not in ("true", "false"):
            raise core.CheckFailure("could_match on slices did not return: " + c)
        ctx.count("slices", (sx.to_sexp(a), sx.to_sexp(b)), nontrivial=(a != b))
        sl_pairs.append((Pair(a, b), c == "true"))
    bad_s = core.coq_mismatches(ctx.work, "cms", ["Ir.Syntax", "Ir.CouldMatch"], fn="(fun p => could_match_slice (fst p) (snd p))",
                                eqb="implb", in_ty="list tm * list tm", out_ty="bool", pairs=sl_pairs, shard=500)
    ctx.cov["model_mismatches"] = len(bad) + len(bad_s)
    ctx.cov["rule"] = ("sweep: all pairs of %d representative types covering every TyKind head (equal/different ids, arities, children), all lifetime and const head pairs, mixed-kind generic args; "
                       "mutated: random types / domain goals / trait refs / where clauses paired with 0-3 random edits (generalise a subterm to a variable, change an id/scalar/mutability/arity, replace a subterm); "
                       "slices: argument lists incl. length mismatch. For every pair the real unifier is also run. non-trivial = a != b" % len(reps))
    # Relation: REFINEMENT, not equality -- `model says true => implementation says true` (implb).  The theorem
    # gives unifiable => model true, so this is exactly what transfers the property; an implementation that is
    # more permissive than the model (a weaker filter) is harmless and is not reported.
    if viol == 0:
        # the property holds on every explored input of the implementation; report model drift
        for j in bad[:2]:
            (a, b), impl = coq_pairs[j][0], coq_pairs[j][1]
            direction = "implementation rejects a pair the model accepts"
            # impl=false & model=true on a pair where a unifier exists would be a violation; search near the pair
            found = None
            if not impl:
                found = search_unifiable(ctx, g, a, b)
            if found:
                ctx.violation({"kind": "property", "a": sx.to_sexp(found[0]), "b": sx.to_sexp(found[1]),
                               "what": "real relate succeeds but real could_match answers false (found by directed search around a model/implementation disagreement)"})
            else:
                ctx.violation({"kind": "correspondence", "a": sx.to_sexp(a), "b": sx.to_sexp(b), "implementation": impl, "direction": direction,
                               "broken": "refinement Ir.CouldMatch.could_match a b = true -> CouldMatch::could_match a b = true; theorem Props.C18.could_match_complete is about the model; no pair accepted by the real unifier and rejected by the real filter was found"}, no_input=True)
        for j in bad_s[:1]:
            (a, b), impl = sl_pairs[j][0], sl_pairs[j][1]
            ctx.violation({"kind": "correspondence", "a": sx.to_sexp(a), "b": sx.to_sexp(b), "implementation": impl,
                           "broken": "refinement Ir.CouldMatch.could_match_slice l l' = true -> <[GenericArg] as CouldMatch>::could_match l l' = true"}, no_input=True)
    filter_differential(ctx)
    impl_selection(ctx)
    if not ok:
        ctx.violation({"kind": "proof", "broken": why}, no_input=True)


def filter_differential(ctx):
    """'Filtering changes only speed, never answers': both real solvers on generated programs and
    goals, with the pre-filter active and with hook H6 (CHALK_VERIF_NO_FILTER) making could_match
    accept everything; every answer must be identical.  This covers the call sites of the filter
    (impls_for_trait, build_table, solve_from_clauses, program_clauses_that_could_match)."""
    from vlib import logic, proggen as pg
    core.build_harness(bins=["solve"])
    r = ctx.rng
    cases, meta = [], []
    for _ in range(ctx.n(12, 600)):
        prog = pg.gen_program(r)
        text = pg.to_text(prog)
        goals = [pg.goal_text(g) for g in pg.GoalGen(r, prog).goals(3, 1, 2)]
        for solver in (pg.SLG, pg.REC):
            cases.append(pg.case(text, goals, solver, "Fresh", [("Cpu", 5)]))
            meta.append((prog.shape, text, goals, solver))
    for prog, goals in pg.corpus():
        text = pg.to_text(prog)
        gts = [pg.goal_text(g) for g in goals]
        for solver in (pg.SLG, pg.REC):
            cases.append(pg.case(text, gts, solver, "Fresh", [("Cpu", 5)]))
            meta.append((prog.shape, text, gts, solver))
    on = logic.solve_cases(cases, timeout=600)
    os.environ["CHALK_VERIF_NO_FILTER"] = "1"
    try:
        off = logic.solve_cases(cases, timeout=600)
    finally:
        del os.environ["CHALK_VERIF_NO_FILTER"]
    ndiff = ninc = 0
    for (shape, text, goals, solver), a, b in zip(meta, on, off):
        if not a["ok"] or not b["ok"]:
            ninc += 1
            continue
        for gt, (pa, aa), (pb, ab) in zip(goals, a["goals"], b["goals"]):
            if logic.is_death(aa) or logic.is_death(ab) or pa == "error" or pb == "error":
                ninc += 1
                continue
            ctx.count("filter-on-vs-off", (text, gt, solver), nontrivial=True)
            if sx.to_sexp(aa) != sx.to_sexp(ab):
                ndiff += 1
                if ndiff <= 3:
                    ctx.violation({"kind": "property", "program": text, "goal": gt, "solver": solver, "shape": shape,
                                   "answer_with_filter": sx.to_sexp(aa), "answer_without_filter": sx.to_sexp(ab),
                                   "what": "the solver's answer changes when the could_match pre-filter is disabled: the filter discards an applicable clause (or otherwise changes answers)"})
    ctx.cov["filter_differential"] = {"cases": len(cases), "differences": ndiff, "inconclusive": ninc}
    ctx.sample({"family": "filter-on-vs-off", "program": meta[0][1][:400], "goals": meta[0][2][:3], "solver": meta[0][3]})


# ---------------------------------------------------------------------------------------------
# call site Program::impls_for_trait: every impl whose header really unifies must be selected
# ---------------------------------------------------------------------------------------------

SCALARS = ["u8", "u32", "usize", "i32", "i64", "f32", "f64", "bool", "char"]


def t_text(t):
    k = t[0]
    if k == "scalar":
        return t[1]
    if k == "adt":
        return t[1] + ("<" + ", ".join(t_text(x) for x in t[2]) + ">" if t[2] else "")
    if k == "ref":
        return "&" + t[1] + (" mut " if t[2] else " ") + t_text(t[3])
    if k == "raw":
        return "*" + ("mut " if t[1] else "const ") + t_text(t[2])
    if k == "slice":
        return "[" + t_text(t[1]) + "]"
    if k == "array":
        return "[" + t_text(t[1]) + "; " + str(t[2]) + "]"
    if k == "tuple":
        return "(" + ", ".join(t_text(x) for x in t[1]) + ("," if len(t[1]) == 1 else "") + ")"
    if k == "fn":
        return "fn(" + ", ".join(t_text(x) for x in t[1]) + ") -> " + t_text(t[2])
    if k == "dyn":
        return "dyn Bar + " + t[1]
    if k == "proj":
        return "<" + t_text(t[1]) + " as Id>::This"
    if k == "var":
        return t[1]
    if k == "str":
        return "str"
    if k == "never":
        return "!"
    raise ValueError(t)


def t_gen(r, d, tvars, lts):
    leaf = [("scalar", r.choice(SCALARS)), ("adt", "S0", []), ("str",), ("never",)]
    if tvars:
        leaf += [("var", r.choice(tvars))] * 3
    if d <= 0 or r.random() < 0.3:
        return r.choice(leaf)
    k = r.randrange(11)
    sub = lambda: t_gen(r, d - 1, tvars, lts)
    if k == 0:
        return ("adt", "S1", [sub()])
    if k == 1:
        return ("adt", "S2", [sub(), sub()])
    if k == 2:
        return ("ref", r.choice(lts), r.random() < 0.3, sub())
    if k == 3:
        return ("raw", r.random() < 0.5, sub())
    if k == 4:
        return ("slice", sub())
    if k == 5:
        return ("array", sub(), r.randrange(3))
    if k == 6:
        return ("tuple", [sub() for _ in range(r.randrange(3))])
    if k == 7:
        return ("fn", [sub() for _ in range(r.randrange(1, 3))], sub())
    if k == 8:
        return ("dyn", r.choice(lts))
    if k == 9:
        return ("proj", sub())
    return r.choice(leaf)


def t_subst(t, m, lm):
    k = t[0]
    if k == "var":
        return m.get(t[1], t)
    if k == "adt":
        return ("adt", t[1], [t_subst(x, m, lm) for x in t[2]])
    if k == "ref":
        return ("ref", lm.get(t[1], t[1]), t[2], t_subst(t[3], m, lm))
    if k == "raw":
        return ("raw", t[1], t_subst(t[2], m, lm))
    if k == "slice":
        return ("slice", t_subst(t[1], m, lm))
    if k == "array":
        return ("array", t_subst(t[1], m, lm), t[2])
    if k == "tuple":
        return ("tuple", [t_subst(x, m, lm) for x in t[1]])
    if k == "fn":
        return ("fn", [t_subst(x, m, lm) for x in t[1]], t_subst(t[2], m, lm))
    if k == "dyn":
        return ("dyn", lm.get(t[1], t[1]))
    if k == "proj":
        return ("proj", t_subst(t[1], m, lm))
    return t


def t_mutate(r, t, gvars):
    """Replace one random subterm by a goal variable or another small type."""
    subs = []

    def walk(x, path):
        subs.append(path)
        k = x[0]
        kids = {"adt": x[2] if k == "adt" else None, "tuple": x[1] if k == "tuple" else None}.get(k)
        if k in ("adt", "tuple"):
            for i, c in enumerate(kids):
                walk(c, path + (i,))
        elif k in ("slice", "proj", "array"):
            walk(x[1], path + (0,))
        elif k == "raw":
            walk(x[2], path + (0,))
        elif k == "ref":
            walk(x[3], path + (0,))
        elif k == "fn":
            for i, c in enumerate(x[1]):
                walk(c, path + (i,))
            walk(x[2], path + (len(x[1]),))
    walk(t, ())
    target = r.choice(subs)
    new = r.choice([("var", r.choice(gvars)), ("scalar", r.choice(SCALARS)), ("adt", "S0", [])])

    def rebuild(x, path):
        if not path:
            return new
        i, rest = path[0], path[1:]
        k = x[0]
        if k == "adt":
            cs = list(x[2]); cs[i] = rebuild(cs[i], rest); return ("adt", x[1], cs)
        if k == "tuple":
            cs = list(x[1]); cs[i] = rebuild(cs[i], rest); return ("tuple", cs)
        if k == "slice":
            return ("slice", rebuild(x[1], rest))
        if k == "proj":
            return ("proj", rebuild(x[1], rest))
        if k == "array":
            return ("array", rebuild(x[1], rest), x[2])
        if k == "raw":
            return ("raw", x[1], rebuild(x[2], rest))
        if k == "ref":
            return ("ref", x[1], x[2], rebuild(x[3], rest))
        if k == "fn":
            if i < len(x[1]):
                cs = list(x[1]); cs[i] = rebuild(cs[i], rest); return ("fn", cs, x[2])
            return ("fn", x[1], rebuild(x[2], rest))
        return x
    return rebuild(t, target)


PRELUDE = ("struct S0 {} struct S1<T> {} struct S2<T, U> {} trait Bar {} trait Id { type This; } "
           "impl<T> Id for T { type This = T; } trait Foo<P> {} ")
GOAL_TVARS = ["T0", "T1", "N", "F", "A"]


def impl_selection(ctx):
    """`Program::impls_for_trait` (and therefore the clause selection built on it) must return every
    impl whose header the real unifier can unify with the goal's trait reference: impl headers with
    type/lifetime parameters, references, raw pointers, arrays, tuples, fn pointers, dyn, projections,
    against goals with general / integer / float unknowns, placeholders and lifetimes."""
    core.build_harness(bins=["implsel"])
    r = ctx.rng
    cases, meta = [], []
    for _ in range(ctx.n(60, 1500)):
        impls = []
        for _ in range(r.randint(3, 6)):
            hdr = (t_gen(r, 2, ["T", "U"], ["'a", "'static"]), t_gen(r, 2, ["T", "U"], ["'a", "'static"]))
            impls.append(hdr)
        # impls of other crates (`#[upstream]`) are candidates like local ones
        text = PRELUDE + " ".join("%simpl<'a, T, U> Foo<%s> for %s {}" % ("#[upstream] " if r.random() < 0.3 else "", t_text(p), t_text(s)) for s, p in impls)
        goals = []
        for _ in range(6):
            s, p = r.choice(impls)
            m = {v: t_gen(r, 1, GOAL_TVARS, ["'b", "'x", "'static"]) for v in ("T", "U")}
            lm = {"'a": r.choice(["'b", "'x", "'static"])}
            gs, gp = t_subst(s, m, lm), t_subst(p, m, lm)
            for _ in range(r.choice([0, 0, 1, 2])):
                if r.random() < 0.5:
                    gs = t_mutate(r, gs, GOAL_TVARS)
                else:
                    gp = t_mutate(r, gp, GOAL_TVARS)
            goals.append("exists<T0, T1, int N, float F, 'x> { forall<'b, A> { %s: Foo<%s> } }" % (t_text(gs), t_text(gp)))
        # directed: a bare unknown of every kind in each argument position (unifies with every header shape
        # its kind admits, so the selection must keep all those impls)
        for a, b in (("T0", "T1"), ("N", "T0"), ("T0", "N"), ("F", "T0"), ("T0", "F"), ("N", "F"), ("A", "T0"), ("T0", "A")):
            goals.append("exists<T0, T1, int N, float F, 'x> { forall<'b, A> { %s: Foo<%s> } }" % (a, b))
        cases.append(("Case", sx.Str(text), [sx.Str(g) for g in goals]))
        meta.append((text, goals))
    outs = core.run_harness("implsel", cases, timeout=600)
    nviol = nunif = ngoal = nerr = 0
    for (text, goals), o in zip(meta, outs):
        v = sx.parse_sexp(o)
        if sx.head(v) != "Result":
            nerr += 1
            if sx.head(v) == "Panic":
                ctx.violation({"kind": "implementation-failure", "program": text, "output": o[:500], "what": "impl selection panicked"})
            continue
        for gt, gr in zip(goals, v[1]):
            if sx.head(gr) != "G":
                nerr += 1
                continue
            returned, unif = set(gr[1]), set(gr[2])
            ngoal += 1
            nunif += len(unif)
            ctx.count("impls_for_trait", (text, gt), nontrivial=bool(unif))
            missing = sorted(unif - returned)
            if missing and nviol < 3:
                nviol += 1
                ctx.violation({"kind": "property", "program": text, "goal": gt, "returned_impls": sorted(returned), "unifiable_impls": sorted(unif),
                               "discarded_applicable_impls": missing,
                               "what": "Program::impls_for_trait does not return an impl whose header the real unifier unifies with the goal's trait reference"})
    ctx.cov["impl_selection"] = {"programs": len(cases), "goals": ngoal, "unifiable_impl_goal_pairs": nunif, "errors": nerr}
    if ngoal == 0 or nunif == 0:
        raise core.CheckFailure("impl selection stage produced no usable cases (%d errors)" % nerr)
    ctx.sample({"family": "impls_for_trait", "program": meta[0][0][:500], "goal": meta[0][1][0]})


def search_unifiable(ctx, g, a, b):
    """Generalise subterms of b step by step towards a: look for a pair the real unifier
    accepts while the real filter rejects."""
    r = ctx.rng
    cands = []
    for _ in range(300):
        b2 = b
        for _ in range(r.randint(1, 3)):
            ps = [(p, s) for p, s in paths(b2) if kind(s) == "T"]
            if not ps:
                break
            p, s = r.choice(ps)
            b2 = replace_at(b2, p, ("Var", "STy", depth_of(b2, p), 0))
        cands.append((a, b2))
        a2 = a
        ps = [(p, s) for p, s in paths(a2) if kind(s) == "T"]
        if ps:
            p, s = r.choice(ps)
            cands.append((replace_at(a2, p, ("Var", "STy", depth_of(a2, p), 3)), b2))
    cm = core.run_harness("irbin", [("CouldMatch", x, y) for x, y in cands])
    un = core.run_harness("irbin", [("Unifies", x, y) for x, y in cands])
    best = None
    for (x, y), c, u in zip(cands, cm, un):
        if c == "false" and u == "true":
            if best is None or irgen.tsize(x) + irgen.tsize(y) < irgen.tsize(best[0]) + irgen.tsize(best[1]):
                best = (x, y)
    return best


def replay(ctx, obj):
    if "discarded_applicable_impls" in obj:
        core.build_harness(bins=["implsel"])
        o = core.run_harness("implsel", [("Case", sx.Str(obj["program"]), [sx.Str(obj["goal"])])], shards=1)[0]
        print("impls_for_trait (returned | unifiable):", o)
        v = sx.parse_sexp(o)
        g = v[1][0] if sx.head(v) == "Result" and v[1] else None
        return 1 if (g is None or sx.head(g) != "G" or set(g[2]) - set(g[1])) else 0
    if "answer_with_filter" in obj:
        from vlib import logic, proggen as pg
        core.build_harness(bins=["solve"])
        case = [pg.case(obj["program"], [obj["goal"]], obj["solver"], "Fresh", [("Cpu", 10)])]
        a = logic.solve_cases(case)[0]
        os.environ["CHALK_VERIF_NO_FILTER"] = "1"
        try:
            b = logic.solve_cases(case)[0]
        finally:
            del os.environ["CHALK_VERIF_NO_FILTER"]
        print("with filter:", a["goals"], "\nwithout filter:", b["goals"])
        return 0 if sx.to_sexp(list(a["goals"][0])) == sx.to_sexp(list(b["goals"][0])) else 1
    core.build_harness(bins=["irbin"])
    a, b = sx.parse_sexp(obj["a"]), sx.parse_sexp(obj["b"])
    c = core.run_harness("irbin", [("CouldMatch", a, b)], shards=1)[0]
    u = core.run_harness("irbin", [("Unifies", a, b)], shards=1)[0]
    print("could_match:", c, "unifies:", u)
    return 1 if (u == "true" and c == "false") else 0
