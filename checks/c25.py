"""C25 — binder operations obey the substitution laws."""
from vlib import core, irgen, sx
from vlib.sx import Pair

META = {
    "id": "C25",
    "level": "proof",
    "technique": "Coq theorems (shift_out_in, shift_in_out, subst_identity, subst_shift_commute, fold_identity, subst_wellkinded_no_panic) over a Gallina model of Shifter/DownShifter/Subst/default folder + differential correspondence of every operation and of every law instance on the real chalk-ir folders",
    "level_text": "Machine-checked proofs (Coq 8.16, axiom-free) of the substitution laws for all terms (types, lifetimes, consts, where clauses, goals, clauses; any binder depth) of the Gallina model of chalk-ir's folders; the model is tied to /repo on every run by running shifted_in_from / shifted_out_to / Subst::apply / Binders::substitute / identity_substitution / a do-nothing folder on generated terms and comparing each result with the model evaluated in Coq; in addition every law instance is evaluated directly on the implementation's own outputs.",
    "level_note": "Trusted: Coq kernel; hand-written model coq/Ir/Fold.v (tied by correspondence on generated terms of bounded depth only); harness conversion sexp<->chalk_ir. The code's assumption 'const types have no free variables' is part of the generator (const types are closed); VariableKind::Const types are usize.",
    "design_ref": "DESIGN.md section 4 C25",
    "bins": ["irbin"],
    "assumptions": ["const types are closed terms (chalk's Shifter/Subst skip them by design)",
                    "panic sites are compared as panic/no-panic only (evaluation order of children is not part of the property)"],
}

N = irgen.node
U8 = N(("HScalar", ("Uint", "U8")))


def kind(t):
    if t[0] == "Var":
        return "T" if t[1] == "STy" else "L"
    if t[0] == "CVar":
        return "C"
    h = irgen.head_name(t)
    if h in ("HLInfer", "HLPlaceholder", "HLStatic", "HLErased", "HLError"):
        return "L"
    if h in ("HCInfer", "HCPlaceholder", "HCConcrete"):
        return "C"
    if h in irgen.TY_HEADS:
        return "T"
    if h in ("HQuantified", "HImplies", "HAll", "HNot", "HEqGoal", "HSubtypeGoal", "HDomainGoal", "HCannotProve"):
        return "G"
    if h == "HClause":
        return "CL"
    if h in ("HImplemented", "HAliasEq", "HLtOutlives", "HTyOutlives"):
        return "W"
    if h == "HTraitRef":
        return "TR"
    if h == "HBinders":
        return "Q"
    return "D"


def wrap(t):
    """Embed t as the body of one binder so that the real shifted_in_from exercises cut-off 1."""
    k = kind(t)
    fn = ("HFnPtr", 1, "AbiRust", "Safe", False)
    if k == "T":
        return N(fn, [t]), lambda w: w[2][0]
    if k == "L":
        return N(fn, [N(("HRef", "Not"), [t, U8])]), lambda w: w[2][0][2][0]
    if k == "C":
        return N(fn, [N("HArray", [U8, t])]), lambda w: w[2][0][2][1]
    q = ("HQuantified", "ForAll")
    b = ("HBinders", [("VTy", "General")])
    if k == "G":
        return N(q, [N(b, [t])]), lambda w: w[2][0][2][0]
    if k == "D":
        return N(q, [N(b, [N("HDomainGoal", [t])])]), lambda w: w[2][0][2][0][2][0]
    if k == "CL":
        return N(q, [N(b, [N("HImplies", [N("HList", [t]), N("HCannotProve")])])]), lambda w: w[2][0][2][0][2][0][2][0]
    if k == "W":
        return N(b, [t]), lambda w: w[2][0]
    if k == "TR":
        return N(b, [N("HImplemented", [t])]), lambda w: w[2][0][2][0]
    if k == "Q":
        return N(q, [N(b, [N("HDomainGoal", [N("HHolds", [N("HImplemented", [N(("HTraitRef", 0), [N("HDyn", [N(("HBinders", [("VTy", "General")]), [N("HList", [t])]), N("HLStatic")])])])])])])]), \
            lambda w: w[2][0][2][0][2][0][2][0][2][0][2][0][2][0][2][0][2][0]
    raise ValueError(k)


def classify(o):
    """Harness output -> sx value of the model's result type."""
    v = sx.parse_sexp(o)
    if isinstance(v, tuple) and not isinstance(v, Pair) and v[0] == "Panic":
        return ("Panic", "OtherPanic")
    if isinstance(v, tuple) and not isinstance(v, Pair) and v[0] in ("BadInput", "Abort"):
        return None
    if v == "Timeout":
        return None
    return v


RES_EQB = "(fun a b => match a, b with Ok x, Ok y => tm_eqb x y | Panic _, Panic _ => true | _, _ => false end)"


def laws_violated(items):
    """items: [(t, n, ps)].  Evaluates every law instance on the REAL folders only; returns for each
    item the sorted list of violated laws (empty list = all hold; None = the term is not convertible)."""
    ks = irgen.DISCIPLINED_KINDS
    r1, span = [], []
    for t, n, ps in items:
        try:
            w, _ = wrap(t)
        except (ValueError, IndexError, TypeError):
            w = t
        start = len(r1)
        r1 += [("ShiftIn", n, t), ("ShiftOut", n, t), ("Subst", ps, t), ("FoldId", t), ("ShiftIn", n, w), ("ShiftIn", 1, w)]
        r1 += [("ShiftIn", n, p) for p in ps]
        r1 += [("SubstApply", ps, t)]
        span.append(start)
    o1 = [classify(o) for o in core.run_harness("irbin", r1)]
    r2, meta2 = [], []
    res = []
    for k, (t, n, ps) in enumerate(items):
        s0 = span[k]
        si, so, su, fi, sw, sw1 = o1[s0:s0 + 6]
        sps = o1[s0 + 6:s0 + 6 + len(ps)]
        sap = o1[s0 + 6 + len(ps)]
        if any(x is None for x in (si, so, su, fi, sw, sw1, sap)) or any(x is None for x in sps):
            res.append(None)
            continue
        bad = set()
        if fi != t:
            bad.add("fold_identity")
        _, unwrap = wrap(t)
        r2.append(("ShiftOut", n, si)); meta2.append((k, "shift_out_in", ("Some", t)))
        if so != "None":
            r2.append(("ShiftIn", n, so[1])); meta2.append((k, "shift_in_out", t))
        r2.append(("IdentitySubst", ks, unwrap(sw1))); meta2.append((k, "subst_identity", t))
        if not (isinstance(su, tuple) and su[0] == "Panic"):
            r2.append(("ShiftIn", n, su)); meta2.append((k, "lhs", None))
            r2.append(("Subst", sps, unwrap(sw))); meta2.append((k, "rhs", None))
        if not (isinstance(sap, tuple) and sap[0] == "Panic"):
            r2.append(("ShiftIn", n, sap)); meta2.append((k, "alhs", None))
            r2.append(("SubstApply", sps, t)); meta2.append((k, "arhs", None))
        res.append(bad)
    o2 = [classify(o) for o in core.run_harness("irbin", r2)]
    lhs = {}
    for (k, law, expect), got in zip(meta2, o2):
        if res[k] is None:
            continue
        if law == "lhs":
            lhs[k] = got
        elif law == "rhs":
            if got != lhs.get(k):
                res[k].add("subst_shift_commute")
        elif law == "alhs":
            lhs[("a", k)] = got
        elif law == "arhs":
            if got != lhs.get(("a", k)):
                res[k].add("subst_apply_shift_commute")
        elif got != expect:
            res[k].add(law)
    return [None if x is None else sorted(x) for x in res]


def shrink_law(t, n, ps, law):
    """Smallest subterm-replacement variant of t that still violates `law` on the real folders."""
    cur = t
    for _ in range(40):
        cands = [c for c in irgen.shrink_candidates(cur) if irgen.tsize(c) < irgen.tsize(cur)]
        if not cands:
            break
        cands.sort(key=irgen.tsize)
        cands = cands[:200]
        verdicts = laws_violated([(c, n, ps) for c in cands])
        nxt = next((c for c, v in zip(cands, verdicts) if v and law in v), None)
        if nxt is None:
            break
        cur = nxt
    return cur


def run(ctx):
    ok, why = ctx.proof_stage("Props.C25", ["shift_out_in", "shift_in_out", "subst_identity", "subst_shift_commute",
                                             "fold_identity", "subst_wellkinded_no_panic", "shift_in_shift_in", "subst_shift_cancel", "subst_apply_agrees"])
    core.build_harness(bins=["irbin"])
    r = ctx.rng
    nterms = ctx.n(500, 12000)
    depth = ctx.n(4, 6)
    g = irgen.IrGen(r, max_depth=depth, disciplined=True, free_levels=3)
    gm = irgen.IrGen(r, max_depth=3, disciplined=False, free_levels=2)   # malformed stream
    terms = [g.any_term() for _ in range(nterms)]
    ks = irgen.DISCIPLINED_KINDS

    def params():
        out = []
        for i in range(6):
            if i % 3 == 0:
                out.append(g.ty(2, 0))
            elif i % 3 == 1:
                out.append(g.lifetime(0))
            else:
                out.append(g.const(0))
        return out

    cases = []   # (tag, harness case, extra)
    for t in terms:
        n = r.randrange(4)
        ps = params()
        w, _ = wrap(t)
        cases.append(("ShiftIn", ("ShiftIn", n, t), (n, t)))
        cases.append(("ShiftOut", ("ShiftOut", n, t), (n, t)))
        cases.append(("Subst", ("Subst", ps, t), (ps, t)))
        cases.append(("FoldId", ("FoldId", t), t))
        cases.append(("FoldId", ("FoldIdT", t), t))     # the infallible TypeFolder's defaults
        cases.append(("ShiftInW", ("ShiftIn", n, w), (n, w)))       # cut-off 1 through the wrapper
        cases.append(("BindersSubst", ("BindersSubst", ks, t, ps), (ks, t, ps)))
    # Substitution::apply (SubstFolder): terms whose free variables all belong to the substituted binder
    g1 = irgen.IrGen(r, max_depth=depth, disciplined=True, free_levels=1)
    gp = irgen.IrGen(r, max_depth=2, disciplined=True, free_levels=2)
    apply_cases = []
    for _ in range(ctx.n(300, 6000)):
        t = g1.any_term()
        ps = []
        for i in range(6):
            ps.append(gp.ty(2, 0) if i % 3 == 0 else (gp.lifetime(0) if i % 3 == 1 else gp.const(0)))
        n = r.randrange(1, 4)
        apply_cases.append((t, ps, n))
        cases.append(("SubstApply", ("SubstApply", ps, t), (ps, t)))
    for _ in range(ctx.n(60, 1000)):            # free variables of outer binders / wrong kinds: must panic like the model
        t = g.any_term()
        ps = [gm.garg(2, 0) for _ in range(r.randrange(7))]
        cases.append(("SubstApplyMalformed", ("SubstApply", ps, t), (ps, t)))
    # malformed: wrong kinds, short parameter lists, arity mismatch of Binders::substitute
    for _ in range(ctx.n(150, 3000)):
        t = gm.any_term()
        ps = [gm.garg(2, 0) for _ in range(r.randrange(4))]
        kk = gm.vkinds(0, 3)
        cases.append(("SubstMalformed", ("Subst", ps, t), (ps, t)))
        cases.append(("BindersSubstMalformed", ("BindersSubst", kk, t, ps), (kk, t, ps)))
        cases.append(("IdentitySubstMalformed", ("IdentitySubst", kk, t), (kk, t)))
    outs = core.run_harness("irbin", [c[1] for c in cases])
    results = [classify(o) for o in outs]
    for (tag, hc, extra), o, res in zip(cases, outs, results):
        if res is None:
            raise core.CheckFailure("harness could not run case %s: %s" % (sx.to_sexp(hc)[:300], o))
        key = sx.to_sexp(hc)
        t = hc[-1] if tag not in ("BindersSubst", "BindersSubstMalformed") else hc[2]
        ctx.count(tag, key, nontrivial=irgen.tsize(t) > 2)
    for c in cases[:2] + cases[-2:]:
        ctx.sample({"op": c[0], "case": sx.to_sexp(c[1])[:600]})

    # ---- stage A: the laws evaluated directly on the implementation's outputs ------------------
    by = {}
    for (tag, hc, extra), res in zip(cases, results):
        by.setdefault(tag, []).append((extra, res))
    law_cases, law_meta = [], []
    for (n, t), res in by["ShiftIn"]:
        law_cases.append(("ShiftOut", n, res)); law_meta.append(("shift_out_in", (n, t), ("Some", t)))
    for (n, t), res in by["ShiftOut"]:
        if res != "None":
            law_cases.append(("ShiftIn", n, res[1])); law_meta.append(("shift_in_out", (n, t), t))
    for i, ((n, w), res) in enumerate(by["ShiftInW"]):
        t = terms[i]
        _, unwrap = wrap(t)
        if n == 1:
            law_cases.append(("IdentitySubst", ks, unwrap(res))); law_meta.append(("subst_identity", t, t))
        (ps, _t), sres = by["Subst"][i]
        if isinstance(sres, tuple) and sres[0] == "Panic":
            continue
        law_cases.append(("ShiftIn", n, sres)); law_meta.append(("commute_lhs", i, None))
    found = []     # (law, term, n, params) violated on the real folders
    for (t), res in by["FoldId"]:
        if res != t:
            found.append(("fold_identity", t, 1, []))
            break
    louts = [classify(o) for o in core.run_harness("irbin", law_cases)]
    lhs = {}
    viol = 0
    for (law, inp, expect), got in zip(law_meta, louts):
        if law == "commute_lhs":
            lhs[inp] = got
            continue
        ctx.count("law:" + law, sx.to_sexp(inp if not isinstance(inp, tuple) or inp[0] in ("Node", "Var", "CVar") else list(inp)), nontrivial=True)
        if got != expect:
            viol += 1
            if law == "subst_identity":
                found.append((law, inp, 1, []))
            else:
                found.append((law, inp[1], inp[0], []))
    # commute rhs: Subst (map (ShiftIn n) ps) (unwrap (ShiftIn n (wrap t)))
    rhs_cases, rhs_idx = [], []
    shift_ps_cases, shift_ps_idx = [], []
    for i in lhs:
        (ps, t), _ = by["Subst"][i]
        (n, w), wres = by["ShiftInW"][i]
        for p in ps:
            shift_ps_cases.append(("ShiftIn", n, p)); shift_ps_idx.append(i)
    sp = [classify(o) for o in core.run_harness("irbin", shift_ps_cases)]
    shifted = {}
    for i, v in zip(shift_ps_idx, sp):
        shifted.setdefault(i, []).append(v)
    for i in lhs:
        (n, w), wres = by["ShiftInW"][i]
        _, unwrap = wrap(terms[i])
        rhs_cases.append(("Subst", shifted[i], unwrap(wres))); rhs_idx.append(i)
    routs = [classify(o) for o in core.run_harness("irbin", rhs_cases)]
    for i, got in zip(rhs_idx, routs):
        ctx.count("law:subst_shift_commute", i, nontrivial=True)
        if got != lhs[i]:
            viol += 1
            (ps, t), _ = by["Subst"][i]
            found.append(("subst_shift_commute", t, by["ShiftInW"][i][0][0], ps))
    # Substitution::apply commutes with shifting (t mentions only the substituted binder, so it is not shifted itself)
    lhs_c, rhs_c, ps_c = [], [], []
    ap = by.get("SubstApply", [])
    for (t, ps, n), ((ps2, t2), res) in zip(apply_cases, ap):
        if isinstance(res, tuple) and res[0] == "Panic":
            continue
        lhs_c.append(("ShiftIn", n, res))
        for p_ in ps:
            ps_c.append(("ShiftIn", n, p_))
    lo = [classify(o) for o in core.run_harness("irbin", lhs_c)]
    po = [classify(o) for o in core.run_harness("irbin", ps_c)]
    k = 0
    meta_c = []
    for (t, ps, n), ((ps2, t2), res) in zip(apply_cases, ap):
        if isinstance(res, tuple) and res[0] == "Panic":
            continue
        rhs_c.append(("SubstApply", po[6 * k:6 * k + 6], t))
        meta_c.append((t, ps, n, lo[k]))
        k += 1
    ro = [classify(o) for o in core.run_harness("irbin", rhs_c)]
    for (t, ps, n, l), r_ in zip(meta_c, ro):
        ctx.count("law:subst_apply_shift_commute", sx.to_sexp(("X", n, ps, t)), nontrivial=True)
        if l != r_:
            viol += 1
            found.append(("subst_apply_shift_commute", t, n, ps))
    seen_laws = set()
    for law, t, n, ps in sorted(found, key=lambda f: irgen.tsize(f[1])):
        if law in seen_laws or len(seen_laws) >= 3:
            continue
        seen_laws.add(law)
        small = shrink_law(t, n, ps, law)
        ctx.violation({"kind": "property", "law": law, "input": sx.to_sexp(small), "n": n, "params": sx.to_sexp(ps), "original_input": sx.to_sexp(t)[:2000],
                       "laws_violated_at_input": laws_violated([(small, n, ps)])[0],
                       "what": "law %s fails on the real chalk-ir folders (shifted_in_from / shifted_out_to / Subst::apply / identity_substitution / do-nothing folder)" % law})
    ctx.cov["law_violations"] = len(found)

    # ---- stage B: model == implementation, operation by operation -------------------------------
    imports = ["Ir.Syntax", "Ir.Fold"]
    specs = [
        ("ShiftIn", [Pair(n, t) for (n, t), _ in by["ShiftIn"] + by["ShiftInW"]], [res for _, res in by["ShiftIn"] + by["ShiftInW"]],
         "(fun p => shift_in (fst p) 0 (snd p))", "tm_eqb", "N * tm", "tm"),
        ("ShiftOut", [Pair(n, t) for (n, t), _ in by["ShiftOut"]], [res for _, res in by["ShiftOut"]],
         "(fun p => shift_out (fst p) 0 (snd p))", "(option_eqb tm_eqb)", "N * tm", "option tm"),
        ("Subst", [Pair(ps, t) for (ps, t), _ in by["Subst"] + by["SubstMalformed"]],
         [res if (isinstance(res, tuple) and res[0] == "Panic") else ("Ok", res) for _, res in by["Subst"] + by["SubstMalformed"]],
         "(fun p => subst (fst p) 0 (snd p))", RES_EQB, "list tm * tm", "res tm"),
        ("BindersSubst", [Pair(Pair(k, t), ps) for (k, t, ps), _ in by["BindersSubst"] + by["BindersSubstMalformed"]],
         [res if (isinstance(res, tuple) and res[0] == "Panic") else ("Ok", res) for _, res in by["BindersSubst"] + by["BindersSubstMalformed"]],
         "(fun p => binders_substitute (fst (fst p)) (snd (fst p)) (snd p))", RES_EQB, "(list vkind * tm) * list tm", "res tm"),
        ("IdentitySubst", [Pair(k, t) for (k, t), _ in by["IdentitySubstMalformed"]],
         [res if (isinstance(res, tuple) and res[0] == "Panic") else ("Ok", res) for _, res in by["IdentitySubstMalformed"]],
         "(fun p => binders_substitute (fst p) (snd p) (identity_subst (fst p)))", RES_EQB, "list vkind * tm", "res tm"),
        ("FoldId", [t for t, _ in by["FoldId"]], [res for _, res in by["FoldId"]], "(fold_id 0)", "tm_eqb", "tm", "tm"),
        ("SubstApply", [Pair(ps, t) for (ps, t), _ in by["SubstApply"] + by["SubstApplyMalformed"]],
         [res if (isinstance(res, tuple) and res[0] == "Panic") else ("Ok", res) for _, res in by["SubstApply"] + by["SubstApplyMalformed"]],
         "(fun p => subst_apply (fst p) 0 (snd p))", RES_EQB, "list tm * tm", "res tm"),
    ]
    mism = 0
    for name, ins, exps, fn, eqb, ity, oty in specs:
        bad = core.coq_mismatches(ctx.work, name, imports, fn=fn, eqb=eqb, in_ty=ity, out_ty=oty,
                                  pairs=list(zip(ins, exps)), shard=ctx.n(300, 1000))
        ctx.cov["families"].setdefault("model==impl:" + name, {"cases": len(ins), "nontrivial": len(ins)})["mismatches"] = len(bad)
        for j in bad[:2]:
            mism += 1
            if viol == 0:
                # the laws hold on every explored input of the implementation, yet the model differs
                model = core.coq_eval(ctx.work, "m_" + name, imports, ["(%s) %s" % (fn, sx.to_coq(ins[j]))])[0]
                ctx.violation({"kind": "correspondence", "operation": name, "input": sx.to_sexp(ins[j]) if not isinstance(ins[j], Pair) else sx.to_sexp(ins[j]),
                               "implementation": sx.to_sexp(exps[j]), "model": model[:2000],
                               "broken": "correspondence Ir.Fold.%s = real chalk-ir operation; the theorems of Props/C25.v are about the model. All law instances evaluated on the implementation held." % name},
                              no_input=True)
    ctx.cov["model_mismatches"] = mism
    ctx.cov["rule"] = ("disciplined random terms of all syntactic categories (depth <= %d, variables at up to %d binder levels, fn-pointer / dyn / quantifier / clause binders), "
                       "each run through shifted_in_from(n), shifted_out_to(n), Subst::apply, Binders::substitute, a do-nothing folder, plus a malformed stream (wrong kinds, short parameter lists, arity mismatch); "
                       "law instances (shift_out_in, shift_in_out, subst_identity, subst_shift_commute, fold_identity) evaluated on the implementation's own outputs; non-trivial = term size > 2" % (depth, 3))
    if not ok:
        ctx.violation({"kind": "proof", "broken": why}, no_input=True)


def replay(ctx, obj):
    core.build_harness(bins=["irbin"])
    t = sx.parse_sexp(obj["input"])
    n = obj.get("n", 1)
    ps = sx.parse_sexp(obj["params"]) if obj.get("params") else []
    v = laws_violated([(t, n, ps)])[0]
    print("laws violated on the real folders:", v)
    return 1 if v else 0
