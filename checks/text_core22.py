"""Core fragment of C22 (Text/Syntax22.v): random lowered programs in the shared data syntax,
an independent source renderer (ordinary parameter names), the expected structural dump, and the
translation of real writer tokens into Coq [tok] terms."""
from __future__ import annotations

import re

from vlib.sx import Nat, Pair, Str

SCALARS = ["bool", "char", "i8", "i16", "i32", "i64", "i128", "isize", "u8", "u16", "u32", "u64", "u128", "usize",
           "f16", "f32", "f64", "f128"]
KW = {"struct": "Kstruct", "trait": "Ktrait", "impl": "Kimpl", "for": "Kfor", "where": "Kwhere", "forall": "Kforall",
      "mut": "Kmut", "'static": "Kstatic", "'erased": "Kerased", "upstream": "Kupstream", "fundamental": "Kfundamental",
      "phantom_data": "Kphantom_data", "auto": "Kauto", "marker": "Kmarker", "non_enumerable": "Knon_enumerable",
      "coinductive": "Kcoinductive", "object_safe": "Kobject_safe", "enum": "Kenum", "one_zst": "Kone_zst", "str": "Kstr",
      "const": "Kconst", "int": "Kint", "float": "Kfloat", "fn": "Kfn", "unsafe": "Kunsafe", "dyn": "Kdyn", "repr": "Krepr", "C": "KC", "packed": "Kpacked"}
PUNCT = {"<": "PLt", ">": "PGt", "(": "PLParen", ")": "PRParen", "{": "PLBrace", "}": "PRBrace", "[": "PLBracket",
         "]": "PRBracket", ",": "PComma", ":": "PColon", "&": "PAmp", "!": "PBang", "#": "PHash", "*": "PStar", ";": "PSemi", "->": "PArrow", "...": "PDots", "+": "PPlus"}


def item_name(n):
    return "Item%d" % n


def tok_term(t: str, names):
    """real token string -> Coq term of type tok (None if outside the fragment's vocabulary)"""
    if t in KW:
        return ("KW", KW[t])
    if t in SCALARS:
        return ("KW", ("Kscalar", "S" + t))
    if t in PUNCT:
        return ("P", PUNCT[t])
    if t == "Self":
        return "SELF"
    m = re.fullmatch(r"_(\d+)_(\d+)", t)
    if m:
        return ("VAR", Nat(int(m.group(1))), Nat(int(m.group(2))))
    m = re.fullmatch(r"'_(\d+)_(\d+)", t)
    if m:
        return ("LTV", Nat(int(m.group(1))), Nat(int(m.group(2))))
    m = re.fullmatch(r"field_(\d+)", t)
    if m:
        return ("FIELD", Nat(int(m.group(1))))
    if re.fullmatch(r"\d+", t):
        return ("NUM", int(t))
    m = re.fullmatch(r"variant_(\d+)", t)
    if m:
        return ("VARIANT", Nat(int(m.group(1))))
    if t in names:
        return ("ID", names[t])
    return None


class Gen:
    def __init__(self, rng):
        self.r = rng

    def kinds(self, maxn=3):
        return [self.r.choice(["KTy", "KTy", "KTy", "KLt", "KLt", "KConst", "KInt", "KFloat"]) for _ in range(self.r.choice([0, 1, 1, 2, maxn]))]

    def lt(self, scopes):
        """scopes: innermost first, each a list of kinds"""
        cands = [(d, i) for d, sc in enumerate(scopes) for i, k in enumerate(sc) if k == "KLt"]
        if cands and self.r.random() < 0.7:
            d, i = self.r.choice(cands)
            return ("LVar", Pair(Nat(d), Nat(i)))
        return "LStatic" if self.r.random() < 0.8 else "LErased"

    def konst(self, scopes):
        cands = [(d, i) for d, sc in enumerate(scopes) for i, k in enumerate(sc) if k == "KConst"]
        if cands and self.r.random() < 0.6:
            d, i = self.r.choice(cands)
            return ("CVar", Pair(Nat(d), Nat(i)))
        return ("CVal", self.r.choice([0, 1, 3, 42, 4294967295]))

    def garg(self, kind, scopes, depth, nodyn=False):
        if kind == "KLt":
            return ("GLt", self.lt(scopes))
        if kind == "KConst":
            c = self.konst(scopes)
            return ("GCVar", c[1]) if c[0] == "CVar" else ("GCVal", c[1])
        return ("GTy", self.ty(scopes, depth, nodyn))

    def ty(self, scopes, depth=2, nodyn=False):
        r = self.r
        c = r.random()
        if depth > 0 and c < 0.07:
            nb = r.choice([0, 0, 1, 2])
            sc = [["KLt"] * nb] + scopes
            return ("TFn", Nat(nb), r.random() < 0.3, r.random() < 0.2, [self.ty(sc, depth - 1, nodyn) for _ in range(r.choice([0, 1, 2]))],
                    self.ty(sc, depth - 1, nodyn))
        nonauto = [t for t in sorted(self.traits) if not self.trait_auto.get(t)]
        if depth > 0 and c < 0.13 and nonauto and not nodyn:
            bs = []
            for _ in range(r.choice([1, 1, 2])):
                ks = [r.choice(["KLt", "KLt", "KTy"]) for _ in range(r.choice([0, 0, 1, 2]))]
                t = r.choice(nonauto)
                sc = [ks, []] + scopes
                bs.append(("DB", ks, Nat(t), [self.garg(k, sc, depth - 1, True) for k in self.traits[t]]))
            return ("TDyn", bs, self.lt(scopes))
        c = r.random()
        tv = [(d, i) for d, sc in enumerate(scopes) for i, k in enumerate(sc) if k in ("KTy", "KInt", "KFloat")]
        if depth <= 0 or c < 0.3:
            if tv and r.random() < 0.6:
                d, i = r.choice(tv)
                return ("TVar", Pair(Nat(d), Nat(i)))
            nullary = [i for i, ks in self.structs.items() if not ks]
            if nullary and r.random() < 0.4:
                return ("TAdt", Nat(r.choice(nullary)), [])
            c2 = r.random()
            if c2 < 0.1:
                return "TStr"
            if c2 < 0.2:
                return "TNever"
            return ("TScalar", "S" + r.choice(SCALARS))
        if c < 0.55 and self.structs:
            i = r.choice(sorted(self.structs))
            return ("TAdt", Nat(i), [self.garg(k, scopes, depth - 1, nodyn) for k in self.structs[i]])
        if c < 0.72:
            return ("TTuple", [self.ty(scopes, depth - 1, nodyn) for _ in range(r.choice([0, 1, 2, 3]))])
        if c < 0.80:
            return ("TRaw", r.random() < 0.5, self.ty(scopes, depth - 1, nodyn))
        if c < 0.84:
            return ("TSlice", self.ty(scopes, depth - 1, nodyn))
        if c < 0.90:
            return ("TArray", self.ty(scopes, depth - 1, nodyn), self.konst(scopes))
        return ("TRef", r.random() < 0.4, self.lt(scopes), self.ty(scopes, depth - 1, nodyn))

    def wc(self, scopes):
        r = self.r
        c = r.random()
        if c < 0.6 and self.traits:
            t = r.choice(sorted(self.traits))
            return ("WImpl", self.ty(scopes, 1), Nat(t), [self.garg(k, scopes, 1) for k in self.traits[t]])
        if c < 0.8:
            return ("WLtOut", self.lt(scopes), self.lt(scopes))
        return ("WTyOut", self.ty(scopes, 1), self.lt(scopes))

    def qwcs(self, scopes):
        out = []
        for _ in range(self.r.choice([0, 0, 1, 2, 3])):
            bs = self.kinds(2) if self.r.random() < 0.3 else []
            out.append(Pair(bs, self.wc([bs] + scopes)))
        return out

    def program(self):
        r = self.r
        n = r.randint(1, 6)
        kinds = [r.choice(["s", "s", "e", "t", "i"]) for _ in range(n)]
        if "t" not in kinds:
            kinds.append("t")
        r.shuffle(kinds)
        self.structs, self.traits, self.trait_auto = {}, {}, {}
        hdr = []
        for i, k in enumerate(kinds):
            ps = self.kinds(3)
            hdr.append(ps)
            if k in ("s", "e"):
                self.structs[i] = ps
            elif k == "t":
                self.traits[i] = ps
                self.trait_auto[i] = (not ps) and r.random() < 0.2
        items = []
        for i, k in enumerate(kinds):
            ps = hdr[i]
            if k == "s":
                fund = bool(ps) and r.random() < 0.15
                fl = ("Build_sflags", r.random() < 0.15, fund, r.random() < 0.1, r.random() < 0.1, r.random() < 0.15, r.random() < 0.1)
                items.append(("IStruct", i + 100, ps, fl, [self.ty([ps]) for _ in range(r.choice([0, 1, 2, 3]))], self.qwcs([ps])))
            elif k == "e":
                fund = bool(ps) and r.random() < 0.15
                fl = ("Build_sflags", r.random() < 0.15, fund, r.random() < 0.1, r.random() < 0.1, r.random() < 0.15, r.random() < 0.1)
                vs = [[self.ty([ps]) for _ in range(r.choice([0, 1, 2]))] for _ in range(r.choice([0, 1, 2, 3]))]
                items.append(("IEnum", i + 100, ps, fl, vs, self.qwcs([ps])))
            elif k == "t":
                auto = self.trait_auto[i]
                fl = ("Build_tflags", auto, *[r.random() < 0.12 for _ in range(6)])
                sc = [["KTy"] + ps]
                items.append(("ITrait", i + 100, ps, fl, [] if auto else self.qwcs(sc)))
            else:
                t = r.choice(sorted(self.traits))
                items.append(("IImpl", ps, r.random() < 0.12, r.random() < 0.85, Nat(t),
                              [self.garg(kk, [ps], 1) for kk in self.traits[t]], self.ty([ps]), self.qwcs([ps])))
        return items


# ---------------------------------------------------------------------------------------
# independent source rendering (what a user would write): fresh readable parameter names
# ---------------------------------------------------------------------------------------

def _pname(level, i, k):
    base = "abcdefgh"[level] if level < 8 else "z"
    return ("'%s%d" % (base, i)) if k == "KLt" else ("%s%d" % (base.upper(), i))


def _pdecl(level, i, k):
    return {"KConst": "const ", "KInt": "int ", "KFloat": "float "}.get(k, "") + _pname(level, i, k)


class Src:
    def __init__(self, items):
        self.items = items
        self.names = {i: item_name(it[1]) for i, it in enumerate(items) if it[0] in ("IStruct", "IEnum", "ITrait")}

    def var(self, scopes, d, i):
        """scopes: innermost first, each (level, kinds, is_trait)"""
        level, ks, is_trait = scopes[d]
        if is_trait and i == 0:
            return "Self"
        return _pname(level, i, ks[i])

    def lt(self, l, sc):
        if l == "LStatic":
            return "'static"
        if l == "LErased":
            return "'erased"
        return self.var(sc, int(l[1][0]), int(l[1][1]))

    def ty(self, t, sc):
        if t == "TStr":
            return "str"
        if t == "TNever":
            return "!"
        h = t[0]
        if h == "TRaw":
            return "*" + ("mut " if t[1] else "const ") + self.ty(t[2], sc)
        if h == "TSlice":
            return "[" + self.ty(t[1], sc) + "]"
        if h == "TArray":
            return "[" + self.ty(t[1], sc) + "; " + self.konst(t[2], sc) + "]"
        if h == "TFn":
            _, nb, unsafe, variadic, args, ret = t
            s2 = [(len(sc), ["KLt"] * int(nb), False)] + sc
            pre = ("for" + self.params(len(sc), ["KLt"] * int(nb)) + " ") if int(nb) else ""
            ins = [self.ty(a, s2) for a in args] + (["..."] if variadic else [])
            return pre + ("unsafe " if unsafe else "") + "fn(" + ", ".join(ins) + ") -> " + self.ty(ret, s2)
        if h == "TDyn":
            bs = []
            for _, ks, tr, args in t[1]:
                s2 = [(len(sc) + 1, ks, False), (len(sc), [], False)] + sc
                a = [self.garg(x, s2) for x in args]
                bs.append((("forall" + self.params(len(sc) + 1, ks) + " ") if ks else "") + self.names[int(tr)] + (("<" + ", ".join(a) + ">") if a else ""))
            return "dyn " + " + ".join(bs) + " + " + self.lt(t[2], sc)
        if h == "TVar":
            return self.var(sc, int(t[1][0]), int(t[1][1]))
        if h == "TAdt":
            a = [self.garg(x, sc) for x in t[2]]
            return self.names[int(t[1])] + (("<" + ", ".join(a) + ">") if a else "")
        if h == "TScalar":
            return t[1][1:]
        if h == "TTuple":
            ts = [self.ty(x, sc) for x in t[1]]
            return "(" + ", ".join(ts) + ("," if len(ts) == 1 else "") + ")"
        return "&" + self.lt(t[2], sc) + (" mut " if t[1] else " ") + self.ty(t[3], sc)

    def konst(self, c, sc):
        return str(int(c[1])) if c[0] == "CVal" else self.var(sc, int(c[1][0]), int(c[1][1]))

    def garg(self, a, sc):
        if a[0] == "GTy":
            return self.ty(a[1], sc)
        if a[0] == "GLt":
            return self.lt(a[1], sc)
        if a[0] == "GCVal":
            return str(int(a[1]))
        return self.var(sc, int(a[1][0]), int(a[1][1]))

    def params(self, level, ks, skip=0):
        ps = [_pdecl(level, i, k) for i, k in enumerate(ks)][skip:]
        return ("<" + ", ".join(ps) + ">") if ps else ""

    def where(self, qs, sc):
        out = []
        for bs, w in qs:
            s2 = [(len(sc), bs, False)] + sc
            pre = ("forall" + self.params(len(sc), bs) + " ") if bs else ""
            if w[0] == "WImpl":
                a = [self.garg(x, s2) for x in w[3]]
                body = self.ty(w[1], s2) + ": " + self.names[int(w[2])] + (("<" + ", ".join(a) + ">") if a else "")
            elif w[0] == "WLtOut":
                body = self.lt(w[1], s2) + ": " + self.lt(w[2], s2)
            else:
                body = self.ty(w[1], s2) + ": " + self.lt(w[2], s2)
            out.append(pre + body)
        return (" where " + ", ".join(out)) if out else ""

    def render(self):
        out = []
        for it in self.items:
            if it[0] == "IStruct":
                _, nm, ps, fl, fields, wcs = it
                sc = [(0, ps, False)]
                at = "".join("#[%s] " % n for n, b in zip(["upstream", "fundamental", "phantom_data", "one_zst", "repr(C)", "repr(packed)"], fl[1:]) if b)
                out.append(at + "struct " + item_name(nm) + self.params(0, ps) + self.where(wcs, sc) + " { "
                           + ", ".join("x%d: %s" % (i, self.ty(t, sc)) for i, t in enumerate(fields)) + " }")
            elif it[0] == "IEnum":
                _, nm, ps, fl, vs, wcs = it
                sc = [(0, ps, False)]
                at = "".join("#[%s] " % n for n, b in zip(["upstream", "fundamental", "phantom_data", "one_zst", "repr(C)", "repr(packed)"], fl[1:]) if b)
                body = ", ".join("V%d { %s }" % (k, ", ".join("x%d: %s" % (i, self.ty(t, sc)) for i, t in enumerate(v))) for k, v in enumerate(vs))
                out.append(at + "enum " + item_name(nm) + self.params(0, ps) + self.where(wcs, sc) + " { " + body + " }")
            elif it[0] == "ITrait":
                _, nm, ps, fl, wcs = it
                sc = [(0, ["KTy"] + ps, True)]
                at = "".join("#[%s] " % n for n, b in zip(["auto", "marker", "upstream", "fundamental", "non_enumerable",
                                                           "coinductive", "object_safe"], fl[1:]) if b)
                out.append(at + "trait " + item_name(nm) + self.params(0, ["KTy"] + ps, skip=1) + self.where(wcs, sc) + " { }")
            else:
                _, ps, up, pos, tr, args, self_ty, wcs = it
                sc = [(0, ps, False)]
                a = [self.garg(x, sc) for x in args]
                out.append(("#[upstream] " if up else "") + "impl" + self.params(0, ps) + " " + ("" if pos else "!")
                           + self.names[int(tr)] + (("<" + ", ".join(a) + ">") if a else "") + " for " + self.ty(self_ty, sc)
                           + self.where(wcs, sc) + " { }")
        return "\n".join(out)


# ---------------------------------------------------------------------------------------
# the structural dump (harness/src/bin/text/roundtrip.rs) the lowered program must have
# ---------------------------------------------------------------------------------------

def _bv(h, v):
    return (h, int(v[0]), int(v[1]))


def d_lt(l):
    return l if isinstance(l, str) else _bv("LBV", l[1])


def d_ty(t):
    if t == "TStr":
        return "Str"
    if t == "TNever":
        return "Never"
    h = t[0]
    if h == "TRaw":
        return ("Raw", "Mut" if t[1] else "Not", d_ty(t[2]))
    if h == "TSlice":
        return ("Slice", d_ty(t[1]))
    if h == "TArray":
        return ("Array", d_ty(t[1]), d_konst(t[2]))
    if h == "TFn":
        _, nb, unsafe, variadic, args, ret = t
        return ("FnPtr", int(nb), ("Sig", "Unsafe" if unsafe else "Safe", "AbiRust", bool(variadic)), [("GTy", d_ty(a)) for a in list(args) + [ret]])
    if h == "TDyn":
        from vlib import sx
        qs = {}
        for _, ks, tr, args in t[1]:
            q = ("Q", list(ks), ("Implemented", ("TraitRef", int(tr), [("GTy", ("BV", 1, 0))] + [d_garg(a) for a in args])))
            qs[sx.to_sexp(q)] = q
        return ("Dyn", ["KTy"], [qs[k] for k in sorted(qs)], d_lt(t[2]))
    if h == "TVar":
        return _bv("BV", t[1])
    if h == "TAdt":
        return ("Adt", int(t[1]), [d_garg(a) for a in t[2]])
    if h == "TScalar":
        return ("Scalar", t[1][1:])
    if h == "TTuple":
        return ("Tuple", len(t[1]), [("GTy", d_ty(x)) for x in t[1]])
    return ("Ref", "Mut" if t[1] else "Not", d_lt(t[2]), d_ty(t[3]))


def d_konst(c):
    return ("CVal", int(c[1])) if c[0] == "CVal" else _bv("CBV", c[1])


def d_garg(a):
    if a[0] == "GTy":
        return ("GTy", d_ty(a[1]))
    if a[0] == "GLt":
        return ("GLt", d_lt(a[1]))
    if a[0] == "GCVal":
        return ("GConst", ("CVal", int(a[1])))
    return ("GConst", _bv("CBV", a[1]))


def d_qwcs(qs, self_first=False):
    from vlib import sx
    out = []
    for bs, w in qs:
        if w[0] == "WImpl":
            body = ("Implemented", ("TraitRef", int(w[2]), [("GTy", d_ty(w[1]))] + [d_garg(a) for a in w[3]]))
        elif w[0] == "WLtOut":
            body = ("LtOutlives", d_lt(w[1]), d_lt(w[2]))
        else:
            body = ("TyOutlives", d_ty(w[1]), d_lt(w[2]))
        out.append(("Q", list(bs), body))
    ded = {}
    for q in out:
        ded[sx.to_sexp(q)] = q
    return [ded[k] for k in sorted(ded)]


def expected_dump(items):
    out = []
    for i, it in enumerate(items):
        if it[0] == "IStruct":
            _, nm, ps, fl, fields, wcs = it
            out.append(("Adt", i, Str(item_name(nm)), list(ps), "Struct", ("Flags",) + tuple(fl[1:4]), ("Repr", fl[5], fl[6], "None"), fl[4],
                        ["Invariant"] * len(ps), [[d_ty(t) for t in fields]], d_qwcs(wcs)))
        elif it[0] == "IEnum":
            _, nm, ps, fl, vs, wcs = it
            out.append(("Adt", i, Str(item_name(nm)), list(ps), "Enum", ("Flags",) + tuple(fl[1:4]), ("Repr", fl[5], fl[6], "None"), fl[4],
                        ["Invariant"] * len(ps), [[d_ty(t) for t in v] for v in vs], d_qwcs(wcs)))
        elif it[0] == "ITrait":
            _, nm, ps, fl, wcs = it
            out.append(("Trait", i, Str(item_name(nm)), ["KTy"] + list(ps), ("Flags",) + tuple(fl[1:7]), fl[7], "None", [], d_qwcs(wcs)))
        else:
            _, ps, up, pos, tr, args, self_ty, wcs = it
            out.append(("Impl", i, "Positive" if pos else "Negative", "External" if up else "Local", list(ps),
                        ("TraitRef", int(tr), [("GTy", d_ty(self_ty))] + [d_garg(a) for a in args]), d_qwcs(wcs), []))
    order = {"Adt": 0, "Trait": 1, "AssocTy": 2, "Impl": 3}
    out.sort(key=lambda x: (order[x[0]], x[1]))
    return ("Program", out, ("Unwritten", 0, 0, 0, 0))
