"""C26 — type flags summarize a type's contents accurately."""
from vlib import core, irgen, sx

META = {
    "id": "C26",
    "level": "proof",
    "technique": "Coq theorem flags_spec (model of compute_flags = occurrence of flagged nodes, all terms, 15 bits) + differential correspondence TyData::flags vs model on generated types incl. per-position sweep",
    "level_text": "Machine-checked proof (Coq 8.16, axiom-free) that the Gallina model of TyKind::compute_flags sets each of the 15 occurrence flags exactly when a node of the flagged kind occurs anywhere inside the type, for all terms; the model is tied to /repo on every run by comparing the stored TyData.flags of generated types (every head constructor, every child position, every flagged leaf kind) with the model evaluated in Coq.",
    "level_note": "Trusted: Coq kernel; the hand-written model (coq/Ir/Flags.v) is tied to the code only by the correspondence run (generated types, bounded depth); harness conversion sexp<->chalk_ir; STILL_FURTHER_SPECIALIZABLE masked out as the property says; HAS_TY_OPAQUE read as 'opaque alias' (pinned test).",
    "design_ref": "DESIGN.md section 4 C26",
    "bins": ["irbin"],
    "assumptions": ["VariableKind::Const types inside dyn binders are always usize in ChalkIr and are not modelled",
                    "flag bit 15 (STILL_FURTHER_SPECIALIZABLE) is excluded from comparison"],
}

MASK = 0x7FFF

# python-side independent reading of the property (used only to decide whether a disagreement
# is a violation of the property on the implementation's own output)
def py_occurs(t):
    bits = 0
    for s in irgen.subterms(t):
        h = irgen.head_name(s)
        if s[0] == "Var":
            if s[1] == "SLt":
                bits |= 1 << 13
            continue
        if s[0] == "CVar":
            continue
        bits |= {
            "HInfer": 1 << 0, "HLInfer": (1 << 1) | (1 << 6) | (1 << 12), "HCInfer": 1 << 2,
            "HPlaceholder": 1 << 3, "HLPlaceholder": (1 << 4) | (1 << 6) | (1 << 12), "HCPlaceholder": 1 << 5,
            "HProjection": 1 << 7, "HOpaqueAlias": 1 << 8, "HError": 1 << 10, "HLError": 1 << 11,
            "HLStatic": 1 << 12, "HLErased": 1 << 14,
        }.get(h, 0)
    return bits


FLAGGED_LEAVES = [
    irgen.node(("HInfer", 0, "General")), irgen.node(("HInfer", 1, "Integer")), irgen.node(("HPlaceholder", 1, 0)),
    irgen.node("HError"), irgen.node("HLStatic"), irgen.node("HLErased"), irgen.node("HLError"), irgen.node(("HLInfer", 0)),
    irgen.node(("HLPlaceholder", 0, 1)), ("Var", "SLt", 0, 0), ("Var", "STy", 0, 0),
    irgen.node(("HCInfer", 0), [irgen.USIZE]), irgen.node(("HCPlaceholder", 0, 0), [irgen.USIZE]),
    irgen.node(("HCConcrete", 3), [irgen.USIZE]), ("CVar", 0, 0, irgen.USIZE),
    irgen.node(("HCConcrete", 1), [irgen.node("HError")]), ("CVar", 0, 1, irgen.node(("HPlaceholder", 0, 0))),
    irgen.node(("HProjection", 1), [irgen.node("HStr")]), irgen.node(("HOpaqueAlias", 2), []),
]


def kind(t):
    if t[0] == "Var":
        return "T" if t[1] == "STy" else "L"
    if t[0] == "CVar":
        return "C"
    h = irgen.head_name(t)
    if h.startswith("HL"):
        return "L"
    if h.startswith("HC") and h not in ("HClosure", "HCoroutine", "HCoroutineWitness"):
        return "C"
    return "T"


def contexts(leaf):
    """Every type constructor with `leaf` in every position it can syntactically occupy."""
    k = kind(leaf)
    N = irgen.node
    u8 = N(("HScalar", ("Uint", "U8")))
    out = []
    garg_heads = [("HAdt", 1), ("HAssocTy", 1), ("HOpaqueTy", 1), ("HFnDef", 1), ("HClosure", 1), ("HCoroutine", 1),
                  ("HCoroutineWitness", 1), ("HProjection", 1), ("HOpaqueAlias", 1)]
    for h in garg_heads:
        out.append(N(h, [leaf]))
        out.append(N(h, [u8, leaf]))
    if k == "T":
        out += [N(("HTuple", 2), [u8, leaf]), N("HSlice", [leaf]), N(("HRaw", "Mut"), [leaf]), N(("HRef", "Not"), [N("HLErased"), leaf]),
                N("HArray", [leaf, N(("HCConcrete", 0), [irgen.USIZE])]),
                N("HArray", [u8, N(("HCConcrete", 0), [leaf])]), N("HArray", [u8, ("CVar", 0, 0, leaf)]),
                N(("HFnPtr", 0, "AbiRust", "Safe", False), [leaf, u8]), N(("HFnPtr", 1, "AbiC", "Unsafe", True), [u8, leaf])]
    if k == "L":
        out += [N(("HRef", "Mut"), [leaf, u8]), N(("HFnPtr", 1, "AbiRust", "Safe", False), [N(("HRef", "Not"), [leaf, u8]), u8])]
    if k == "C":
        out += [N("HArray", [u8, leaf])]
    # dyn: every where-clause kind, and the dyn lifetime
    tr = lambda args: N(("HTraitRef", 0), [("Var", "STy", 1, 0)] + args)
    qwc = lambda w: N(("HBinders", []), [w])
    dyn = lambda qs, lt: N("HDyn", [N(("HBinders", [("VTy", "General")]), [N("HList", qs)]), lt])
    stat = N("HLStatic")
    out.append(dyn([qwc(N("HImplemented", [tr([leaf])]))], N("HLErased")))
    if k == "T":
        out.append(dyn([qwc(N("HAliasEq", [N(("HProjection", 0), [("Var", "STy", 1, 0)]), leaf]))], N("HLErased")))
        out.append(dyn([qwc(N("HTyOutlives", [leaf, N("HLErased")]))], N("HLErased")))
    out.append(dyn([qwc(N("HAliasEq", [N(("HProjection", 0), [("Var", "STy", 1, 0), leaf]), u8]))], N("HLErased")))
    out.append(dyn([qwc(N("HAliasEq", [N(("HOpaqueAlias", 0), [leaf]), u8]))], N("HLErased")))
    if k == "L":
        out.append(dyn([qwc(N("HLtOutlives", [leaf, N("HLErased")]))], N("HLErased")))
        out.append(dyn([qwc(N("HLtOutlives", [N("HLErased"), leaf]))], N("HLErased")))
        out.append(dyn([qwc(N("HTyOutlives", [u8, leaf]))], N("HLErased")))
        out.append(dyn([qwc(N("HImplemented", [tr([])]))], leaf))
    # a dyn WITHOUT bounds (not expressible in surface syntax, but a valid TyKind): only its lifetime contributes
    if k == "L":
        out.append(dyn([], leaf))
        out.append(N(("HRef", "Not"), [N("HLErased"), dyn([], leaf)]))
    # two-bound dyns: the flagged leaf in the first bound, every kind of clause as the second one, and reversed
    # (an arm of the dyn loop that overwrites instead of OR-ing only shows with >= 2 bounds)
    first = qwc(N("HImplemented", [tr([leaf])]))
    others = [qwc(N("HImplemented", [tr([u8])])), qwc(N("HTyOutlives", [u8, N("HLErased")])), qwc(N("HLtOutlives", [N("HLErased"), N("HLErased")])),
              qwc(N("HAliasEq", [N(("HProjection", 0), [("Var", "STy", 1, 0)]), u8]))]
    for o in others:
        out.append(dyn([first, o], N("HLErased")))
        out.append(dyn([o, first], N("HLErased")))
    if k == "T":
        out.append(leaf)
    return out


def gen_cases(ctx):
    cases = []
    for leaf in FLAGGED_LEAVES:
        for c in contexts(leaf):
            cases.append(("sweep", c))
            # one more level of nesting
            cases.append(("sweep2", irgen.node(("HTuple", 2), [irgen.node("HStr"), irgen.node("HSlice", [c])])))
    n = ctx.n(2500, 60000)
    depth = ctx.n(4, 6)
    g = irgen.IrGen(ctx.rng, max_depth=depth, const_ty_flags=True)
    for _ in range(n):
        cases.append(("random", g.ty()))
    return cases


def check_cases(ctx, cases):
    core.build_harness(bins=["irbin"])
    outs = core.run_harness("irbin", [("Flags", t) for _, t in cases])
    pairs, idx = [], []
    for i, ((fam, t), o) in enumerate(zip(cases, outs)):
        key = sx.to_sexp(t)
        ctx.count(fam, key, nontrivial=(py_occurs(t) != 0 and irgen.tsize(t) > 1))
        if not o.isdigit():
            ctx.violation({"kind": "implementation-failure", "input": key, "output": o,
                           "what": "computing the flags of a well-formed type did not return (panic/abort)"})
            continue
        pairs.append((t, int(o) & MASK))
        idx.append(i)
    bad = core.coq_mismatches(ctx.work, "flags", ["Ir.Syntax", "Ir.Flags"], fn="flags_masked", eqb="N.eqb",
                              in_ty="tm", out_ty="N", pairs=pairs, shard=ctx.n(400, 1500))
    return [(idx[j], pairs[j]) for j in bad]


def shrink(ctx, t):
    """Smallest type (by repeated child replacement) on which implementation and spec differ."""
    def differs(x):
        if kind(x) != "T":
            return False
        o = core.run_harness("irbin", [("Flags", x)], shards=1)[0]
        return o.isdigit() and (int(o) & MASK) != py_occurs(x)
    cur = t
    progress = True
    while progress:
        progress = False
        for c in irgen.shrink_candidates(cur):
            if irgen.tsize(c) < irgen.tsize(cur) and differs(c):
                cur = c
                progress = True
                break
    return cur


def run(ctx):
    ok, why = ctx.proof_stage("Props.C26", ["flags_spec", "flags_masked_spec", "flags_shift_invariant"])
    cases = gen_cases(ctx)
    for fam, t in cases[:3] + cases[-3:]:
        ctx.sample({"family": fam, "type": sx.to_sexp(t)})
    ctx.cov["rule"] = ("sweep: every flagged leaf kind in every syntactic position of every type constructor (exhaustive at depth 1, "
                       "plus one nesting level); random: seeded well-sorted types of depth <= %d over all 23 TyKinds. "
                       "non-trivial = at least one occurrence flag expected and size > 1; distinct by printed term" % ctx.n(4, 6))
    bad = check_cases(ctx, cases)
    reported = 0
    for i, (t, impl_bits) in bad:
        spec_bits = py_occurs(t)
        if impl_bits != spec_bits:
            if reported < 3:
                small = shrink(ctx, t)
                o = core.run_harness("irbin", [("Flags", small)], shards=1)[0]
                ib = int(o) & MASK
                sb = py_occurs(small)
                ctx.violation({"kind": "property", "input": sx.to_sexp(small), "original_input": sx.to_sexp(t),
                               "implementation_flags": ib, "expected_flags": sb,
                               "differing_bits": [b for b in range(15) if (ib ^ sb) >> b & 1],
                               "what": "TyData.flags disagrees with the occurrences inside the type (flags_spec)"})
            reported += 1
        else:
            # implementation satisfies the property on this input but the model does not follow it
            if reported < 3:
                ctx.violation({"kind": "correspondence", "input": sx.to_sexp(t), "implementation_flags": impl_bits,
                               "broken": "correspondence Ir.Flags.flags_masked = TyData.flags (model no longer matches the code); theorem Props.C26.flags_spec is about the model"},
                              no_input=True)
            reported += 1
    ctx.cov["disagreements"] = len(bad)
    if not ok:
        ctx.violation({"kind": "proof", "broken": why}, no_input=True)


def replay(ctx, obj):
    t = sx.parse_sexp(obj["input"])
    core.build_harness(bins=["irbin"])
    o = core.run_harness("irbin", [("Flags", t)], shards=1)[0]
    print("implementation flags:", o, "expected (occurrences):", py_occurs(t))
    return 0 if o.isdigit() and (int(o) & MASK) == py_occurs(t) else 1
