"""Shared code of the inference-layer checks (C14, C15, C29): script generation for the `infer`
harness, transcription of real traces into the Coq types of coq/Infer/Script.v, and the
properties evaluated on the implementation's own output (no model involved)."""
from __future__ import annotations

from vlib import core, sx
from vlib.sx import Pair

IMPORTS = ["Ir.Syntax", "Ir.Fold", "Infer.Table", "Infer.Unify", "Infer.Script"]
CASE_TY = "case_t"
TRACE_TY = "list (sres * table)"

VARIANCES = ["Covariant", "Invariant", "Contravariant"]


def N(head, children=()):
    return ("Node", head, list(children))


def hname(t):
    if t[0] != "Node":
        return t[0]
    h = t[1]
    return h if isinstance(h, str) else h[0]


def hargs(t):
    h = t[1]
    return () if isinstance(h, str) else tuple(h[1:])


USIZE = N(("HScalar", ("Uint", "Usize")))
U32 = N(("HScalar", ("Uint", "U32")))
BOOL = N(("HScalar", "Bool"))
STATIC = N("HLStatic")

LT_HEADS = ("HLInfer", "HLPlaceholder", "HLStatic", "HLErased", "HLError")
CONST_HEADS = ("HCInfer", "HCPlaceholder", "HCConcrete")
VAR_HEADS = ("HInfer", "HLInfer", "HCInfer")


def kind(t):
    if t[0] == "Var":
        return "T" if t[1] == "STy" else "L"
    if t[0] == "CVar":
        return "C"
    h = hname(t)
    if h in LT_HEADS:
        return "L"
    if h in CONST_HEADS:
        return "C"
    return "T"


def children(t):
    if t[0] == "Node":
        return t[2]
    if t[0] == "CVar":
        return [t[3]]
    return []


def subterms(t):
    yield t
    for c in children(t):
        yield from subterms(c)


def tsize(t):
    return 1 + sum(tsize(c) for c in children(t))


def ty_var(v, k="General"):
    return N(("HInfer", v, k))


def lt_var(v):
    return N(("HLInfer", v))


def const_var(v):
    return N(("HCInfer", v), [USIZE])


def ph(u, i):
    return N(("HPlaceholder", u, i))


def lph(u, i):
    return N(("HLPlaceholder", u, i))


def outlives_goal(a, b):
    return N("HDomainGoal", [N("HHolds", [N("HLtOutlives", [a, b])])])


# ---------------------------------------------------------------------------------------------
# ADT signatures used by all generated cases: id -> parameter kinds.  Variances are chosen per case.
# ---------------------------------------------------------------------------------------------
ADT_PARAMS = {0: "", 1: "T", 2: "TT", 3: "LT", 4: "L", 5: "TC"}


def random_variances(r, ids=ADT_PARAMS):
    out = []
    for i, ps in ids.items():
        if ps and r.random() < 0.8:
            out.append((i, [r.choice(VARIANCES) for _ in ps]))
    return out


def variances_sx(tbl):
    return [Pair(i, list(vs)) for i, vs in tbl]


# ---------------------------------------------------------------------------------------------
# Scripts
# ---------------------------------------------------------------------------------------------
class Env:
    """The variables and universes a script creates up-front.  vars[i] = (sort, kind, universe)."""

    def __init__(self, nuniv, vars_):
        self.nuniv = nuniv            # universes 0..nuniv exist
        self.vars = vars_

    def of(self, sort, kind=None):
        return [i for i, (s, k, _) in enumerate(self.vars) if s == sort and (kind is None or k == kind)]

    def prelude(self):
        return ["SNewUniverse"] * self.nuniv + [("SNewVar", u) for (_, _, u) in self.vars]

    def var_term(self, i):
        s, k, _ = self.vars[i]
        if s == "T":
            return ty_var(i, k)
        if s == "L":
            return lt_var(i)
        return const_var(i)


def random_env(r, nuniv=None, nty=4, nint=1, nfloat=1, nlt=2, nconst=0):
    nuniv = r.randrange(3) if nuniv is None else nuniv
    vs = []
    for _ in range(nty):
        vs.append(("T", "General", r.randint(0, nuniv)))
    for _ in range(nint):
        vs.append(("T", "Integer", r.randint(0, nuniv)))
    for _ in range(nfloat):
        vs.append(("T", "FloatVar", r.randint(0, nuniv)))
    for _ in range(nlt):
        vs.append(("L", None, r.randint(0, nuniv)))
    for _ in range(nconst):
        vs.append(("C", None, r.randint(0, nuniv)))
    r.shuffle(vs)
    return Env(nuniv, vs)


INT_SCALARS = [("Int", "I32"), ("Uint", "U8"), ("Uint", "Usize"), ("Int", "Isize")]
FLOAT_SCALARS = [("Float", "F32"), ("Float", "F64")]


class TyGen:
    """Types of the C14 fragment (ADTs, tuples, slices, references, raw pointers, scalars, int/float
    unknowns, placeholders and unknowns in several universes) plus, on request, arrays/consts,
    aliases, fn pointers, error / str / never / foreign and the remaining rigid heads."""

    def __init__(self, r, env, depth=3, lifetimes=True, consts=False, aliases=False, fnptr=False, fn_binders=False,
                 extras=False, leaf_bias=0.3, var_bias=0.3):
        self.r, self.env, self.depth = r, env, depth
        self.lifetimes, self.consts, self.aliases, self.fnptr, self.fn_binders, self.extras = lifetimes, consts, aliases, fnptr, fn_binders, extras
        self.leaf_bias, self.var_bias = leaf_bias, var_bias

    def lifetime(self, binders=0):
        r = self.r
        opts = ["static", "ph", "ph"]
        if self.env.of("L"):
            opts += ["var", "var"]
        if self.extras:
            opts += ["erased", "error"]
        if binders:
            opts += ["bound", "bound"]
        k = r.choice(opts)
        if k == "static":
            return STATIC
        if k == "ph":
            return lph(r.randint(0, self.env.nuniv), r.randrange(2))
        if k == "var":
            return lt_var(r.choice(self.env.of("L")))
        if k == "erased":
            return N("HLErased")
        if k == "bound":
            return ("Var", "SLt", 0, r.randrange(binders))
        return N("HLError")

    def const(self):
        r = self.r
        opts = ["conc", "conc", "ph"]
        if self.env.of("C"):
            opts += ["var", "var"]
        k = r.choice(opts)
        if k == "conc":
            return N(("HCConcrete", r.randrange(3)), [USIZE])
        if k == "ph":
            return N(("HCPlaceholder", r.randint(0, self.env.nuniv), r.randrange(2)), [USIZE])
        return const_var(r.choice(self.env.of("C")))

    def leaf(self):
        r = self.r
        opts = ["scalar", "scalar", "int", "float", "ph", "ph", "adt0"]
        if self.extras:
            opts += ["str", "never", "foreign", "error"]
        k = r.choice(opts)
        if r.random() < self.var_bias:
            k = "var"
        if k == "var":
            v = r.choice(self.env.of("T"))
            return self.env.var_term(v)
        if k == "scalar":
            return r.choice([BOOL, N(("HScalar", "Char"))])
        if k == "int":
            return N(("HScalar", r.choice(INT_SCALARS)))
        if k == "float":
            return N(("HScalar", r.choice(FLOAT_SCALARS)))
        if k == "ph":
            return ph(r.randint(0, self.env.nuniv), r.randrange(2))
        if k == "adt0":
            return N(("HAdt", 0))
        if k == "str":
            return N("HStr")
        if k == "never":
            return N("HNever")
        if k == "foreign":
            return N(("HForeign", r.randrange(2)))
        return N("HError")

    def garg(self, pk, d, binders=0):
        if pk == "T":
            return self.ty(d, binders)
        if pk == "L":
            return self.lifetime(binders) if self.lifetimes else STATIC
        return self.const() if self.consts else N(("HCConcrete", 0), [USIZE])

    def ty(self, d=None, binders=0):
        r = self.r
        d = self.depth if d is None else d
        if d <= 0 or r.random() < self.leaf_bias:
            return self.leaf()
        opts = ["adt", "adt", "adt", "tuple", "slice", "ref", "ref", "raw"]
        if self.consts:
            opts += ["array", "adt5"]
        if self.aliases:
            opts += ["alias"]
        if self.fnptr:
            opts += ["fn", "fn"]
        if self.extras:
            opts += ["assoc", "opaque", "fndef", "closure"]
        k = r.choice(opts)
        if k == "adt":
            i = r.choice([1, 2, 3, 4] if self.lifetimes else [1, 2])
            return N(("HAdt", i), [self.garg(pk, d - 1, binders) for pk in ADT_PARAMS[i]])
        if k == "adt5":
            return N(("HAdt", 5), [self.garg(pk, d - 1, binders) for pk in ADT_PARAMS[5]])
        if k == "tuple":
            n = r.randint(0, 3)
            return N(("HTuple", n), [self.ty(d - 1, binders) for _ in range(n)])
        if k == "slice":
            return N("HSlice", [self.ty(d - 1, binders)])
        if k == "ref":
            return N(("HRef", r.choice(["Mut", "Not"])), [self.lifetime(binders) if self.lifetimes else STATIC, self.ty(d - 1, binders)])
        if k == "raw":
            return N(("HRaw", r.choice(["Mut", "Not"])), [self.ty(d - 1, binders)])
        if k == "array":
            return N("HArray", [self.ty(d - 1, binders), self.const()])
        if k == "alias":
            h = r.choice(["HProjection", "HOpaqueAlias"])
            return N((h, r.randrange(2)), [self.ty(d - 1, binders) for _ in range(r.randint(1, 2))])
        if k == "fn":
            nb = r.randint(0, 2) if self.fn_binders else 0
            args = [self.ty(d - 1, nb) for _ in range(r.randint(1, 3))]
            return N(("HFnPtr", nb, "AbiRust", r.choice(["Safe", "Safe", "Unsafe"]), False), args)
        h = {"assoc": "HAssocTy", "opaque": "HOpaqueTy", "fndef": "HFnDef", "closure": "HClosure"}[k]
        return N((h, r.randrange(2)), [self.ty(d - 1, binders) for _ in range(r.randint(0, 2))])

    # -- a second term derived from the first: variables <-> subterms swapped in and out, small edits
    def derive(self, t, p=0.25, binders=0):
        r = self.r
        k = kind(t)
        if t[0] != "Node":
            return t
        x = r.random()
        if x < p:
            if k == "T":
                h = hname(t)
                if h == "HScalar" and isinstance(t[1][1], tuple) and t[1][1][0] in ("Int", "Uint") and self.env.of("T", "Integer") and r.random() < 0.6:
                    return self.env.var_term(r.choice(self.env.of("T", "Integer")))
                if h == "HScalar" and isinstance(t[1][1], tuple) and t[1][1][0] == "Float" and self.env.of("T", "FloatVar") and r.random() < 0.6:
                    return self.env.var_term(r.choice(self.env.of("T", "FloatVar")))
                if self.env.of("T", "General"):
                    return self.env.var_term(r.choice(self.env.of("T", "General")))
            elif k == "L" and self.env.of("L"):
                return lt_var(r.choice(self.env.of("L")))
            elif k == "C" and self.env.of("C"):
                return const_var(r.choice(self.env.of("C")))
        elif x < p + 0.08:
            return self.garg(k, 1, binders)
        h = t[1]
        nb = binders
        if hname(t) == "HFnPtr":
            nb = h[1]
        if k == "C":
            return t                      # const types stay usize
        return ("Node", h, [self.derive(c, p, nb) for c in t[2]])

    def pair(self):
        r = self.r
        x = r.random()
        if x < 0.75:
            s = self.ty()
            return self.derive(s), self.derive(s)
        if x < 0.9:
            s = self.ty()
            return s, self.derive(s, 0.4)
        return self.ty(), self.ty()


# ---------------------------------------------------------------------------------------------
# Running scripts on the real table and reading the traces
# ---------------------------------------------------------------------------------------------
def to_harness_step(s):
    if s == "SNewUniverse":
        return "NewUniverse"
    return (s[0][1:],) + tuple(s[1:])


def harness_case(adt, fnv, steps):
    return ("Case", variances_sx(adt), variances_sx(fnv), [to_harness_step(s) for s in steps])


def coq_case(adt, fnv, steps):
    return Pair(Pair(variances_sx(adt), variances_sx(fnv)), list(steps))


class CyclicTable(Exception):
    """A variable occurs in its own (deep) value."""


class State:
    def __init__(self, sxv):
        # (State vars_len unify_len max_universe max_by_clone [(V root uopt popt) ...])
        self.vars_len, self.n, self.maxu, self.maxu_clone = sxv[1], sxv[2], sxv[3], sxv[4]
        self.root, self.univ, self.probe = [], [], []
        for v in sxv[5]:
            self.root.append(v[1])
            self.univ.append(None if v[2] == "None" else v[2][1])
            self.probe.append(None if v[3] == "None" else v[3][1])
        mins = {}
        for i, rt in enumerate(self.root):
            mins.setdefault(rt, i)
        self.cls = [mins[rt] for rt in self.root]

    def observable(self):
        """What C15 compares before/after a failed relate (no root identities)."""
        return (self.vars_len, self.n, self.maxu, self.maxu_clone, tuple(self.cls), tuple(self.univ),
                tuple(sx.to_sexp(p) if p is not None else None for p in self.probe))

    def to_coq(self):
        cells = []
        for i in range(self.n):
            val = ("Unbound", self.univ[i]) if self.probe[i] is None else ("Bound", self.probe[i])
            cells.append(("mkcell", self.cls[i], val))
        return ("mktable", cells, list(range(self.vars_len)), self.maxu)

    # deep normalisation: bound variables replaced by values, unbound ones by their class representative
    def deep(self, t, depth=0):
        if depth > 400:
            raise CyclicTable()
        if t[0] == "Node":
            h = hname(t)
            if h in VAR_HEADS:
                v = t[1][1]
                if v < self.n and self.probe[v] is not None:
                    return self.deep(self.probe[v], depth + 1)
                c = self.cls[v] if v < self.n else v
                nh = (h, c) + tuple(t[1][2:])
                return ("Node", nh, [self.deep(x, depth + 1) for x in t[2]])
            return ("Node", t[1], [self.deep(x, depth + 1) for x in t[2]])
        if t[0] == "CVar":
            return ("CVar", t[1], t[2], self.deep(t[3], depth + 1))
        return t


class StepRes:
    def __init__(self, sxv):
        self.raw = sxv
        r = sxv[1]
        self.kind = r if isinstance(r, str) else r[0]      # Unit | Ok | Err | Panic | Both
        self.goals = list(r[1]) if self.kind == "Ok" else []
        self.both = (r[1], r[2]) if self.kind == "Both" else None
        self.msg = str(r[1]) if self.kind == "Panic" else None
        self.state = State(sxv[2]) if sxv[2] != "NoState" else None


def parse_trace(line):
    """-> list of StepRes (cut after a panic), or None if the harness could not run the case."""
    v = sx.parse_sexp(line) if isinstance(line, str) else line
    if not (isinstance(v, tuple) and v[0] == "Trace"):
        return None
    out = []
    for s in v[1]:
        if s == "Skipped":
            break
        out.append(StepRes(s))
    return out


def trace_to_coq(trace):
    """One observation per relate / both step, as coq/Infer/Script.v's [run] produces them."""
    out = []
    for s in trace:
        if s.kind == "Unit":
            continue
        if s.kind == "Both":
            flag = {"Ok": ("ROk", []), "Err": "RErr", "Panic": "RPanic"}
            out.append(Pair(("RBoth", flag[s.both[0]], flag[s.both[1]]), "empty_table"))
        elif s.kind == "Panic":
            out.append(Pair("RPanic", "empty_table"))
        else:
            out.append(Pair(("ROk", s.goals) if s.kind == "Ok" else "RErr", s.state.to_coq()))
    return out


def run_scripts(cases, timeout=600):
    """cases: list of (adt, fnv, steps) -> (traces, raw outputs).  A trace is a list of StepRes, or None if the
    harness could not run the case at all.  If the process died or hung inside a case (raw output `(Abort ..)` /
    `Timeout`), the longest prefix of the script that still runs is used as its trace (and the raw output keeps
    the abort), so that the caller can report the step that never returned."""
    outs = core.run_harness("infer", [harness_case(*c) for c in cases], args=["script"], timeout=timeout)
    traces = [parse_trace(o) if o and o.startswith("(Trace") else None for o in outs]
    for i, (c, o) in enumerate(zip(cases, outs)):
        if traces[i] is None and o and (o.startswith("(Abort") or o.startswith("Timeout")):
            adt, fnv, steps = c
            prefixes = [(adt, fnv, steps[:k]) for k in range(len(steps) - 1, 0, -1)]
            pouts = core.run_harness("infer", [harness_case(*p) for p in prefixes], args=["script"], timeout=max(60, timeout // 5))
            for po in pouts:
                if po and po.startswith("(Trace"):
                    traces[i] = parse_trace(po)
                    break
    return traces, outs


def died(raw):
    return bool(raw) and (raw.startswith("(Abort") or raw.startswith("Timeout"))


def model_mismatches(ctx, tag, cases, traces, shard=250):
    """Indices of the cases whose real trace differs from the model's (compared inside Coq)."""
    # one coqc per core: start-up (loading the libraries) is not free
    shard = max(60, min(400, (len(cases) + core.NCPU - 1) // core.NCPU))
    pairs = []
    for c, tr in zip(cases, traces):
        steps = c[2][:len(tr)]
        pairs.append((coq_case(c[0], c[1], steps), trace_to_coq(tr)))
    return core.coq_mismatches(ctx.work, tag, IMPORTS, fn="run_case", eqb="trace_match", in_ty=CASE_TY, out_ty=TRACE_TY,
                               pairs=pairs, shard=shard)


def model_diff(ctx, tag, case, trace):
    """Diagnostics for one mismatching case: index of the first differing step and the model's observation there."""
    steps = case[2][:len(trace)]
    cc = sx.to_coq(coq_case(case[0], case[1], steps))
    ti = sx.to_coq(trace_to_coq(trace))
    r = core.coq_eval(ctx.work, tag, IMPORTS, [
        "let m := run_case (%s) in first_diff (fst m) 0%%N (snd m) (%s)" % (cc, ti),
        "List.map (fun x => fst x) (snd (run_case (%s)))" % cc,
    ])
    return r


# ---------------------------------------------------------------------------------------------
# Properties evaluated on the implementation's own output
# ---------------------------------------------------------------------------------------------
def norm_goals(st, goals):
    return [st.deep(g) for g in goals]


def goal_facts(goals):
    """(outlives pairs, alias-eq goals, subtype pairs) of normalised goals; pairs as sexp strings, alias-eq goals
    as (alias sexp, type term)."""
    out, al, sub = set(), [], set()
    for g in goals:
        if hname(g) == "HDomainGoal" and hname(g[2][0]) == "HHolds":
            w = g[2][0][2][0]
            if hname(w) == "HLtOutlives":
                out.add((sx.to_sexp(w[2][0]), sx.to_sexp(w[2][1])))
            elif hname(w) == "HAliasEq":
                al.append((sx.to_sexp(w[2][0]), w[2][1]))
        elif hname(g) == "HSubtypeGoal":
            sub.add((sx.to_sexp(g[2][0]), sx.to_sexp(g[2][1])))
    return out, al, sub


def reaches(pairs, x, y):
    """y is reachable from x through the outlives pairs (x: .. : y)."""
    seen, todo = {x}, [x]
    while todo:
        n = todo.pop()
        for (p, q) in pairs:
            if p == n and q not in seen:
                seen.add(q)
                todo.append(q)
    return y in seen


def eq_mod(a, b, facts, variance="Invariant", depth=0):
    """a, b deep-normalised.  Equal up to: lifetime pairs related by returned outlives goals (both
    directions if invariant, one otherwise), alias positions covered by an AliasEq goal whose type is in turn
    equal to the other side, unknown pairs covered by a subtype goal, error types/lifetimes (which chalk unifies
    with anything).  Returns None if equal, else a description of the first difference."""
    outl, al, sub = facts
    ka, kb = kind(a), kind(b)
    if ka != kb:
        return "kinds differ: %s / %s" % (sx.to_sexp(a)[:80], sx.to_sexp(b)[:80])
    sa, sb = sx.to_sexp(a), sx.to_sexp(b)
    if sa == sb:
        return None
    ha, hb = hname(a), hname(b)
    if ka == "L":
        if "HLError" in (ha, hb):
            return None
        f, g = reaches(outl, sa, sb), reaches(outl, sb, sa)
        if (f and g) if variance == "Invariant" else (f or g):
            return None
        return "lifetimes %s / %s not related by the returned goals" % (sa, sb)
    if ka == "T":
        if ha in ("HProjection", "HOpaqueAlias") or hb in ("HProjection", "HOpaqueAlias"):
            if depth < 4:
                for (x, y) in al:
                    for (mine, other) in ((sa, b), (sb, a)):
                        if x == mine and eq_mod(y, other, facts, variance, depth + 1) is None:
                            return None
            return "alias position %s / %s without AliasEq goal" % (sa[:80], sb[:80])
        if "HError" in (ha, hb):
            return None
        if (sa, sb) in sub or (sb, sa) in sub:
            return None
    if a[0] != "Node" or b[0] != "Node":
        return "differ: %s / %s" % (sa[:80], sb[:80])
    if ha in VAR_HEADS or hb in VAR_HEADS:
        if ha == hb and a[1][1] == b[1][1]:
            # same variable class, e.g. kinds of the two occurrences differ (general var bound to an int var)
            return None if ka != "C" else eq_mod(a[2][0], b[2][0], facts, variance, depth)
        return "unknown %s / %s not unified" % (sa[:80], sb[:80])
    if a[1] != b[1]:
        return "heads differ: %s / %s" % (sa[:80], sb[:80])
    if ha == "HFnPtr":
        return None          # instantiated binders: compared through the model only
    if len(a[2]) != len(b[2]):
        return None if ha in ("HAdt", "HFnDef", "HAssocTy", "HOpaqueTy", "HClosure", "HTuple") else "arity differs"
    for i, (x, y) in enumerate(zip(a[2], b[2])):
        v = "Invariant" if variance == "Invariant" else "Any"
        d = eq_mod(x, y, facts, v, depth)
        if d:
            return d
    return None


def placeholders_and_vars(t):
    phs, vs = [], []
    for s in subterms(t):
        if s[0] == "Node":
            h = hname(s)
            if h in ("HPlaceholder", "HLPlaceholder", "HCPlaceholder"):
                phs.append((h, s[1][1], s[1][2]))
            elif h in VAR_HEADS and not (h == "HInfer" and s[1][2] != "General"):
                # an integer / float unknown can only ever become a scalar: its universe is immaterial
                vs.append((h, s[1][1]))
    return phs, vs


def extends_ok(pre, post):
    """`post` extends `pre`: bound variables keep their value, classes only merge, universes only drop, and a
    variable bound by the step respects the universe it had: its value mentions no *type/const* placeholder of a
    higher universe and no unknown left in a higher universe.  (Lifetime placeholders the variable cannot see are
    replaced by fresh variables by chalk; a remaining one is reported too.)  Returns None or a description."""
    if post.n < pre.n or post.vars_len < pre.vars_len or post.maxu < pre.maxu:
        return "table shrank"
    for v in range(pre.n):
        if pre.probe[v] is not None:
            if post.probe[v] is None or sx.to_sexp(post.probe[v]) != sx.to_sexp(pre.probe[v]):
                return "bound variable ?%d changed its value" % v
            continue
        u = pre.univ[v]
        if post.probe[v] is None:
            if post.univ[v] > u:
                return "universe of ?%d grew from %d to %d" % (v, u, post.univ[v])
        else:
            val = post.deep(post.probe[v])
            phs, vs = placeholders_and_vars(val)
            for (h, pu, pi) in phs:
                if pu > u:
                    return "?%d (universe %d) bound to a value naming placeholder !%d_%d (%s)" % (v, u, pu, pi, h)
            for (h, w) in vs:
                if w < post.n and post.univ[w] is not None and post.univ[w] > u:
                    return "?%d (universe %d) bound to a value containing ?%d left in universe %d" % (v, u, w, post.univ[w])
    for v in range(pre.n):
        for w in range(v):
            if pre.cls[v] == pre.cls[w] and post.cls[v] != post.cls[w]:
                return "class of ?%d and ?%d split" % (v, w)
    return None


def kinds_ok(post, terms):
    """An integer (float) unknown may only stand for an integer (float) scalar or another unknown."""
    for t in terms:
        for s in subterms(t):
            if s[0] == "Node" and hname(s) == "HInfer" and s[1][2] != "General":
                val = post.deep(s)
                h = hname(val)
                if h == "HInfer" or h == "HError":
                    continue
                want = ("Int", "Uint") if s[1][2] == "Integer" else ("Float",)
                if not (h == "HScalar" and isinstance(val[1][1], tuple) and val[1][1][0] in want):
                    return "%s unknown ?%d stands for %s" % (s[1][2], s[1][1], sx.to_sexp(val)[:120])
    return None


def check_relate_ok(pre, post, variance, a, b, goals):
    """Soundness of one successful real relate, on the implementation's output alone."""
    try:
        return _check_relate_ok(pre, post, variance, a, b, goals)
    except CyclicTable:
        return "cyclic binding: after the relate an unknown occurs in its own value"


def _check_relate_ok(pre, post, variance, a, b, goals):
    d = extends_ok(pre, post)
    if d:
        return "extends: " + d
    d = kinds_ok(post, [a, b])
    if d:
        return "kinds: " + d
    facts = goal_facts(norm_goals(post, goals))
    d = eq_mod(post.deep(a), post.deep(b), facts, variance)
    if d:
        return "not equal under the new bindings: " + d
    return None


# ---------------------------------------------------------------------------------------------
# Reference unifier (python, first-order, on the alias-free fragment) used only to produce a candidate
# unifier that is then *replayed on the real table* as evidence
# ---------------------------------------------------------------------------------------------
class NoUnifier(Exception):
    pass


def py_unify(st, env_kinds, a, b):
    """Most general syntactic unifier of a and b under the bindings of `st`, ignoring lifetimes (they yield goals,
    not failures); returns {var: term} for newly bound *type/const* variables or raises NoUnifier.  Universe
    admissibility is checked by the caller through the real table."""
    sub = {}

    def walk(t):
        while t[0] == "Node" and hname(t) in ("HInfer", "HCInfer"):
            v = t[1][1]
            if v < st.n and st.probe[v] is not None:
                t = st.probe[v]
            elif st.cls[v] in sub if v < st.n else False:
                t = sub[st.cls[v]]
            else:
                break
        return t

    def occurs(c, t):
        t = walk(t)
        if t[0] == "Node" and hname(t) in ("HInfer", "HCInfer"):
            return st.cls[t[1][1]] == c
        return any(occurs(c, x) for x in children(t))

    def kind_ok(k, t):
        if k == "General":
            return True
        h = hname(t)
        if h == "HInfer":
            return t[1][2] in (k, "General")
        if h != "HScalar" or not isinstance(t[1][1], tuple):
            return False
        return t[1][1][0] in (("Int", "Uint") if k == "Integer" else ("Float",))

    def go(x, y):
        if kind(x) != kind(y):
            raise NoUnifier()
        if kind(x) == "L":
            return
        x, y = walk(x), walk(y)
        hx, hy = hname(x), hname(y)
        if "HError" in (hx, hy):
            return
        if hx in ("HProjection", "HOpaqueAlias") or hy in ("HProjection", "HOpaqueAlias"):
            raise NoUnifier()          # outside the reference fragment
        vx, vy = hx in ("HInfer", "HCInfer"), hy in ("HInfer", "HCInfer")
        if vx and vy:
            cx, cy = st.cls[x[1][1]], st.cls[y[1][1]]
            if cx == cy:
                return
            kx = x[1][2] if hx == "HInfer" else "General"
            ky = y[1][2] if hy == "HInfer" else "General"
            if kx != "General" and ky != "General" and kx != ky:
                raise NoUnifier()
            if kx == "General":
                sub[cx] = y
            else:
                sub[cy] = x
            return
        if vx or vy:
            (v, t) = (x, y) if vx else (y, x)
            c = st.cls[v[1][1]]
            if occurs(c, t):
                raise NoUnifier()
            if hname(v) == "HInfer" and not kind_ok(v[1][2], t):
                raise NoUnifier()
            sub[c] = t
            return
        if x[0] != "Node" or y[0] != "Node" or x[1] != y[1]:
            raise NoUnifier()
        if hx in ("HFnPtr", "HDyn"):
            raise NoUnifier()
        if kind(x) == "C":
            return
        for p, q in zip(x[2], y[2]):
            go(p, q)

    go(a, b)
    return sub
