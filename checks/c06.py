"""C06 — hypotheses and implied bounds yield exactly their consequences; assumptions never leak."""
import collections
import hashlib
import time

from vlib import core, logic, sx
from vlib import envgen as eg
from vlib import proggen as pg

META = {
    "id": "C06", "level": "proof",
    "technique": "Coq model of program_clauses_for_env (worklist over datums) with its least-closed-set specification "
                 "(elab_is_least_closed, elab_terminates, elab_order_irrelevant) and the theorem sat_if_exact: "
                 "`if (H) G` holds in the program WITH all implied-bound rules iff G follows from the program plus the "
                 "elaborated hypotheses, decided by the verified evaluator (eval_correct); correspondence: both real "
                 "solvers on generated supertrait chains/diamonds/cycles, parameter bounds and struct where-clauses "
                 "vs that oracle, and History-mode interleaving with the hypothesis-free goal vs fresh-solver answers",
    "level_text": "Machine-checked (Coq 8.16, axiom-free): the elaboration worklist computes exactly the least set closed "
                  "under the implied-bound rules, within #datums+2 rounds, independent of iteration order; a goal under "
                  "FromEnv hypotheses is true in the declarative semantics of the full clause set exactly when the "
                  "verified evaluator proves it from the core program plus the closure of the hypotheses; hypotheses are "
                  "scoped to their `if`. Every run compares the real solvers with that oracle on fresh seeded programs "
                  "and checks on one long-lived solver that answers with and without hypotheses equal fresh answers.",
    "level_note": "The theorems are unbounded; the tie to /repo is by testing on a finite seeded case stream (closed goals: "
                  "a definite solver answer must equal the oracle verdict). FromEnv-headed hypotheses must be ground facts "
                  "over the forall placeholders (conditional hypotheses and nested ifs are allowed when not FromEnv-headed); "
                  "quantified FromEnv hypotheses, associated-type bounds and lifetimes are outside the model. The lowering "
                  "of declarations to clauses (Rules/EnvElab.v `lower`) is hand-written after program_clauses.rs and tied "
                  "only through the solver answers.",
    "design_ref": "DESIGN.md §4 C06",
    "assumptions": [
        "chalk reads Implemented / FromEnv / WellFormed as the predicates of Rules/EnvElab.v (symbols +0/+1000/+2000, 4000, 4001)",
        "closed goals only: Unique <=> true; NoSolution <=> false; an Ambiguous answer to a false goal is not counted as 'proved'",
    ],
    "bins": ["solve"],
    "quick_s": 60, "thorough_s": 600,
}

FUEL = 400
IMPORTS = ("Rules.EnvElab",)


class Case:
    def __init__(self, pidx, prog, goal, kind, conj=None):
        self.pidx, self.prog, self.goal, self.kind = pidx, prog, goal, kind
        self.conj = conj          # (vs, hs, g1, g2) for `forall<vs> { if (hs) { g1 }, g2 }` (either conjunct order)
        self.text = eg.goal_text(goal)
        self.ans = {}          # solver -> answer sx (Fresh)
        self.hist = {}         # solver -> [answers in History mode at each occurrence]
        self.oracle = None

    def key(self):
        return hashlib.sha1((eg.to_text(self.prog) + "##" + self.text).encode()).hexdigest()[:16]


def parts(c):
    """(vs, hs, goal used for the class predicates)"""
    if c.conj:
        vs, hs, g1, g2 = c.conj
        return vs, hs, ("and", (g1, g2))
    return eg.split_if_goal(c.goal)


def oracle_expr(c, dname):
    st = c.prog.symtab()
    if c.conj:
        vs, hs, g1, g2 = c.conj
        scope = tuple(vs)
        return ([dname], logic.ob("eval_if_and_decls %d %s %s %s %s %s" % (
            FUEL, dname, sx.to_coq(eg.rho_model(vs)), sx.to_coq(eg.hyps_model(hs, st, scope)),
            sx.to_coq(eg.goal_model(g1, st, scope)), sx.to_coq(eg.goal_model(g2, st, scope)))))
    vs, hs, body = eg.split_if_goal(c.goal)
    rho = eg.rho_model(vs)
    scope = tuple(vs)
    return ([dname], logic.ob("eval_if_decls %d %s %s %s %s" % (
        FUEL, dname, sx.to_coq(rho), sx.to_coq(eg.hyps_model(hs, st, scope)), sx.to_coq(eg.goal_model(body, st, scope)))))


def gen_cases(rng, nprog, nif, nconj=3):
    progs, cases = [], []
    for p, goals in eg.corpus_c06():
        pidx = len(progs)
        progs.append(p)
        for g in goals:
            if g[0] == "conj":
                _, vs, hs, g1, g2 = g
                for order in (0, 1):
                    body = ("and", ((("if", hs, g1), g2) if order == 0 else (g2, ("if", hs, g1))))
                    cases.append(Case(pidx, p, ("forall", vs, body) if vs else body, "conj", conj=(vs, hs, g1, g2)))
                continue
            cases.append(Case(pidx, p, g, "corpus"))
            n = eg.without_hyps(g)
            if eg.goal_text(n) not in [c.text for c in cases if c.pidx == pidx]:
                cases.append(Case(pidx, p, n, "nohyp"))
    # deep chains (9..14 where-clause steps): always one supertrait chain and one parameter-bound chain per run
    for param in (False, True):
        p = eg.shape_deep(rng, param=param)
        pidx = len(progs)
        progs.append(p)
        for g in p.deep_goals:
            cases.append(Case(pidx, p, g, "deep"))
    for _ in range(nprog):
        p = eg.gen_program(rng)
        if rng.random() < 0.3:
            p = eg.permute(p, rng)
        pidx = len(progs)
        progs.append(p)
        gg = eg.IfGoalGen(rng, p)
        seen = set()
        for g, kind in [(gg.if_goal(), "if") for _ in range(nif)] + [(g, "sweep") for g in gg.sweep()] + [(g, "sweep2") for g in gg.sweep2()]:
            t = eg.goal_text(g)
            if t in seen:
                continue
            seen.add(t)
            cases.append(Case(pidx, p, g, kind))
            n = eg.without_hyps(g)
            tn = eg.goal_text(n)
            if tn not in seen:
                seen.add(tn)
                cases.append(Case(pidx, p, n, "nohyp"))
        for vs, hs, g1, g2 in gg.conj_goals(nconj):
            for order in (0, 1):
                body = ("and", ((("if", hs, g1), g2) if order == 0 else (g2, ("if", hs, g1))))
                g = ("forall", vs, body) if vs else body
                t = eg.goal_text(g)
                if t not in seen:
                    seen.add(t)
                    cases.append(Case(pidx, p, g, "conj", conj=(vs, hs, g1, g2)))
    return progs, cases


CORPUS = [
    # hand-made: supertrait of supertrait, diamond, parameter bound, struct bound (tests/test/implied_bounds.rs style)
    ("trait A { } trait B where Self: A { } trait C where Self: B { } struct S { } struct Q<T> where T: C { }",
     ["forall<X1> { if (X1: C) { X1: A } }", "forall<X1> { if (X1: A) { X1: C } }", "forall<X1> { if (FromEnv(Q<X1>)) { X1: A } }",
      "forall<X1> { X1: A }", "forall<X1> { if (X1: C) { WellFormed(Q<X1>) } }", "forall<X1> { if (X1: B) { WellFormed(Q<X1>) } }"],
     [True, False, True, False, True, False]),
]


def run(ctx):
    ok, why = ctx.proof_stage("Props.C06", ["elab_is_least_closed", "elab_terminates", "elab_order_irrelevant",
                                            "sat_if_exact", "env_scoped", "if_scoped"])
    if not ok:
        ctx.violation({"kind": "proof", "broken": why}, no_input=True)
        return
    core.build_harness(bins=["solve"])
    rng = ctx.rng
    progs, cases = gen_cases(rng, ctx.n(10, 500), ctx.n(5, 9), ctx.n(3, 5))
    by_prog = collections.OrderedDict()
    for c in cases:
        by_prog.setdefault(c.pidx, []).append(c)

    # ---- real solvers: Fresh, and one long-lived solver per program (History) -------------
    hcases, meta = [], []
    for pidx, cs in by_prog.items():
        text = eg.to_text(progs[pidx])
        order = list(range(len(cs)))
        # history: every goal once in a shuffled order, then all `if` goals again followed by
        # their hypothesis-free twins (leak detection), then the twins again
        hist = list(order)
        rng.shuffle(hist)
        again = [i for i in order if cs[i].kind != "nohyp"]
        rng.shuffle(again)
        twins = {c.text: i for i, c in enumerate(cs)}
        for i in again:
            hist.append(i)
            t = eg.goal_text(eg.without_hyps(cs[i].goal))
            if t in twins:
                hist.append(twins[t])
        for sname, sv in (("slg", pg.SLG), ("rec", pg.REC)):
            hcases.append(pg.case(text, [c.text for c in cs], sv, "Fresh", [("Cpu", ctx.n(4, 6))]))
            meta.append((pidx, sname, "fresh", order))
            hcases.append(pg.case(text, [cs[i].text for i in hist], sv, "History", [("Cpu", ctx.n(20, 40))]))
            meta.append((pidx, sname, "hist", hist))
    t0 = time.time()
    res = logic.solve_cases(hcases, timeout=ctx.n(600, 3000))
    core.log("C06: %d harness cases in %.1fs" % (len(hcases), time.time() - t0))
    for (pidx, sname, mode, idxs), r in zip(meta, res):
        cs = by_prog[pidx]
        if not r["ok"]:
            ctx.violation({"kind": "infrastructure", "broken": "a generated program failed to lower", "program": eg.to_text(progs[pidx]),
                           "detail": (r["error"] or "")[:1500]}, no_input=True)
            return
        for i, g in zip(idxs, r["goals"]):
            a = ("GoalError", sx.Str(g[1])) if g[0] == "error" else g[1]
            if mode == "fresh":
                cs[i].ans[sname] = a
            else:
                cs[i].hist.setdefault(sname, []).append(a)

    # ---- the oracle ---------------------------------------------------------------------------
    defs, exprs = {}, []
    for pidx, p in enumerate(progs):
        defs["D%d" % pidx] = ("decls", eg.to_decls(p))
    for c in cases:
        exprs.append(oracle_expr(c, "D%d" % c.pidx))
    okexprs = [(["D%d" % i], logic.bb("rsys_ok (lower D%d)" % i)) for i in range(len(progs))]
    codes = eg.coq_codes_retry(ctx, "oracle", defs, exprs + okexprs, IMPORTS, ["Props/C06.vo"], shard=max(20, (len(exprs) + len(okexprs)) // 16 + 1))
    okc = codes[len(exprs):]
    if any(x != 1 for x in okc):
        i = [k for k, x in enumerate(okc) if x != 1][0]
        ctx.violation({"kind": "model", "broken": "rsys_ok (lower D) = false for a generated program: the lowering model does not fit the rule-system format",
                       "program": eg.to_text(progs[i])}, no_input=True)
        return
    for c, code in zip(cases, codes):
        c.oracle = {0: False, 1: True, 2: None}[code]

    # ---- comparison ---------------------------------------------------------------------------
    stats = collections.Counter()
    shapes = collections.Counter(p.shape for p in progs)
    suspects = []
    for c in cases:
        for sname in ("slg", "rec"):
            a = c.ans.get(sname)
            k = logic.answer_kind(a)
            if k == "GoalError":
                raise core.CheckFailure("generated goal does not lower: %s / %s" % (c.text, a))
            if c.oracle is None:
                stats["oracle-inconclusive"] += 1
                continue
            if logic.is_death(a) or k == "Panic":
                stats["solver-died:" + k] += 1
                continue
            proved = (k == "Unique")
            verdict = "agree"
            if proved and not c.oracle:
                verdict = "unsound"
            elif c.oracle and not proved:
                verdict = "incomplete"
            elif not c.oracle and k != "NoSolution":
                stats["ambiguous-on-false"] += 1
            stats["%s:%s" % (sname, verdict)] += 1
            ctx.count("%s:%s" % (c.kind, c.prog.shape), (c.key(), sname), nontrivial=(c.kind != "nohyp"))
            if verdict == "agree":
                if c.oracle and c.kind != "nohyp":
                    ctx.sample({"program": eg.to_text(c.prog)[:400], "goal": c.text, "solver": sname, "answer": sx.to_sexp(a), "oracle": c.oracle})
                continue
            suspects.append((c, sname, a, verdict))
    # history = fresh
    hsus = []
    for c in cases:
        for sname in ("slg", "rec"):
            fa = c.ans.get(sname)
            for occ, ha in enumerate(c.hist.get(sname, [])):
                if logic.is_death(ha) or logic.is_death(fa) or logic.answer_kind(ha) == "Panic" or logic.answer_kind(fa) == "Panic":
                    stats["history-not-comparable"] += 1
                    continue
                stats["history-compared"] += 1
                ctx.count("history:%s" % c.kind, (c.key(), sname, occ), nontrivial=(occ > 0 or c.kind == "nohyp"))
                if sx.to_sexp(ha) != sx.to_sexp(fa):
                    hsus.append((c, sname, occ, ha, fa))

    # the known classes are decided by the Coq predicates on the INPUT
    def class_codes(tag, items, mk):
        if not items:
            return []
        cexprs = [([("D%d" % c.pidx)], logic.bb(mk(c))) for c in items]
        ccodes = eg.coq_codes_retry(ctx, tag, defs, cexprs, IMPORTS, ["Props/C06.vo"])
        return [x == 1 for x in ccodes]

    def rec_class_expr(c):
        st = c.prog.symtab()
        vs, hs, body = parts(c)
        return "rec_ambig_class %d D%d %s %s" % (FUEL, c.pidx, sx.to_coq(eg.rho_model(vs)), sx.to_coq(eg.hyps_model(hs, st, tuple(vs))))

    def slg_class_expr(c):
        st = c.prog.symtab()
        vs, hs, body = parts(c)
        return "slg_cocycle_class D%d %s" % (c.pidx, sx.to_coq(eg.goal_model(body, st, tuple(vs))))

    rec_c = [c for c, sname, a, verdict in suspects
             if sname == "rec" and verdict == "incomplete" and logic.answer_kind(a).startswith("Ambig")]
    slg_c = [c for c, sname, a, verdict in suspects if sname == "slg" and verdict == "incomplete" and logic.answer_kind(a) == "NoSolution"]
    slg_h = [c for c, sname, occ, ha, fa in hsus if sname == "slg" and c.oracle and logic.answer_kind(ha) == "NoSolution"]
    # F31: the recursive solver's ambiguity on an existential implied-bound sub-goal (class
    # rec-ambig-existential-bound) also shows as history dependence: exactly one of {history, fresh} is Ambig*, the other Unique
    def f31_shape(ha, fa):
        ka, kf = logic.answer_kind(ha), logic.answer_kind(fa)
        return (ka.startswith("Ambig") and kf == "Unique") or (kf.startswith("Ambig") and ka == "Unique")
    rec_h = [c for c, sname, occ, ha, fa in hsus if sname == "rec" and f31_shape(ha, fa)]
    rec_all = list({id(c): c for c in rec_c + rec_h}.values())
    rec_in = dict(zip([id(c) for c in rec_all], class_codes("clsrec", rec_all, rec_class_expr)))
    slg_in = dict(zip([id(c) for c in slg_c + slg_h], class_codes("clsslg", slg_c + slg_h, slg_class_expr)))
    for c, sname, a, verdict in suspects:
        k = logic.answer_kind(a)
        f = None
        if sname == "rec" and verdict == "incomplete" and k.startswith("Ambig") and rec_in.get(id(c)):
            f = ctx.match_known(None, "rec-ambig-existential-bound")
            tag = "known:rec-ambig"
        elif sname == "slg" and verdict == "incomplete" and k == "NoSolution" and slg_in.get(id(c)):
            f = ctx.match_known(None, "F7-slg-coinductive-cycle-wf")
            tag = "known:slg-cocycle"
        if f:
            ctx.known_finding(f, c.text)
            stats[tag] += 1
            continue
        ctx.violation({"kind": "oracle-mismatch:" + verdict, "solver": sname, "program": eg.to_text(c.prog), "goal": c.text,
                       "answer": sx.to_sexp(a), "oracle": c.oracle,
                       "relation": "closed goal: Unique <=> eval_if_decls = Some true (theorem sat_if_exact)"})
    for c, sname, occ, ha, fa in hsus:
        if sname == "slg" and c.oracle and logic.answer_kind(ha) == "NoSolution" and slg_in.get(id(c)):
            f = ctx.match_known(None, "F7-slg-coinductive-cycle-wf")
            if f:
                ctx.known_finding(f, c.text)
                stats["known:slg-cocycle-history"] += 1
                continue
        if sname == "rec" and f31_shape(ha, fa) and rec_in.get(id(c)):
            f = ctx.match_known(None, "rec-ambig-existential-bound-history")
            if f:
                ctx.known_finding(f, c.text)
                stats["known:rec-ambig-history"] += 1
                continue
        ctx.violation({"kind": "history-differs-from-fresh" + (":leak" if c.kind == "nohyp" else ""), "solver": sname,
                       "program": eg.to_text(c.prog), "goal": c.text, "occurrence": occ,
                       "history_answer": sx.to_sexp(ha), "fresh_answer": sx.to_sexp(fa), "oracle": c.oracle,
                       "history": [x.text for x in by_prog[c.pidx]]})

    # hand-made corpus with expected verdicts (guards the generator/oracle pipeline itself)
    ccases = [pg.case(t, gs, sv, "Fresh", [("Cpu", 5)]) for t, gs, _ in CORPUS for sv in (pg.SLG, pg.REC)]
    cres = logic.solve_cases(ccases, timeout=300)
    k = 0
    for t, gs, exp in CORPUS:
        for sv in ("slg", "rec"):
            r = cres[k]
            k += 1
            for g, e, a in zip(gs, exp, r["goals"]):
                got = logic.answer_kind(a[1]) == "Unique" if a[0] != "error" else None
                ctx.count("corpus", (t, g, sv))
                if got != e:
                    ctx.violation({"kind": "corpus", "solver": sv, "program": t, "goal": g, "answer": sx.to_sexp(a[1]) if a[0] != "error" else a[1], "expected_proved": e})

    ctx.cov["rule"] = ("evaluations = (program, closed goal, solver) triples compared with the Coq oracle + (goal occurrence on a long-lived solver) "
                       "compared with the fresh answer; non-trivial = goal has hypotheses (oracle) / later occurrence or hypothesis-free twin (history); "
                       "distinct by (program text, goal text, solver[, occurrence])")
    ctx.cov["input_distribution"] = {"programs": len(progs), "shapes": dict(shapes), "goals": dict(collections.Counter(c.kind for c in cases)),
                                     "oracle_true": sum(1 for c in cases if c.oracle is True), "oracle_false": sum(1 for c in cases if c.oracle is False),
                                     "outcomes": dict(stats)}
    ctx.cov["inconclusive"] = stats["oracle-inconclusive"] + sum(v for k, v in stats.items() if k.startswith("solver-died")) + stats["history-not-comparable"]
    ctx.cov["known_class_share"] = round((stats["known:rec-ambig"] + stats["known:slg-cocycle"]) / max(1, sum(v for k, v in stats.items() if k[:4] in ("slg:", "rec:"))), 4)


def replay(ctx, obj):
    core.build_harness(bins=["solve"])
    hist = obj.get("history") or [obj["goal"]]
    out = {}
    for sname, sv in (("slg", pg.SLG), ("rec", pg.REC)):
        r = logic.solve_cases([pg.case(obj["program"], [obj["goal"]], sv, "Fresh", [("Cpu", 10)]),
                               pg.case(obj["program"], hist + [obj["goal"]], sv, "History", [("Cpu", 60)])])
        out[sname] = (sx.to_sexp(r[0]["goals"][0][1]), sx.to_sexp(r[1]["goals"][-1][1]))
        print(sname, "fresh:", out[sname][0], " after history:", out[sname][1])
    s = obj.get("solver", "slg")
    if obj.get("kind", "").startswith("history"):
        if out[s][0] == out[s][1]:
            return 0
        fresh_k, hist_k = out[s][0].strip("(").split(" ")[0], out[s][1].strip("(").split(" ")[0]
        f31 = s == "rec" and ((fresh_k.startswith("Ambig") and hist_k == "Unique") or (hist_k.startswith("Ambig") and fresh_k == "Unique"))
        if f31:
            # the class predicate is decided in Coq on the INPUT, rebuilt from the replay's text
            ok, why = ctx.proof_stage("Props.C06", ["sat_if_exact"])
            prog = eg.parse_program(obj["program"])
            goal = eg.parse_goal(obj["goal"])
            vs, hs, body = eg.split_if_goal(goal)
            st = prog.symtab()
            expr = "rec_ambig_class %d D %s %s" % (FUEL, sx.to_coq(eg.rho_model(vs)), sx.to_coq(eg.hyps_model(hs, st, tuple(vs))))
            codes = eg.coq_codes_retry(ctx, "replaycls", {"D": ("decls", eg.to_decls(prog))}, [(["D"], logic.bb(expr))], IMPORTS, ["Props/C06.vo"])
            print("rec_ambig_class on the goal's hypotheses:", codes[0] == 1)
            f = ctx.match_known(None, "rec-ambig-existential-bound-history")
            if codes[0] == 1 and f:
                ctx.known_finding(f, obj["goal"])
                return 0
        return 1
    if obj.get("oracle") is not None:
        proved = out[s][0].startswith("(Unique")
        return 1 if proved != bool(obj["oracle"]) else 0
    return 0
