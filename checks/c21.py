"""C21 — well-formedness checking guarantees the bounds it lets code assume (partial by design)."""
import collections
import hashlib
import itertools

from vlib import core, logic, sx
from vlib import envgen as eg
from vlib import proggen as pg

META = {
    "id": "C21", "level": "proof",
    "technique": "Coq (Rules/Wf.v): model of the goals wf.rs builds for structs and impls (fragment without associated "
                 "types/lifetimes), theorem wf_implied_bounds_sound_partial (+ wf_fields_sound, cut lemma) under the strict "
                 "input-type premise, and wf_implied_bounds_sound_refuted: the statement for chalk's own goals is FALSE "
                 "(circular well-formedness of where-clause types); correspondence: generated programs (sound / one bound "
                 "missing / circular pattern) through the real checked_program, the verified evaluator checks the conclusion "
                 "over a bounded universe of concrete types for every accepted program",
    "level_text": "Machine-checked (Coq 8.16, axiom-free) partial soundness: if every impl goal holds for all ground "
                  "instantiations and the where-clauses' input types are well-formed from the header's input types alone, "
                  "every implemented trait reference with well-formed input types is WellFormed (all bounds, transitively) and "
                  "field types of well-formed struct instances are well-formed. The full statement is refuted by a "
                  "machine-checked witness that the real checker accepts (recorded finding). Every run feeds generated "
                  "programs to the real coherence+WF pass and evaluates the property's conclusion itself on the accepted ones.",
    "level_note": "PARTIAL: associated types, outlives bounds, auto/coinductive/built-in traits are outside the fragment; the "
                  "theorem's premises are in instance form (the step from the generic goal proved with placeholders to all "
                  "ground instances is not proved); trait declarations are not WF-checked by chalk. The conclusion is "
                  "evaluated only over a bounded universe of concrete types (depth <= 2). Rejections by the real checker are "
                  "never an alarm (a stricter checker satisfies the property); agreement of the model's verdict with the "
                  "real acceptance is reported as correspondence data.",
    "design_ref": "DESIGN.md §4 C21",
    "assumptions": ["well-formed concrete type = every input type (InputTypes of wf.rs) satisfies WellFormed(ty)",
                    "both real solvers are used as the checker's solver (SolverChoice of checked_program)"],
    "bins": ["solve"],
    "quick_s": 60, "thorough_s": 600,
}

FUEL = 300
IMPORTS = ("Rules.Wf",)


def classify_error(msg):
    m = msg or ""
    if "well-formedness" in m:
        return "rejected-wf"
    if "overlapping" in m or "orphan" in m or "coherence" in m.lower() or "specializ" in m:
        return "rejected-coherence"
    return "rejected-other"


def decl_traits(p):
    st = p.symtab()
    ident = lambda k: k
    out = []
    for t in p.traits:
        ref = ("impl", t.name, tuple(pg.var(k) for k in range(1 + t.nextra)))
        out.append(("mkTrait", eg.atom_model(ref, st, ident), [eg.atom_model(w, st, ident) for w in t.wcs]))
    return out


def decl_adts(p):
    st = p.symtab()
    ident = lambda k: k
    out = []
    for a in p.adts:
        self_ty = ("adt", a.name, tuple(pg.var(k) for k in range(a.nparams)))
        out.append(("mkAdt", pg.ty_model(self_ty, st, ident), [eg.atom_model(w, st, ident) for w in a.wcs],
                    [pg.ty_model(f, st, ident) for f in a.variants[0]]))
    return out


def ground_model(t, st):
    return pg.ty_model(t, st, lambda k: k)


def arg_tuples(univ, n, limit, rng):
    if n == 0:
        return [()]
    allt = list(itertools.product(univ, repeat=n))
    if len(allt) > limit:
        rng.shuffle(allt)
        allt = allt[:limit]
    return allt


def run(ctx):
    ok, why = ctx.proof_stage("Props.C21", ["wf_implied_bounds_sound_partial", "wf_fields_sound", "cut", "holds_full_core",
                                            "wfgoal_verdict_correct", "wf_implied_bounds_sound_refuted", "wf_hole_witness"])
    if not ok:
        ctx.violation({"kind": "proof", "broken": why}, no_input=True)
        return
    core.build_harness(bins=["solve"])
    rng = ctx.rng
    progs = list(eg.corpus_c21())          # the recorded witness first (Rules/Wf.v WfExamples.Dh)
    for _ in range(ctx.n(22, 220)):
        progs.append(eg.gen_wf_program(rng))
    cases, meta = [], []
    for i, (p, info) in enumerate(progs):
        for sname, sv in (("slg", pg.SLG), ("rec", pg.REC)):
            cases.append(pg.case(eg.to_text(p), [], sv, "Fresh", ["Checked", ("Cpu", ctx.n(20, 40))]))
            meta.append((i, sname))
    res = logic.solve_cases(cases, timeout=ctx.n(900, 3000))
    real = collections.defaultdict(dict)
    for (i, sname), r in zip(meta, res):
        real[i][sname] = "accepted" if r["ok"] else classify_error(r["error"])
        if not r["ok"] and real[i][sname] == "rejected-other":
            raise core.CheckFailure("generated program does not lower / unexpected error: %s\n%s" % (r["error"][:500], eg.to_text(progs[i][0])))

    # ---- the model of the check and the class predicate, in Coq ---------------------------------
    defs, exprs = {}, []
    for i, (p, info) in enumerate(progs):
        defs["D%d" % i] = ("decls", eg.to_decls(p))
        exprs.append((["D%d" % i], "N.add (N.add (%s) (N.mul 3 (%s))) (N.mul 9 (if wf_sys_ok (lower D%d) then 1%%N else 0%%N))" % (
            logic.ob("wf_check_model %d D%d" % (FUEL, i)), logic.ob("strict_ok %d D%d" % (FUEL, i)), i)))
    codes = eg.coq_codes_retry(ctx, "model", defs, exprs, IMPORTS, ["Props/C21.vo"], shard=max(4, len(exprs) // 16 + 1))
    model, strict = {}, {}
    dec = {0: False, 1: True, 2: None}
    for i, c in enumerate(codes):
        if c // 9 != 1:
            ctx.violation({"kind": "model", "broken": "wf_sys_ok (lower D) = false for a generated program", "program": eg.to_text(progs[i][0])}, no_input=True)
            return
        model[i], strict[i] = dec[c % 3], dec[(c // 3) % 3]

    # ---- the conclusion over a bounded universe, for every program some solver accepted -----------
    cexprs, cmeta = [], []
    for i, (p, info) in enumerate(progs):
        if "accepted" not in real[i].values():
            continue
        st = p.symtab()
        univ = eg.universe(p, depth=2, limit=ctx.n(10, 20))
        for ti, t in enumerate(decl_traits(p)):
            n = 1 + p.traits[ti].nextra
            for args in arg_tuples(univ, n, ctx.n(25, 80), rng):
                cexprs.append((["D%d" % i], "concl_trait %d D%d %s %s" % (FUEL, i, sx.to_coq(t), sx.to_coq([ground_model(a, st) for a in args]))))
                cmeta.append((i, "trait", p.traits[ti].name, args))
        for ai, a in enumerate(decl_adts(p)):
            n = p.adts[ai].nparams
            if n == 0 and not p.adts[ai].variants[0]:
                continue
            for args in arg_tuples(univ, n, ctx.n(25, 80), rng):
                cexprs.append((["D%d" % i], "concl_adt %d D%d %s %s" % (FUEL, i, sx.to_coq(a), sx.to_coq([ground_model(x, st) for x in args]))))
                cmeta.append((i, "adt", p.adts[ai].name, args))
    ccodes = eg.coq_codes_retry(ctx, "concl", defs, cexprs, IMPORTS, ["Props/C21.vo"], shard=max(40, len(cexprs) // 16 + 1))
    fails = collections.defaultdict(list)
    stats = collections.Counter()
    for (i, kind, name, args), c in zip(cmeta, ccodes):
        stats["concl:%s:%s" % (kind, {0: "premise-false", 1: "holds", 2: "FAILS", 3: "inconclusive"}[c])] += 1
        if c in (1, 2):
            ctx.count("conclusion:%s" % kind, (eg.to_text(progs[i][0]), name, args), nontrivial=True)
        if c == 2:
            fails[i].append((kind, name, args))

    # ---- verdicts ----------------------------------------------------------------------------------
    agree = collections.Counter()
    for i, (p, info) in enumerate(progs):
        text = eg.to_text(p)
        for sname in ("slg", "rec"):
            r = real[i][sname]
            key = "%s/model=%s" % (r, model[i])
            agree[key] += 1
            ctx.count("acceptance:" + p.shape, (text, sname), nontrivial=(info["missing"] is not None or "circular" in p.shape))
            if r != "accepted":
                continue          # a rejection never violates the property
            if fails[i]:
                kind, name, args = fails[i][0]
                witness = "%s %s with arguments %s" % (kind, name, ", ".join(pg.ty_text(a, str) for a in args))
                if model[i] is True and strict[i] is False:
                    f = ctx.match_known(None, "wf-circular")
                    if f:
                        ctx.known_finding(f, witness)
                        stats["known:wf-circular"] += 1
                        continue
                ctx.violation({"kind": "accepted-but-conclusion-fails", "solver": sname, "program": text, "missing": info["missing"],
                               "witness": witness, "n_failing_instances": len(fails[i]),
                               "model_wf_check": model[i], "strict_premise": strict[i],
                               "relation": "checked_program accepted the program, yet a (deeply) well-formed concrete type implements a trait "
                                           "without its bounds / a well-formed struct instance has an ill-formed field type (verified evaluator)"})
            elif model[i] is False:
                # the real solver proved a goal the oracle refutes, but no instance of the conclusion fails in the universe
                ctx.violation({"kind": "accepted-against-model", "solver": sname, "program": text, "missing": info["missing"],
                               "broken": "correspondence wf.rs goals <-> Rules/Wf.v goals (wfgoal_verdict_correct): the real checker accepted a "
                                         "program one of whose WF goals the verified oracle refutes; no failing instance of the conclusion "
                                         "was found in the bounded universe"}, no_input=True)
            else:
                if info["missing"] is None:
                    ctx.sample({"program": text[:500], "solver": sname, "verdict": "accepted; conclusion holds on the universe"})
    ctx.cov["rule"] = ("evaluations = (program, solver) acceptance decisions of the real checked_program + (program, trait|struct, concrete arguments) "
                       "instances on which the verified evaluator decided the conclusion; non-trivial = the program has a dropped bound or the "
                       "circular pattern / the instance's premise holds")
    ctx.cov["input_distribution"] = {"programs": len(progs), "shapes": dict(collections.Counter(p.shape for p, _ in progs)),
                                     "with_missing_bound": sum(1 for _, i in progs if i["missing"]),
                                     "real_vs_model": dict(agree), "strict_premise": dict(collections.Counter(str(v) for v in strict.values())),
                                     "outcomes": dict(stats)}
    n_acc = sum(1 for i in real for s in real[i] if real[i][s] == "accepted")
    ctx.cov["known_class_share"] = round(stats["known:wf-circular"] / max(1, n_acc), 4)
    ctx.cov["inconclusive"] = stats["concl:trait:inconclusive"] + stats["concl:adt:inconclusive"] + sum(1 for v in model.values() if v is None)


def replay(ctx, obj):
    core.build_harness(bins=["solve"])
    sv = pg.SLG if obj.get("solver", "slg") == "slg" else pg.REC
    r = logic.solve_cases([pg.case(obj["program"], [], sv, "Fresh", ["Checked", ("Cpu", 60)])])[0]
    print("checked_program:", "accepted" if r["ok"] else r["error"])
    return 1 if r["ok"] else 0
