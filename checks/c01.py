"""C01 — a definite answer from either solver matches the program's logical meaning."""
import collections
import itertools
import time

from vlib import core, logic, sx
from vlib import proggen as pg
from vlib import solvercheck as sc

META = {
    "id": "C01", "level": "proof",
    "technique": "Coq: declarative semantics (nu-mu fixed point, fresh-placeholder forall, hypotheses, negation) + verified "
                 "evaluator (eval_correct, both directions, all programs/goals) + executable answer-contract checker with "
                 "alarm-soundness theorem (check_answer_alarm_sound); refinement correspondence: the real answers of both "
                 "solvers on generated programs x goals are run through the checker inside Coq (vm_compute)",
    "level_text": "Truth is defined declaratively in Coq and the evaluator used as oracle is proved equal to it whenever it "
                  "answers.  A solver answer is flagged only through check_answer, and check_answer_alarm_sound proves that "
                  "every flag is a real violation of the contract of the property (Unique sound and complete, NoSolution only "
                  "without solutions, Definite guidance covering every solution) — so the check cannot raise a false alarm "
                  "relative to the formalised property; scheduling/tabling details of the engines are not compared.",
    "level_note": "Alarm-soundness is proved; silence is not a proof of the contract: the completeness half is a bounded "
                  "search over candidate ground solutions (universe of depth <= 2-3 plus instances of both solvers' answers), "
                  "the soundness half is evaluated on the fresh-placeholder instance, which by unique_sound_exact "
                  "(via the homomorphism theorem sat_rp / placeholder_generic) is exact for negation-free bodies.  The solvers are not modelled.  Known "
                  "classes F14 and F1 are decided by Coq predicates on the input (f14_class, f1_class) with refutation "
                  "witnesses f14_refuted / f1_refuted.",
    "design_ref": "DESIGN.md §4 C01",
    "bins": ["solve"],
    "assumptions": [
        "semantics of the C01 fragment as formalised in coq/Logic/Sem.v: ground types include opaque placeholders (open world); `not` only around closed goals; no mixed inductive/coinductive cycles (Contract.fragment_ok evaluated per case)",
        "auto-trait rule (clauses.rs push_auto_trait_impls) mirrored by proggen.auto_clauses",
        "generator / text / lowering agreement is checked on every program through the harness dump",
    ],
    "quick_s": 80, "thorough_s": 800,
}

FUEL = 150


def ground_pool(it, limit):
    """candidate ground types for the exists variables: small universe first"""
    u = pg.universe(it.prog, depth=2, limit=limit)
    return u


def ty_to_model(t, st, phmap=None):
    return pg.answer_ty_model(t, st, phmap or {})


def _match(pat, t, b):
    """one-way matching of an abstract goal type (variables = goal variables) against a ground type"""
    if pat[0] == "var":
        if pat[1] in b:
            return b[pat[1]] == t
        b[pat[1]] = t
        return True
    if pat[0] != "adt" or t[0] != "adt" or pat[1] != t[1] or len(pat[2]) != len(t[2]):
        return pat == t
    return all(_match(x, y, b) for x, y in zip(pat[2], t[2]))


def header_candidates(it, evars, fill):
    """candidate solutions read off the ground impl headers: every goal atom over a trait is
    matched against every ground impl header of that trait"""
    out = []
    atoms = []

    def walk(g):
        if g[0] == "atom":
            atoms.append(g[1])
        elif g[0] == "and":
            for x in g[1]:
                walk(x)
        elif g[0] in ("forall", "exists"):
            walk(g[2])
        elif g[0] == "if":
            walk(g[2])
    walk(it.goal)
    for a in atoms:
        for im in it.prog.impls:
            if im.positive and im.nvars == 0 and im.head[0] == a[0]:
                b = {}
                if all(_match(x, y, b) for x, y in zip(a[1], im.head[1])):
                    out.append([b.get(v, fill) for v in evars])
    return out


def candidates(it, rng, max_cands, prefix_m, ubs):
    """list of candidate solutions (lists of abstract ground types, one per exists variable)"""
    n = len(ubs)
    if n == 0:
        return [[]]
    pool = ground_pool(it, 7 if n == 1 else (5 if n == 2 else 4))
    # placeholders visible to a variable are candidates too
    cands = []
    per_var = []
    for j in range(n):
        pv = list(pool)
        for k in range(ubs[j]):
            pv.append(("phk", k))
        per_var.append(pv)
    prod = list(itertools.islice(itertools.product(*per_var), 4000))
    if len(prod) > max_cands:
        head = prod[:max_cands // 4]
        rest = prod[max_cands // 4:]
        rng.shuffle(rest)
        prod = head + rest[:max_cands - len(head)]
    cands = [list(c) for c in prod]
    _, _, evs = pg.peel(it.goal)
    for c in header_candidates(it, evs, pool[0] if pool else ("adt", it.prog.adts[0].name, ())):
        if len(c) == n and c not in cands and all(pg.ty_vars(t) == set() for t in c):
            cands.append(c)
    # instances of the solvers' own substitutions (answer variables := pool types)
    for sname in it.answers:
        pre, ans = it.answers[sname]
        if sx.head(ans) in ("Unique", "AmbigDefinite", "AmbigSuggested"):
            tys = [pg.answer_ty(t) for t in ans[2]]
            for fill in pool[:2]:
                def inst(t):
                    if t[0] == "var" or t[0] == "free":
                        return fill
                    if t[0] == "ph":
                        return t
                    return ("adt", t[1], tuple(inst(a) for a in t[2]))
                c = [inst(t) for t in tys]
                if len(c) == n and c not in cands:
                    cands.append(c)
    return cands


def cand_model(c, st, phmap_by_k):
    out = []
    for t in c:
        out.append(_cm(t, st))
    return out


def _cm(t, st):
    if t[0] == "phk":
        return ("TPh", t[1])
    if t[0] == "ph":
        return ("TPh", t[1]) if isinstance(t[1], int) else ("TPh", 0)
    return ("tapp", st["adt:" + t[1]], [_cm(a, st) for a in t[2]])


def run(ctx):
    t_start = time.time()
    ok, why = ctx.proof_stage("Props.C01", ["eval_correct", "check_answer_alarm_sound", "placeholder_generic", "unique_sound_exact", "f14_refuted", "f14b_refuted", "f1_refuted", "f7q_refuted",
                                           "eval_goal_fuel_sufficient", "check_answer_ok_sound", "check_answer_closed_ok_sound", "known_classes_narrow",
                                           "eval_inv_false_sound", "sat_inv_clean", "sat_inv_le", "neg_inv_differ"])
    if not ok:
        ctx.violation({"kind": "proof", "broken": why}, no_input=True)
        return
    core.build_harness(bins=["solve"])
    rng = ctx.rng
    phase = {"proof": round(time.time() - t_start, 1)}
    t0 = time.time()
    progs, items = sc.fragment_items(rng, ctx.n(28, 330), 3, 3, 6, extra=[(pg.shape_andor, ctx.n(60, 650)), (pg.shape_multi_arg, ctx.n(14, 120))], neg_ring=True)
    mism, perr = sc.run_items(items, cpu=ctx.n(4, 6), timeout=ctx.n(600, 3000))
    phase["solvers"] = round(time.time() - t0, 1)
    if mism:
        ctx.violation({"kind": "correspondence", "broken": "generator / .chalk text / lowered program disagree (proggen.dump_matches)",
                       "program": pg.to_text(progs[mism[0][0]]), "dump": mism[0][1][:3000]}, no_input=True)
        return
    if perr:
        ctx.violation({"kind": "infrastructure", "broken": "a generated fragment program failed to lower", "detail": str(perr[0])[:2000]}, no_input=True)
        return

    t0 = time.time()
    defs, exprs, meta = {}, [], []
    not_judged = collections.Counter()
    max_cands = ctx.n(24, 40)
    for k, it in enumerate(items):
        st = it.prog.symtab()
        pn = "P%d" % it.pidx
        if pn not in defs:
            defs[pn] = ("program", pg.to_model(it.prog))
        q, evars = pg.query_model(it.goal, st)
        qn = "q%d" % k
        defs[qn] = ("query", q)
        m, ubs = q[1], q[2]
        cands = candidates(it, rng, max_cands, m, ubs)
        cn = "c%d" % k
        # candidates mention the prefix placeholders through the harness numbering (u, i) -> k
        pre = next((it.answers[s][0] for s in it.answers if sc.is_real(it.answers[s][1])), [])
        phmap, h_ubs, _ = pg.prefix_phmap(pre)
        if pre and (list(h_ubs) != list(ubs) or len(phmap) != m):
            # generator-side peeling and chalk's into_peeled_goal disagree on the prefix
            raise core.CheckFailure("peeled prefix mismatch for goal %s: harness %s, generator m=%d ubs=%s" % (it.goal_text, sx.to_sexp(pre), m, ubs))
        cm = []
        for c in cands:
            row = []
            for t in c:
                row.append(_cm_ph(t, st, phmap))
            cm.append(row)
        defs[cn] = ("list (list ty)", cm)
        exprs.append(([pn, qn], logic.bb("fragment_ok %s %s" % (pn, qn))))
        gclosed = "g%d" % k
        is_closed = (len(ubs) == 0 and m == 0)
        if is_closed:
            defs[gclosed] = ("goal", pg.goal_model(it.goal, st))
            f7 = "(if f7q_class %d %s %s then 4 else 0)" % (FUEL, pn, gclosed)
            names = [pn, qn, gclosed]
        else:
            f7 = "(if f7q_query %d %s %s %s then 4 else 0)" % (FUEL, pn, qn, cn)
            names = [pn, qn, cn]
        exprs.append((names, "((if f14_class %s %s then 1 else 0) + (if f1_class %s %s then 2 else 0) + %s + (if f1_class_wide %s %s then 8 else 0) + (if f14b_class %s %s then 16 else 0))%%N" % (pn, qn, pn, qn, f7, pn, qn, pn, qn)))
        meta.append((k, None, "frag"))
        meta.append((k, None, "class"))
        for sname in ("slg", "rec"):
            pre_s, ans = it.answers[sname]
            if not sc.is_real(ans):
                not_judged["%s:%s" % (sname, logic.answer_kind(ans))] += 1
                continue
            am = pg.answer_model(ans, st, pre_s)
            an = "a%d_%s" % (k, sname)
            defs[an] = ("answer", am)
            exprs.append(([pn, qn, cn, an], "verdict_code (check_answer %d %s [] %s %s %s)" % (FUEL, pn, qn, an, cn)))
            meta.append((k, sname, "verdict"))
    codes, failures = logic.coq_codes(ctx.work, "contract", defs, exprs, shard=max(24, len(exprs) // 32 + 1), timeout=1500)
    phase["coq"] = round(time.time() - t0, 1)
    if failures:
        raise core.CheckFailure("coq evaluation failed: %s" % (failures[0],))

    # `not` below hypotheses that mention placeholders (closed goals): literal vs inversion reading
    inv_of = sc.inv_readings(ctx.work, "inv", items, [k for k, it in enumerate(items) if not pg.has_exists(it.goal) and pg.neg_inv_shape(it.goal)], FUEL)
    frag, cls = {}, {}
    for (k, sname, what), c in zip(meta, codes):
        if what == "frag":
            frag[k] = c
        elif what == "class":
            cls[k] = c
    hist = collections.Counter()
    class_items = collections.Counter()
    for (k, sname, what), c in zip(meta, codes):
        if what != "verdict":
            continue
        it = items[k]
        if frag[k] != 1:
            not_judged["outside-fragment"] += 1
            continue
        ans = it.answers[sname][1]
        kind = logic.answer_kind(ans)
        v = logic.verdict_name(c)
        nv = sc.neg_inv_verdict(inv_of[k], sname, kind) if k in inv_of else None
        if nv == "known":
            f = ctx.match_known(None, "NEGINV")
            if f:
                ctx.count(sname, (it.key(), sname), nontrivial=True)
                ctx.known_finding(f, "%s | %s | %s" % (sname, it.goal_text, kind))
                class_items["NEGINV"] += 1
                continue
        elif nv == "inconclusive":
            not_judged["neg-inv:inversion-reading-inconclusive"] += 1
            continue
        elif nv == "violation":
            d = it.describe()
            d.update({"kind": "differs-from-inversion-reading", "solver": sname, "answer": sx.to_sexp(ans)[:600],
                      "relation": "neg_inv_shape goal: literal reading true, inversion reading false (eval_inv_false_sound); chalk implements the inversion reading, NoSolution is required"})
            ctx.violation(d)
            continue
        nontrivial = kind in ("Unique", "NoSolution", "AmbigDefinite")
        ctx.count(sname, (it.key(), sname), nontrivial=nontrivial)
        hist["%s:%s:%s:%s" % (sname, it.kind, kind, v.split(":")[0])] += 1
        in_f14, in_f1, in_f7q = bool(cls[k] & 1), bool(cls[k] & 2), bool(cls[k] & 4)
        if in_f7q:
            class_items["F7q"] += 1
        if in_f14:
            class_items["F14"] += 1
        if in_f1:
            class_items["F1"] += 1
        if cls[k] & 8:
            class_items["F1-previous-wide-definition"] += 1
        in_f14b = bool(cls[k] & 16)
        if in_f14b:
            class_items["F14b"] += 1
        if c == logic.V_INCON:
            not_judged["oracle-inconclusive"] += 1
        if c is not None and c >= 10:
            f = ctx.match_known(it.key())
            if not f and sname == "slg" and in_f14 and c == 11 and kind == "Unique":
                f = ctx.match_known(None, "F14")
            if not f and sname == "slg" and in_f1 and c == 12 and kind == "AmbigDefinite" and sc.guidance_repeats(ans):
                # input in the class AND the concrete symptom: SLG, definite guidance that itself repeats a bound variable, "solution not covered"
                f = ctx.match_known(None, "F1")
            if not f and sname == "slg" and in_f14b and c == 12 and kind == "Unique":
                f = ctx.match_known(None, "F14b")
            if not f and sname == "slg" and in_f7q and c == 13 and kind == "NoSolution":
                f = ctx.match_known(None, "F7q")
            if f:
                ctx.known_finding(f, "%s | %s | %s" % (sname, it.goal_text, sx.to_sexp(ans)[:120]))
                ctx.cov["known_class_hits"] = ctx.cov.get("known_class_hits", 0) + 1
                continue
            d = it.describe()
            d.update({"kind": v, "solver": sname, "answer": sx.to_sexp(ans)[:600],
                      "relation": "Contract.check_answer = VAlarm %d; by check_answer_alarm_sound the answer violates `contract`" % (c - 10)})
            ctx.violation(d)
        elif nontrivial:
            ctx.sample({"program": it.text[:300], "goal": it.goal_text, "solver": sname, "answer": sx.to_sexp(ans)[:200], "verdict": v})

    judged = max(1, sum(1 for m_ in meta if m_[2] == "verdict"))
    ctx.cov["rule"] = "evaluations = (program, goal, solver) triples whose real answer went through Contract.check_answer in Coq; non-trivial = the answer is Unique / NoSolution / Ambig(Definite) (the kinds the contract constrains); distinct by (program, goal, solver)"
    ctx.cov["input_distribution"] = {"programs": len(progs), "shapes": sc.shape_histogram(items),
                                     "goal_kinds": dict(collections.Counter(it.kind for it in items)),
                                     "outcomes(solver:goal-kind:answer:verdict)": dict(hist),
                                     "items_in_known_class": dict(class_items), "max_candidates": max_cands}
    ctx.cov["inconclusive"] = dict(not_judged)
    ctx.cov["inconclusive_total"] = sum(not_judged.values())
    ctx.cov["known_class_share"] = round(sum(v for k_, v in class_items.items() if not k_.endswith("definition")) / judged, 4)
    ctx.cov["known_class_shares"] = {k_: round(v / judged, 4) for k_, v in class_items.items()}
    ctx.cov["known_class_forgiven_alarms"] = ctx.cov.get("known_class_hits", 0)
    ctx.cov["phase_s"] = phase


def _cm_ph(t, st, phmap):
    if t[0] == "phk":
        return ("TPh", t[1])
    if t[0] == "ph":
        return ("TPh", phmap.get(t[1], 0))
    if t[0] in ("var", "free"):
        raise ValueError("non-ground candidate")
    return ("tapp", st["adt:" + t[1]], [_cm_ph(a, st, phmap) for a in t[2]])


def replay(ctx, obj):
    core.build_harness(bins=["solve"])
    it = sc.Item(0, None, obj["program"], None, obj["goal"], obj.get("shape", "replay"), "replay")
    sc.run_items([it], cpu=10, dump_check=False)
    for s in ("slg", "rec"):
        print(s, sx.to_sexp(it.answers[s][1]))
    got = sx.to_sexp(it.answers[obj.get("solver", "slg")][1])[:600]
    print("recorded:", obj.get("answer"))
    return 1 if got == obj.get("answer") else 0
