"""Generator of *valid* .chalk programs across the item kinds and features C22 quantifies over
(structs/enums with flags, variances, reprs; traits with flags, associated types, bounds,
well-known/lang attributes; impls positive/negative with associated values; opaque types; fn
definitions; where-clauses of every kind) and the explicit feature-by-feature sweep."""
from __future__ import annotations

SCALARS = ["bool", "char", "i8", "i16", "i32", "i64", "i128", "isize", "u8", "u16", "u32", "u64", "u128", "usize",
           "f16", "f32", "f64", "f128"]
LANG_TRAITS = ["sized", "copy", "clone", "drop", "fn_once", "fn_mut", "fn", "async_fn_once", "async_fn_mut", "async_fn",
               "unsize", "unpin", "coerce_unsized", "discriminant_kind", "coroutine", "dispatch_from_dyn", "tuple_trait",
               "pointee_trait", "fn_ptr_trait", "future"]
TRAIT_FLAGS = ["auto", "marker", "upstream", "fundamental", "non_enumerable", "coinductive", "object_safe"]
ADT_FLAGS = ["upstream", "fundamental", "phantom_data", "one_zst"]
VARIANCES = ["Invariant", "Covariant", "Contravariant"]


def feature_sweep():
    """(feature, program text) pairs: every feature on its own."""
    out = []

    def add(f, p):
        out.append((f, p))

    for s in SCALARS:
        add("scalar:" + s, "struct S { x: %s }" % s)
    add("str-never", "struct S { a: str, b: ! }")
    add("tuple", "struct S { a: (), b: (u8,), c: (u8, S), d: ((u8,), ()) }")
    add("slice-array", "struct S<const N> { a: [u8], b: [u8; N], c: [u8; 3], d: [[u8]; 0] }")
    add("raw", "struct S { a: *const u8, b: *mut S, c: *const *mut u8 }")
    add("ref", "struct S<'a> { a: &'a u8, b: &'a mut S<'a>, c: &'static u8, d: &'static mut u8 }")
    add("ref-erased", "struct S { x: &'erased u8, y: &'erased mut u8 }")
    add("fnptr", "struct S { a: fn(), b: fn(u8) -> u8, c: fn(u8, S) -> (), d: fn(fn(u8)) -> fn() }")
    add("fnptr-for", "struct S { a: for<'a> fn(&'a u8) -> &'a u8, b: for<'a, 'b> fn(&'a u8, &'b mut u8) }")
    add("fnptr-unsafe", "struct S { a: unsafe fn(u8), b: for<'a> unsafe fn(&'a u8) }")
    add("fnptr-variadic", "struct S { a: fn(u8, ...), b: fn(...), c: unsafe fn(u8, u16, ...) -> u8 }")
    add("fnptr-extern-abi", 'struct S { a: extern "C" fn(u8) }')
    add("fnptr-extern-rust", 'struct S { a: extern "Rust" fn(u8) }')
    add("dyn", "trait T {} trait U<X> {} struct S<'a> { a: dyn T + 'a, b: dyn T + U<u8> + 'static }")
    add("dyn-forall", "trait F<'a> {} struct S { x: dyn forall<'a> F<'a> + 'static }")
    add("dyn-eq", "trait I { type Item; } struct S { x: dyn I<Item = u8> + 'static }")
    add("dyn-gat-eq", "trait I<X> { type Item<'a, Y>; } struct S<'b> { x: dyn I<u8, Item<'b, u16> = u8> + 'b }")
    add("adt-app", "struct V<T, 'a, const N> {} struct S<'x> { a: V<u8, 'x, 3>, b: V<V<(), 'static, 0>, 'x, 1> }")
    add("projection", "trait I { type Item; } struct S<T> where T: I { x: <T as I>::Item }")
    add("projection-gat", "trait I<X> { type Item<'a, Y>; } struct S<T> where T: I<u8> { x: <T as I<u8>>::Item<'static, T> }")
    add("opaque-ref", "trait T {} opaque type O: T = u8; struct S { x: O }")
    add("opaque-generic-ref", "trait T {} opaque type O<X>: T = X; struct S { x: O<u8> }")
    for f in ADT_FLAGS:
        add("adt-flag:" + f, "#[%s] struct S<T> {}" % f)
    add("adt-flags-all", "#[upstream] #[fundamental] #[phantom_data] #[one_zst] struct S<T> {}")
    add("adt-repr-c", "#[repr(C)] struct S {}")
    add("adt-repr-packed", "#[repr(packed)] struct S {}")
    add("adt-repr-c-packed", "#[repr(C)] #[repr(packed)] struct S {}")
    for s in ["u8", "i32", "usize", "isize", "u128"]:
        add("enum-repr:" + s, "#[repr(%s)] enum E { A, B }" % s)
    add("enum-repr-c-int", "#[repr(C)] #[repr(u16)] enum E { A }")
    add("enum-variants", "struct T {} enum E<X> { A, B(u8, X), C { x: T, y: X }, D() }")
    add("enum-empty", "enum E {}")
    add("enum-flags", "#[upstream] #[fundamental] #[one_zst] enum E<T> { A }")
    for v in VARIANCES:
        add("variance-adt:" + v, "#[variance(%s)] struct S<T> {}" % v)
    add("variance-adt-mixed", "#[variance(Covariant, Invariant, Contravariant)] struct S<T, 'a, U> {}")
    add("variance-enum", "#[variance(Contravariant)] enum E<T> { A(T) }")
    add("variance-fn", "#[variance(Covariant, Contravariant)] fn f<T, U>(x: T) -> U;")
    add("variance-with-flags", "#[variance(Covariant)] #[upstream] #[fundamental] #[repr(C)] struct S<T> {}")
    add("param-kinds", "struct S<T, 'a, const N, int I, float F> { x: I, y: F }")
    for f in TRAIT_FLAGS:
        add("trait-flag:" + f, "#[%s] trait T {}" % f)
    add("trait-flags-all", "#[marker] #[upstream] #[fundamental] #[non_enumerable] #[coinductive] #[object_safe] trait T<X> {}")
    for l in LANG_TRAITS:
        add("lang:" + l, "#[lang(%s)] trait T { }" % l)
    add("lang-flags", "#[auto] #[lang(unpin)] trait Unpin {}")
    add("lang-assoc", "#[lang(async_fn_once)] trait A<Args> { #[lang(async_fn_once_output)] type Output; }")
    add("trait-params", "trait T<X, 'a, const N> {}")
    add("trait-where", "trait U {} trait T<X> where X: U, Self: U {}")
    add("assoc", "trait T { type A; type B; }")
    add("assoc-bounds", "trait U {} trait V<X> {} trait T { type A: U + V<u8>; }")
    add("assoc-bounds-forall", "trait F<'a> {} trait T { type A: forall<'a> F<'a>; }")
    add("assoc-bounds-eq", "trait I { type Item; } trait T { type A: I<Item = u8>; }")
    add("assoc-bounds-auto-order", "#[auto] trait Send {} trait U {} trait T { type A: Send + U; }")
    add("assoc-where", "trait U {} trait T<X> { type A where X: U, Self: U; }")
    add("assoc-gat", "trait U {} trait T<X> { type A<'a, Y>: U where Y: U, X: 'a; }")
    add("assoc-same-name", "trait T { type Item; } trait U { type Item; } struct S<X> where X: T<Item = u8>, X: U<Item = u16> {}")
    add("impl", "trait T {} struct S {} impl T for S {}")
    add("impl-neg", "trait T {} struct S {} impl !T for S {}")
    add("impl-upstream", "trait T {} struct S {} #[upstream] impl T for S {}")
    add("impl-generic", "trait T<X> {} struct S<Y> {} impl<A, 'b, const N> T<[A; N]> for S<&'b A> {}")
    add("impl-where", "trait T {} trait U {} struct S<Y> {} impl<A> T for S<A> where A: U, S<A>: U {}")
    add("impl-assoc", "trait T { type A; type B; } struct S {} impl T for S { type A = u8; type B = S; }")
    add("impl-assoc-gat", "trait T { type A<'a, X>; } struct S<Y> {} impl<Y> T for S<Y> { type A<'a, X> = (&'a X, Y); }")
    add("impl-for-types", "trait T {} impl T for u8 {} impl T for (u8, u16) {} impl<'a> T for &'a str {} impl T for fn(u8) {} impl<X> T for [X] {}")
    add("impl-self-assoc", "trait T { type A; } struct S<X> {} impl<X> T for S<X> where X: T { type A = <X as T>::A; }")
    add("wc-implemented", "trait T<X> {} struct S<A, B> where A: T<B>, (A, B): T<u8> {}")
    add("wc-projection-eq", "trait I { type Item; } struct S<A, B> where A: I<Item = B> {}")
    add("wc-projection-eq-gat", "trait I<X> { type Item<Y>; } struct S<A, B> where A: I<u8, Item<B> = u16> {}")
    add("wc-lifetime-outlives", "struct S<'a, 'b> where 'a: 'b, 'b: 'static {}")
    add("wc-type-outlives", "struct S<'a, T> where T: 'a, &'a T: 'static {}")
    add("wc-forall", "trait F<'a> {} struct S<T> where forall<'a> T: F<'a>, forall<'a, 'b> &'a T: F<'b> {}")
    add("wc-forall-kinds", "trait F<X> {} struct S<T> where forall<X, const N, int I> T: F<[I; N]> {}")
    add("wc-forall-outlives", "struct S<T> where forall<'a> T: 'a, forall<'a, 'b> 'a: 'b {}")
    add("wc-dup", "trait T {} struct S<A> where A: T, A: T {}")
    add("wc-on-trait-impl-fn-opaque-assoc",
        "trait U {} trait T<X> where X: U { type A where X: U; } struct S {} impl<X> T<X> for S where X: U { type A = u8; } "
        "fn f<X>(x: X) where X: U; opaque type O<X>: U where X: U = X;")
    add("opaque", "trait T {} opaque type O: T = u8;")
    add("opaque-no-bounds", "opaque type O = ();")
    add("opaque-bounds", "trait T {} trait U<X> {} opaque type O<X>: T + U<X> = X;")
    add("opaque-bounds-eq", "trait I { type Item; } opaque type O: I<Item = u8> = u8;")
    add("opaque-bounds-forall", "trait F<'a> {} opaque type O: forall<'a> F<'a> = u8;")
    add("opaque-where", "trait T {} struct B<X> {} opaque type O<X>: T where X: T = B<X>;")
    add("opaque-where-kinds", "trait T {} opaque type O<'a, X>: T where X: 'a, 'a: 'static, forall<'b> &'b X: T = X;")
    add("opaque-hidden-generic", "trait T {} struct B<X, 'a> {} opaque type O<X, 'a>: T = B<(X,), 'a>;")
    add("fn", "fn f(); fn g(x: u8, y: (u8, u8)) -> u8;")
    add("fn-generic", "fn f<T, 'a, const N>(x: &'a [T; N]) -> T;")
    add("fn-where", "trait U {} fn f<T>(x: T) where T: U, T: 'static;")
    add("fn-unsafe", "unsafe fn f(x: u8);")
    add("fn-variadic", "fn f(x: u8, y: ...); fn g(x: ...);")
    add("fn-extern-abi", 'extern "C" fn f(x: u8);')
    add("fn-extern-rust", 'extern "Rust" fn f(x: u8);')
    add("fn-def-as-type", "fn foo(); struct S { x: foo }")
    add("self-in-trait", "trait U {} trait T where Self: U { type A: U where Self: U; }")
    add("name-like-param", "struct _1_0 {} struct S<T> { f: _1_0 }")
    add("name-like-field", "struct field_0 {} struct variant_0 {} struct arg_0 {} struct S { x: field_0 }")
    add("name-keyword-ish", "struct Self_ {} struct dyn_ {} struct r#type {}".replace(" struct r#type {}", ""))
    add("name-dup-across-namespaces", "struct Foo {} trait Bar { type Foo; } impl Bar for Foo { type Foo = Foo; }")
    add("comments", "// leading\nstruct S {} // trailing\ntrait T {}")
    add("many-items-order", "trait B {} struct A {} impl B for A {} struct C<X> where X: B {} trait D<X> where X: B { type E: B; }")
    return out


class Gen:
    def __init__(self, rng):
        self.r = rng

    def fresh(self, prefix):
        self.n += 1
        return "%s%d" % (prefix, self.n)

    # -- declarations ---------------------------------------------------------------------
    def params(self, maxn=3, kinds=("ty", "ty", "ty", "lt", "const", "int", "float")):
        out = []
        for _ in range(self.r.choice([0, 0, 1, 1, 2, maxn])):
            k = self.r.choice(kinds)
            nm = self.fresh("'p" if k == "lt" else "P")
            out.append((k, nm))
        return out

    @staticmethod
    def p_params(ps, skip_empty=True):
        if not ps and skip_empty:
            return ""
        pre = {"ty": "", "lt": "", "const": "const ", "int": "int ", "float": "float "}
        return "<" + ", ".join(pre[k] + n for k, n in ps) + ">"

    def arg_for(self, kind, scope, depth, no_dyn):
        if kind == "lt":
            return self.lifetime(scope)
        if kind == "const":
            cs = [n for k, n in scope if k == "const"]
            return self.r.choice(cs) if cs and self.r.random() < 0.6 else str(self.r.choice([0, 1, 3, 42, 4294967295]))
        return self.ty(scope, depth, no_dyn)

    def args(self, kinds, scope, depth, no_dyn):
        return [self.arg_for("ty" if k in ("int", "float") else k, scope, depth, no_dyn) for k in kinds]

    @staticmethod
    def p_args(a):
        return ("<" + ", ".join(a) + ">") if a else ""

    def lifetime(self, scope):
        lts = [n for k, n in scope if k == "lt"]
        if lts and self.r.random() < 0.65:
            return self.r.choice(lts)
        return "'static" if self.r.random() < 0.85 else "'erased"

    def trait_bound(self, scope, depth, no_dyn, allow_eq=True):
        tr = self.r.choice(self.traits)
        a = self.args([k for k, _ in tr["params"]], scope, depth, True)
        if allow_eq and tr["assocs"] and self.r.random() < 0.3:
            an = self.r.choice(tr["assocs"])
            aa = self.args([k for k, _ in an["params"]], scope, depth, True)
            a = a + ["%s%s = %s" % (an["name"], self.p_args(aa), self.ty(scope, depth, True))]
        return tr["name"] + self.p_args(a)

    def qbound(self, scope, depth, no_dyn):
        if self.r.random() < 0.15:
            self.binder += 1
            ps = [("lt", "'q%d_%d" % (self.binder, i)) for i in range(self.r.randint(1, 2))]
            return "forall<" + ", ".join(n for _, n in ps) + "> " + self.trait_bound(scope + ps, depth, no_dyn)
        return self.trait_bound(scope, depth, no_dyn)

    def ty(self, scope, depth=2, no_dyn=False):
        r = self.r
        c = r.random()
        tys = [n for k, n in scope if k in ("ty", "int", "float")]
        if depth <= 0 or c < 0.25:
            if tys and r.random() < 0.5:
                return r.choice(tys)
            nullary = [a["name"] for a in self.adts if not a["params"]]
            if nullary and r.random() < 0.4:
                return r.choice(nullary)
            return r.choice(SCALARS + ["str", "!", "()"])
        if c < 0.45 and self.adts:
            a = r.choice(self.adts)
            return a["name"] + self.p_args(self.args([k for k, _ in a["params"]], scope, depth - 1, no_dyn))
        if c < 0.52:
            ts = [self.ty(scope, depth - 1, no_dyn) for _ in range(r.randint(1, 3))]
            return "(" + ", ".join(ts) + ("," if len(ts) == 1 else "") + ")"
        if c < 0.62:
            return "&" + self.lifetime(scope) + (" mut " if r.random() < 0.4 else " ") + self.ty(scope, depth - 1, no_dyn)
        if c < 0.67:
            return "*" + r.choice(["const", "mut"]) + " " + self.ty(scope, depth - 1, no_dyn)
        if c < 0.71:
            return "[" + self.ty(scope, depth - 1, no_dyn) + "]"
        if c < 0.76:
            return "[" + self.ty(scope, depth - 1, no_dyn) + "; " + self.arg_for("const", scope, 0, no_dyn) + "]"
        if c < 0.84:
            pre, sc = "", scope
            if r.random() < 0.35:
                self.binder += 1
                ps = [("lt", "'f%d_%d" % (self.binder, i)) for i in range(r.randint(1, 2))]
                pre = "for<" + ", ".join(n for _, n in ps) + "> "
                sc = scope + ps
            if r.random() < 0.2:
                pre += "unsafe "
            ins = [self.ty(sc, depth - 1, no_dyn) for _ in range(r.randint(0, 2))]
            if r.random() < 0.15:
                ins.append("...")
            ret = (" -> " + self.ty(sc, depth - 1, no_dyn)) if r.random() < 0.6 else ""
            return pre + "fn(" + ", ".join(ins) + ")" + ret
        if c < 0.90 and self.traits and not no_dyn:
            bs = [self.qbound(scope, depth - 1, True) for _ in range(r.randint(1, 2))]
            return "dyn " + " + ".join(bs) + " + " + self.lifetime(scope)
        if c < 0.95 and self.traits:
            trs = [t for t in self.traits if t["assocs"]]
            if trs:
                tr = r.choice(trs)
                an = r.choice(tr["assocs"])
                return "<%s as %s%s>::%s%s" % (self.ty(scope, depth - 1, no_dyn), tr["name"],
                                               self.p_args(self.args([k for k, _ in tr["params"]], scope, depth - 1, True)), an["name"],
                                               self.p_args(self.args([k for k, _ in an["params"]], scope, depth - 1, True)))
        if self.opaques and r.random() < 0.5:
            o = r.choice(self.opaques)
            return o["name"] + self.p_args(self.args([k for k, _ in o["params"]], scope, depth - 1, no_dyn))
        return r.choice(SCALARS)

    def where_clause(self, scope, no_dyn=False):
        r = self.r
        pre, sc = "", scope
        if r.random() < 0.2:
            self.binder += 1
            kinds = ("lt", "lt", "ty", "const", "int")
            ps = []
            for i in range(r.randint(1, 2)):
                k = r.choice(kinds)
                ps.append((k, ("'w%d_%d" if k == "lt" else "W%d_%d") % (self.binder, i)))
            pre = "forall" + self.p_params(ps) + " "
            sc = scope + ps
        c = r.random()
        if c < 0.6 and self.traits:
            return pre + self.ty(sc, 1, no_dyn) + ": " + self.trait_bound(sc, 1, no_dyn)
        if c < 0.8:
            return pre + self.ty(sc, 1, no_dyn) + ": " + self.lifetime(sc)
        return pre + self.lifetime(sc) + ": " + self.lifetime(sc)

    def where(self, scope, maxn=3, no_dyn=False):
        n = self.r.choice([0, 0, 1, 2, maxn])
        if not n:
            return ""
        return " where " + ", ".join(self.where_clause(scope, no_dyn) for _ in range(n))

    # -- items -----------------------------------------------------------------------------------
    def program(self):
        r = self.r
        self.n = 0
        self.binder = 0
        self.traits, self.adts, self.opaques = [], [], []
        n_tr, n_adt, n_op = r.randint(1, 3), r.randint(1, 3), r.choice([0, 0, 1])
        assoc_pool = ["Item", "Out", "A%d" % r.randint(0, 3)]
        for i in range(n_tr):
            auto = r.random() < 0.12
            params = [] if auto else self.params(2)
            assocs = []
            if not auto:
                for _ in range(r.choice([0, 0, 1, 2])):
                    nm = r.choice(assoc_pool)
                    if nm not in [a["name"] for a in assocs]:
                        assocs.append({"name": nm, "params": self.params(2, ("ty", "lt", "const"))})
            self.traits.append({"name": "T%d" % i, "params": params, "assocs": assocs, "auto": auto})
        for i in range(n_adt):
            self.adts.append({"name": "S%d" % i, "params": self.params(3)})
        for i in range(n_op):
            self.opaques.append({"name": "O%d" % i, "params": self.params(2, ("ty", "lt"))})
        items = []
        for tr in self.traits:
            items.append(self.trait_item(tr))
        for a in self.adts:
            items.append(self.adt_item(a))
        for o in self.opaques:
            items.append(self.opaque_item(o))
        for _ in range(r.randint(0, 4)):
            items.append(self.impl_item())
        for i in range(r.choice([0, 0, 1, 2])):
            items.append(self.fn_item(i))
        r.shuffle(items)
        return "\n".join(items)

    def trait_item(self, tr):
        r = self.r
        attrs = []
        if tr["auto"]:
            attrs.append("#[auto]")
        for f in TRAIT_FLAGS[1:]:
            if r.random() < 0.12:
                attrs.append("#[%s]" % f)
        if r.random() < 0.12:
            attrs.append("#[lang(%s)]" % r.choice(LANG_TRAITS))
        scope = [("ty", "Self")] + tr["params"]
        body = []
        for a in tr["assocs"]:
            sc = scope + a["params"]
            bounds = ""
            if r.random() < 0.5 and self.traits:
                bounds = ": " + " + ".join(self.qbound(sc, 1, True) for _ in range(r.randint(1, 2)))
            lang = "#[lang(async_fn_once_output)] " if r.random() < 0.05 else ""
            body.append(lang + "type " + a["name"] + self.p_params(a["params"]) + bounds + self.where(sc, 2) + ";")
        w = "" if tr["auto"] else self.where(scope, 2)
        return " ".join(attrs) + " trait " + tr["name"] + self.p_params(tr["params"]) + w + " { " + " ".join(body) + " }"

    def adt_item(self, a):
        r = self.r
        attrs = []
        ps = a["params"]
        if ps and r.random() < 0.3:
            attrs.append("#[variance(" + ", ".join(r.choice(VARIANCES) for _ in ps) + ")]")
        if r.random() < 0.15:
            attrs.append("#[upstream]")
        if ps and r.random() < 0.12:
            attrs.append("#[fundamental]")
        if r.random() < 0.1:
            attrs.append("#[phantom_data]")
        if r.random() < 0.1:
            attrs.append("#[one_zst]")
        is_enum = r.random() < 0.4
        if r.random() < 0.15:
            attrs.append("#[repr(C)]")
        if r.random() < 0.1:
            attrs.append("#[repr(packed)]")
        if is_enum and r.random() < 0.25:
            attrs.append("#[repr(%s)]" % r.choice(["u8", "i32", "usize", "i128"]))
        scope = list(ps)
        w = self.where(scope, 2)
        if is_enum:
            vs = []
            for k in range(r.randint(0, 3)):
                c = r.random()
                if c < 0.3:
                    vs.append("V%d" % k)
                elif c < 0.65:
                    vs.append("V%d(" % k + ", ".join(self.ty(scope) for _ in range(r.randint(0, 2))) + ")")
                else:
                    vs.append("V%d { " % k + ", ".join("f%d: %s" % (i, self.ty(scope)) for i in range(r.randint(0, 2))) + " }")
            return " ".join(attrs) + " enum " + a["name"] + self.p_params(ps) + w + " { " + ", ".join(vs) + " }"
        fs = ", ".join("f%d: %s" % (i, self.ty(scope)) for i in range(r.randint(0, 3)))
        return " ".join(attrs) + " struct " + a["name"] + self.p_params(ps) + w + " { " + fs + " }"

    def opaque_item(self, o):
        r = self.r
        scope = list(o["params"])
        bounds = ""
        if r.random() < 0.8:
            bounds = ": " + " + ".join(self.qbound(scope, 1, True) for _ in range(r.randint(1, 2)))
        return "opaque type " + o["name"] + self.p_params(o["params"]) + bounds + self.where(scope, 2, no_dyn=True) + " = " + self.ty(scope, 2) + ";"

    def impl_item(self):
        r = self.r
        tr = r.choice(self.traits)
        ps = self.params(2)
        scope = list(ps)
        neg = r.random() < 0.15
        up = "#[upstream] " if r.random() < 0.12 else ""
        targs = self.p_args(self.args([k for k, _ in tr["params"]], scope, 1, False))
        body = []
        if not neg:
            for a in tr["assocs"]:
                aps = [(k, self.fresh("'v" if k == "lt" else "V")) for k, _ in a["params"]]
                body.append("type " + a["name"] + self.p_params(aps) + " = " + self.ty(scope + aps, 2) + ";")
        return (up + "impl" + self.p_params(ps) + " " + ("!" if neg else "") + tr["name"] + targs + " for " + self.ty(scope, 2)
                + self.where(scope, 2) + " { " + " ".join(body) + " }")

    def fn_item(self, i):
        r = self.r
        ps = self.params(2)
        scope = list(ps)
        attrs = ""
        if ps and r.random() < 0.25:
            attrs += "#[variance(" + ", ".join(r.choice(VARIANCES) for _ in ps) + ")] "
        if r.random() < 0.2:
            attrs += "unsafe "
        ins = ["a%d: %s" % (k, self.ty(scope)) for k in range(r.randint(0, 3))]
        if r.random() < 0.15:
            ins.append("va: ...")
        ret = (" -> " + self.ty(scope)) if r.random() < 0.6 else ""
        return attrs + "fn f%d" % i + self.p_params(ps) + "(" + ", ".join(ins) + ")" + ret + self.where(scope, 2) + ";"
