"""C20 -- The orphan check implements the orphan rules.

Proof stage: Props/C20.v (model and proofs in Rules/Orphan.v): derivability of LocalImplAllowed
from the clauses chalk generates = the structural rule of the property.
Correspondence stage: generated impls of local / upstream traits (up to three type arguments built
from local, upstream, fundamental-upstream structs, scalars, tuples, impl type parameters) are run
through the real `perform_orphan_check` with both solvers (harness bin `coh`, sub-command
`orphan`); the result must equal the Gallina evaluator `orphan_check_data` on the same impl and,
independently, the structural rule `orphan_rule_data`.  Single goals IsUpstream / IsFullyVisible /
IsLocal on generated types are compared with the model evaluator and the structural predicates
(sub-command `goals`)."""
from __future__ import annotations

from vlib import core, sx

META = {
    "id": "C20",
    "level": "proof",
    "technique": "Coq theorem orphan_spec (derivability from a Gallina model of the IsLocal/IsUpstream/IsFullyVisible/"
                 "LocalImplAllowed clause generation <-> the structural orphan rule) + differential correspondence "
                 "of perform_orphan_check and of single domain goals on generated impls, both solvers",
    "level_text": "For all programs of the modelled shape the clause set chalk generates derives LocalImplAllowed exactly "
                  "when the structural rule of the property holds; builtin types and tuples of fully visible types are fully "
                  "visible; as run by the default solvers this holds outside the recorded size class only (orphan_partial, orphan_size_refuted). 'Builtin types count as upstream' is proved outside a recorded class only (upstream_partial; "
                  "IsUpstream on a builtin type is a known finding, upstream_refuted). The clause model is compared with the "
                  "real clause generation + solvers on every run.",
    "level_note": "The solvers are trusted to decide derivability from these (non-recursive, structurally decreasing) "
                  "clauses; that the real clause generation is the modelled one is tested by the differential run, not proved. "
                  "Only type arguments are modelled (no lifetimes/consts), builtin types are scalars, unit and tuples.",
    "design_ref": "DESIGN.md §4 C20, §5 F6",
    "bins": ["coh"],
    "assumptions": [
        "type arguments only: structs (local, upstream, fundamental), scalars, str/never are not generated, tuples, impl type parameters",
        "a tuple counts as upstream whatever its components (like a non-fundamental upstream struct)",
        "known class orphan-arg-size>max_size: impls with a trait-reference argument of more than max_size type nodes (10 for the default SLG solver, 30 for the recursive one; Coq predicate size_known_class on the input): the solver gives up and the check accepts",
        "known class isupstream-builtin: IsUpstream(t) where the answer depends on a builtin type being upstream (Coq predicate up_known_class on the input)",
    ],
    "quick_s": 90,
    "thorough_s": 600,
}

IMPORTS = ["Rules.Orphan"]
MAX_REPORTS = 8
KNOWN_CLASS = "isupstream-builtin"
SIZE_CLASS = "orphan-arg-size>max_size"

# struct number -> (declaration, arity, upstream, fundamental)
ADTS = [
    ("struct L0 {}", 0, False, False),
    ("struct L1<T> {}", 1, False, False),
    ("#[upstream] struct U0 {}", 0, True, False),
    ("#[upstream] struct U1<T> {}", 1, True, False),
    ("#[upstream] #[fundamental] struct F1<T> {}", 1, True, True),
    ("#[upstream] #[fundamental] struct F2<T, U> {}", 2, True, True),
    ("#[fundamental] struct LF1<T> {}", 1, False, True),
    ("#[upstream] struct U2<T, U> {}", 2, True, False),
]
ADT_NAMES = ["L0", "L1", "U0", "U1", "F1", "F2", "LF1", "U2"]
SCALARS = ["u32", "bool", "char", "f32", "i8", "usize"]
TRAITS = {  # (upstream, arity of extra parameters) -> name
    (True, 0): "Rem0", (True, 1): "Rem1", (True, 2): "Rem2",
    (False, 0): "Loc0", (False, 1): "Loc1", (False, 2): "Loc2",
}
PRELUDE = "\n".join(a[0] for a in ADTS) + "\n" + "\n".join(
    ("#[upstream] " if up else "") + "trait " + name + ("<" + ", ".join("XYZ"[:k]) + ">" if k else "") + " {}"
    for (up, k), name in sorted(TRAITS.items()))
ADT_DECLS = [("mkAdt", a[2], a[3]) for a in ADTS]


def gen_ty(rng, depth, nparams):
    r = rng.random()
    if depth <= 0 or r < 0.38:
        k = rng.random()
        if k < 0.30 and nparams > 0:
            return ("TParam", rng.randrange(nparams))
        if k < 0.55:
            return ("TScalar", rng.randrange(len(SCALARS)))
        if k < 0.62:
            return ("TTuple", [])
        a = rng.choice([0, 2])
        return ("TAdt", a, [])
    if r < 0.55:
        n = rng.choice([2, 2, 3])
        return ("TTuple", [gen_ty(rng, depth - 1, nparams) for _ in range(n)])
    a = rng.choice([1, 3, 4, 4, 5, 5, 6, 7])
    return ("TAdt", a, [gen_ty(rng, depth - 1, nparams) for _ in range(ADTS[a][1])])


def show_ty(t):
    h = t[0]
    if h == "TParam":
        return "T%d" % t[1]
    if h == "TScalar":
        return SCALARS[t[1]]
    if h == "TTuple":
        return "(" + ", ".join(show_ty(x) for x in t[1]) + ")"
    name = ADT_NAMES[t[1]]
    return name + ("<" + ", ".join(show_ty(x) for x in t[2]) + ">" if t[2] else "")


def params_in(t, acc):
    if t[0] == "TParam":
        acc.add(t[1])
    elif t[0] == "TTuple":
        for x in t[1]:
            params_in(x, acc)
    elif t[0] == "TAdt":
        for x in t[2]:
            params_in(x, acc)
    return acc


def gen_leaf(rng, nparams):
    k = rng.random()
    if k < 0.25 and nparams > 0:
        return ("TParam", rng.randrange(nparams))
    if k < 0.45:
        return ("TScalar", rng.randrange(len(SCALARS)))
    if k < 0.50:
        return ("TTuple", [])
    return ("TAdt", rng.choice([0, 0, 2]), [])


def gen_nested(rng, nparams):
    """Tuples / fundamental / upstream constructors whose components are again tuples or
    constructors over local, upstream, builtin and parameter leaves: 7..13 type nodes, so the
    shapes straddle the SLG size limit (10)."""
    def inner():
        c = rng.choice(["tuple2", "tuple3", "tuple3", "F2", "F2", "U2", "U1", "leaf"])
        if c == "tuple2":
            return ("TTuple", [gen_leaf(rng, nparams) for _ in range(2)])
        if c == "tuple3":
            return ("TTuple", [gen_leaf(rng, nparams) for _ in range(3)])
        if c == "leaf":
            return gen_leaf(rng, nparams)
        a = {"F2": 5, "F1": 4, "U2": 7, "U1": 3}[c]
        return ("TAdt", a, [gen_leaf(rng, nparams) for _ in range(ADTS[a][1])])
    c = rng.choice(["tuple3", "tuple3", "tuple3", "tuple2", "F2", "U2"])
    if c == "tuple3":
        return ("TTuple", [inner() for _ in range(3)])
    if c == "tuple2":
        return ("TTuple", [inner() for _ in range(2)])
    a = {"F2": 5, "U2": 7}[c]
    return ("TAdt", a, [inner(), inner()])


def gen_impl(rng):
    if rng.random() < 0.22:
        # one nested argument among up to three
        k = rng.choice([0, 1, 1, 2])
        nparams = rng.choice([0, 1, 1, 2])
        args = [gen_ty(rng, rng.choice([0, 1]), nparams) for _ in range(k + 1)]
        args[rng.randrange(k + 1)] = gen_nested(rng, nparams)
        return rng.random() < 0.9, args
    upstream = rng.random() < 0.85
    k = rng.choice([0, 1, 1, 2, 2])
    nparams = rng.choice([0, 1, 1, 2])
    args = [gen_ty(rng, rng.choice([0, 1, 1, 2]), nparams) for _ in range(k + 1)]
    return upstream, args


def show_impl(upstream, args):
    used = set()
    for a in args:
        params_in(a, used)
    ps = sorted(used)
    name = TRAITS[(upstream, len(args) - 1)]
    s = "impl" + ("<" + ", ".join("T%d" % p for p in ps) + ">" if ps else "") + " " + name
    if len(args) > 1:
        s += "<" + ", ".join(show_ty(a) for a in args[1:]) + ">"
    return s + " for " + show_ty(args[0]) + " {}"


def model_input(upstream, args):
    return ("mkO", bool(upstream), ADT_DECLS, args)


BIG_UP = ("TAdt", 7, [("TAdt", 7, [("TAdt", 3, [("TAdt", 2, [])]), ("TAdt", 3, [("TAdt", 2, [])])]),
                      ("TAdt", 7, [("TAdt", 3, [("TAdt", 2, [])]), ("TAdt", 3, [("TAdt", 2, [])])])])


def chain_u1(n):
    t = ("TAdt", 2, [])
    for _ in range(n):
        t = ("TAdt", 3, [t])
    return t


FIXED = [  # hand-written shapes: the F6 witnesses and the classic orphan cases
    (True, [("TScalar", 0), ("TAdt", 0, [])]),                                   # impl Rem1<L0> for u32
    (True, [("TTuple", [("TScalar", 0), ("TScalar", 0)]), ("TAdt", 0, [])]),     # impl Rem1<L0> for (u32, u32)
    (True, [("TTuple", []), ("TAdt", 0, [])]),
    (True, [("TScalar", 0)]),                                                     # impl Rem0 for u32: rejected
    (True, [("TParam", 0), ("TAdt", 0, [])]),                                     # impl<T> Rem1<L0> for T: rejected
    (True, [("TAdt", 0, []), ("TParam", 0)]),                                     # impl<T> Rem1<T> for L0: allowed
    (True, [("TAdt", 5, [("TParam", 0), ("TAdt", 0, [])])]),                      # impl<T> Rem0 for F2<T, L0>
    (True, [("TAdt", 5, [("TParam", 0), ("TAdt", 2, [])])]),
    (True, [("TAdt", 3, [("TAdt", 0, [])])]),                                     # impl Rem0 for U1<L0>: rejected
    (True, [("TTuple", [("TAdt", 0, []), ("TScalar", 1)])]),                      # impl Rem0 for (L0, bool): rejected
    (True, [("TTuple", [("TScalar", 0), ("TParam", 0)]), ("TAdt", 0, [])]),       # parameter inside a tuple in front
    (True, [("TAdt", 7, [("TScalar", 0), ("TTuple", [("TScalar", 1), ("TAdt", 2, [])])]), ("TScalar", 2), ("TAdt", 1, [("TParam", 0)])]),
    (True, [BIG_UP]),                                                             # 11 nodes, all upstream: SLG accepts (size class)
    (True, [("TParam", 0), BIG_UP]),
    (True, [BIG_UP, ("TAdt", 0, [])]),                                            # rule allows (BIG_UP fully visible, L0 local)
    (True, [("TTuple", [("TAdt", 7, [("TParam", 0), ("TAdt", 2, [])]), ("TTuple", [("TScalar", 0), ("TAdt", 2, []), ("TAdt", 0, [])]), ("TAdt", 5, [("TScalar", 2), ("TParam", 0)])])]),
    (True, [chain_u1(31)]),                                                       # 32 nodes: the recursive solver gives up too
    (False, [chain_u1(31)]),
    (True, [chain_u1(29), ("TAdt", 0, [])]),                                      # 30 nodes: still decided by both... SLG gives up
    (False, [("TParam", 0)]),                                                     # impl<T> Loc0 for T
    (False, [("TScalar", 3), ("TParam", 0)]),
]


def gen_goal(rng):
    kind = rng.choice(["IsUpstream", "IsFullyVisible", "IsLocal"])
    nparams = rng.choice([0, 0, 1, 2])
    t = gen_ty(rng, rng.choice([0, 1, 2]), nparams)
    return kind, t


def show_goal(kind, t):
    used = sorted(params_in(t, set()))
    g = "%s(%s)" % (kind, show_ty(t))
    if used:
        g = "forall<" + ", ".join("T%d" % p for p in used) + "> { " + g + " }"
    return g


FIXED_GOALS = [("IsUpstream", ("TScalar", 0)), ("IsFullyVisible", ("TScalar", 0)), ("IsFullyVisible", ("TTuple", [("TScalar", 0), ("TAdt", 2, [])])),
               ("IsUpstream", ("TTuple", [("TAdt", 0, []), ("TScalar", 0)])), ("IsFullyVisible", ("TTuple", [])), ("IsLocal", ("TScalar", 1)),
               ("IsLocal", ("TTuple", [("TAdt", 0, []), ("TAdt", 0, [])])), ("IsFullyVisible", ("TTuple", [("TParam", 0), ("TScalar", 0)]))]


def evaluate(ctx, impls, goals, tag="main", emit=True, count=True):
    """impls: list of (upstream, args); goals: list of (kind, ty)."""
    violations = []
    cov = ctx.cov.setdefault("c20", {"impls": 0, "allowed": 0, "rejected": 0, "upstream_trait_impls": 0,
                                     "impls_with_builtin_args": 0, "goals": 0, "goals_yes": 0, "lower_errors": 0,
                                     "timeouts": 0})

    def report(rep, no_input=False):
        violations.append(rep)
        if emit and len(ctx.violations) < MAX_REPORTS:
            ctx.violation(rep, no_input=no_input)
        elif emit:
            cov["violations_not_reported_separately"] = cov.get("violations_not_reported_separately", 0) + 1

    # --- impls: programs of up to 12 impls each -------------------------------------------
    per = 12
    groups = [impls[i:i + per] for i in range(0, len(impls), per)]
    cases = [("Case", sx.Str(PRELUDE + "\n" + "\n".join(show_impl(u, a) for u, a in g)), 0, 0) for g in groups]
    outs = core.run_harness("coh", cases, args=["orphan"], timeout=ctx.n(200, 600)) if cases else []
    pairs_model, pairs_rule, where = [], [], []
    for gi, (g, o) in enumerate(zip(groups, outs)):
        if o is None or o == "Timeout":
            cov["timeouts"] += 1
            continue
        try:
            res = sx.parse_sexp(o)
        except ValueError:
            res = ("Unparsed", sx.Str(o[:200]))
        if sx.head(res) != "Orph" or not isinstance(res[1], list) or len(res[1]) != len(g):
            if sx.head(res) == "Orph" and sx.head(res[1]) == "LowerErr":
                cov["lower_errors"] += 1
                report({"kind": "generated program does not lower", "program": cases[gi][1], "error": str(res[1])[:300]}, no_input=True)
            else:
                report({"kind": "orphan check crashed or returned an unexpected result", "program": cases[gi][1], "result": str(res)[:400]})
            continue
        for (u, a), row in zip(g, res[1]):
            text = show_impl(u, a)
            single = PRELUDE + "\n" + text
            verdicts = [row[3], row[4]]
            builtin = any(h in sx.to_sexp(a) for h in ("TScalar", "TTuple"))
            if count:
                cov["impls"] += 1
                cov["upstream_trait_impls"] += 1 if u else 0
                cov["impls_with_builtin_args"] += 1 if builtin else 0
                cov["allowed" if verdicts[0] == "Allowed" else "rejected"] += 1
                ctx.count("impl", text, nontrivial=u)
                ctx.sample({"impl": text, "slg": str(verdicts[0]), "recursive": str(verdicts[1])}, limit=8)
            for sname, v in zip(("slg", "recursive"), verdicts):
                if v not in ("Allowed", "Rejected"):
                    report({"kind": "orphan check panicked", "program": single, "impl": text, "solver": sname, "result": str(v)[:300]})
                    continue
                pairs_model.append((model_input(u, a), v == "Allowed"))
                pairs_rule.append((model_input(u, a), v == "Allowed"))
                where.append((single, text, sname, str(v)))
    if pairs_model:
        bad_rule = set(core.coq_mismatches(ctx.work, tag + "_rule", IMPORTS, fn="orphan_rule_data", eqb="Bool.eqb",
                                           in_ty="oinput", out_ty="bool", pairs=pairs_rule))
        # the model of the check as each default solver runs it (size limit 10 / 30), and the recorded
        # size class as a Coq predicate on the input ("mismatch with false" = member)
        bad_model, in_class = set(), set()
        for sname, fn, cls in (("slg", "orphan_check_slg_data", "size_class_slg_data"),
                               ("recursive", "orphan_check_rec_data", "size_class_rec_data")):
            sel = [i for i, w in enumerate(where) if w[2] == sname]
            if not sel:
                continue
            bm = core.coq_mismatches(ctx.work, tag + "_model_" + sname, IMPORTS, fn=fn, eqb="Bool.eqb",
                                     in_ty="oinput", out_ty="bool", pairs=[pairs_model[i] for i in sel])
            bad_model |= set(sel[j] for j in bm)
            ic = core.coq_mismatches(ctx.work, tag + "_class_" + sname, IMPORTS, fn=cls, eqb="Bool.eqb",
                                     in_ty="oinput", out_ty="bool", pairs=[(pairs_model[i][0], False) for i in sel])
            in_class |= set(sel[j] for j in ic)
        cov["impl_runs_in_size_class"] = cov.get("impl_runs_in_size_class", 0) + len(in_class)
        ctx.cov["size_class_share"] = round(len(in_class) / max(1, len(pairs_model)), 3)
        for idx in sorted(bad_rule | bad_model):
            single, text, sname, v = where[idx]
            if idx in bad_rule and idx in in_class and idx not in bad_model:
                f = ctx.match_known(None, SIZE_CLASS)
                if f is not None:
                    cov["size_class_hits"] = cov.get("size_class_hits", 0) + 1
                    ctx.known_finding(f, "e.g. %s => %s (%s)" % (text, v, sname))
                    continue
            if idx in bad_rule:
                # the property itself fails on the implementation's output
                report({"kind": "orphan check disagrees with the orphan rule", "program": single, "impl": text, "solver": sname,
                        "real": v, "rule": "rejected" if v == "Allowed" else "allowed",
                        "model_agrees_with_real": idx not in bad_model, "in_size_class": idx in in_class})
            else:
                report({"kind": "model and implementation disagree", "program": single, "impl": text, "solver": sname, "real": v,
                        "broken": "correspondence orphan_check_{slg,rec}_data = perform_orphan_check (Rules/Orphan.v)"}, no_input=True)

    # --- single goals -------------------------------------------------------------------------
    perg = 25
    ggroups = [goals[i:i + perg] for i in range(0, len(goals), perg)]
    gcases = [("Goals", sx.Str(PRELUDE), [sx.Str(show_goal(k, t)) for k, t in g]) for g in ggroups]
    gouts = core.run_harness("coh", gcases, args=["goals"], timeout=ctx.n(200, 600)) if gcases else []
    gp_model, gp_rule, gwhere = [], [], []
    for g, o in zip(ggroups, gouts):
        if o is None or o == "Timeout":
            cov["timeouts"] += 1
            continue
        try:
            res = sx.parse_sexp(o)
        except ValueError:
            res = ("Unparsed", sx.Str(o[:200]))
        if sx.head(res) != "GoalsRes" or not isinstance(res[1], list) or len(res[1]) != len(g):
            report({"kind": "goal batch crashed or returned an unexpected result", "result": str(res)[:400]}, no_input=True)
            continue
        for (k, t), row in zip(g, res[1]):
            gt = show_goal(k, t)
            if count:
                cov["goals"] += 1
                cov["goals_yes"] += 1 if row[1] == "Yes" else 0
                ctx.count("goal", gt, nontrivial=True)
            for sname, v in zip(("slg", "recursive"), (row[1], row[2])):
                if v not in ("Yes", "No"):
                    report({"kind": "domain goal not decided", "program": PRELUDE, "goal": gt, "solver": sname, "result": str(v)[:300]})
                    continue
                gi = ("mkG", ADT_DECLS, (k, t))
                gp_model.append((gi, v == "Yes"))
                gp_rule.append((gi, v == "Yes"))
                gwhere.append((gt, sname, str(v)))
    if gp_model:
        bad_rule = set(core.coq_mismatches(ctx.work, tag + "_grule", IMPORTS, fn="expect_data", eqb="Bool.eqb",
                                           in_ty="ginput", out_ty="bool", pairs=gp_rule))
        bad_model = set(core.coq_mismatches(ctx.work, tag + "_gmodel", IMPORTS, fn="solve_data", eqb="Bool.eqb",
                                            in_ty="ginput", out_ty="bool", pairs=gp_model))
        # the recorded class is a Coq predicate on the input (known_class_data): "mismatch with false" = member
        in_class = set(core.coq_mismatches(ctx.work, tag + "_gclass", IMPORTS, fn="known_class_data", eqb="Bool.eqb",
                                           in_ty="ginput", out_ty="bool", pairs=[(a, False) for a, _ in gp_model]))
        cov["goals_in_known_class"] = cov.get("goals_in_known_class", 0) + len(in_class) // 2
        ctx.cov["known_class_share"] = round(len(in_class) / max(1, len(gp_model)), 3)
        for idx in sorted(bad_rule | bad_model):
            gt, sname, v = gwhere[idx]
            if idx in bad_rule and idx in in_class and idx not in bad_model:
                f = ctx.match_known(None, KNOWN_CLASS)
                if f is not None:
                    cov["known_class_hits"] = cov.get("known_class_hits", 0) + 1
                    ctx.known_finding(f, "e.g. %s => %s (%s)" % (gt, v, sname))
                    continue
            if idx in bad_rule:
                report({"kind": "domain goal disagrees with the structural predicate", "program": PRELUDE, "goal": gt,
                        "solver": sname, "real": v, "model_agrees_with_real": idx not in bad_model,
                        "in_known_class": idx in in_class})
            else:
                report({"kind": "model and implementation disagree", "program": PRELUDE, "goal": gt, "solver": sname, "real": v,
                        "broken": "correspondence solve_data = real solver on the generated clauses (Rules/Orphan.v)"}, no_input=True)
    return violations


THEOREMS = ["orphan_spec", "orphan_check_spec", "orphan_partial", "orphan_size_refuted", "fully_visible_spec", "local_spec", "upstream_partial", "upstream_refuted", "orphan_refuted"]


def run(ctx):
    ok, why = ctx.proof_stage("Props.C20", THEOREMS)
    core.build_harness(bins=["coh"])
    impls = list(FIXED)
    seen = set(show_impl(u, a) for u, a in impls)
    target = ctx.n(900, 9000)
    tries = 0
    while len(impls) < target and tries < 30 * target:
        tries += 1
        u, a = gen_impl(ctx.rng)
        s = show_impl(u, a)
        if s in seen:
            continue
        seen.add(s)
        impls.append((u, a))
    goals = list(FIXED_GOALS)
    gseen = set(show_goal(k, t) for k, t in goals)
    gtarget = ctx.n(400, 4000)
    tries = 0
    while len(goals) < gtarget and tries < 30 * gtarget:
        tries += 1
        k, t = gen_goal(ctx.rng)
        s = show_goal(k, t)
        if s in gseen:
            continue
        gseen.add(s)
        goals.append((k, t))
    ctx.cov["rule"] = ("per impl and solver: perform_orphan_check = orphan_rule_data (structural rule) = orphan_check_data "
                       "(clause model); per goal and solver: real answer = structural predicate = model evaluator")
    viol = evaluate(ctx, impls, goals)
    if not ok:
        ctx.violation({"kind": "proof", "broken": why}, no_input=True)


def replay(ctx, obj):
    core.build_harness(bins=["coh"])
    if obj.get("goal"):
        out = core.run_harness("coh", [("Goals", sx.Str(obj["program"]), [sx.Str(obj["goal"])])], args=["goals"], timeout=120)
        print("program:\n%s\ngoal: %s\nharness: %s" % (obj["program"], obj["goal"], out[0]))
        want = obj.get("real")
        res = sx.parse_sexp(out[0])
        now = [str(res[1][0][1]), str(res[1][0][2])]
        print("recorded answer (%s): %s; now: %s" % (obj.get("solver"), want, now))
        still = want in now
        print("still violating" if still else "answer changed on the current tree")
        return 1 if still else 0
    if obj.get("program"):
        out = core.run_harness("coh", [("Case", sx.Str(obj["program"]), 0, 0)], args=["orphan"], timeout=120)
        print("program:\n%s\nharness: %s" % (obj["program"], out[0]))
        res = sx.parse_sexp(out[0])
        row = res[1][-1] if isinstance(res[1], list) and res[1] else None
        now = [str(row[3]), str(row[4])] if row else []
        want = obj.get("real")
        print("recorded verdict (%s): %s; now: %s" % (obj.get("solver"), want, now))
        still = (want in now) if want else bool(row is None)
        print("still violating" if still else "verdict changed on the current tree")
        return 1 if still else 0
    print("replay: this record has no failing input (%s)" % obj.get("broken", obj.get("kind")))
    ok, why = ctx.proof_stage("Props.C20", THEOREMS)
    print("proof stage:", "ok" if ok else why)
    return 0 if ok else 1
