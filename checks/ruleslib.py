"""Shared pipeline of c05 / c08 (rule models Rules/Auto.v, Rules/Builtin.v).

For generated programs (vlib/rulegen.py) and closed goals `T: Trait`:
  1. the Coq well-formedness check `wf_full` of the model rendering (hypothesis of the theorems);
  2. the clauses the REAL code generates for the goal (`rules` harness:
     chalk_solve::clauses::program_clauses_for_goal), instantiated against the goal, are compared
     as a set of bodies with the model's `bodsR D atom` inside Coq (`same_bodies`), for the goals
     and — breadth first — for the body atoms they lead to;
  3. both real solvers (fresh solver per goal, `solve` harness, forked child, CPU limit) must answer
     Unique iff the verified evaluator `evalR` (theorem evalR_correct + the *_spec theorems) says
     true and NoSolution iff it says false;
  4. (c05) histories on ONE solver: the same, with the known class F7 for SLG."""
from __future__ import annotations

import collections

from vlib import core, logic, sx
from vlib import proggen as pg
from vlib import rulegen as rg

IMPORTS = ("Rules.Builtin",)
FUEL = 600
F7Q_CLASS = "F7q-slg-nested-coinductive-scc"


class Case:
    def __init__(self, pidx, prog, atom, origin):
        self.pidx, self.prog, self.atom, self.origin = pidx, prog, atom, origin
        self.forall_lt = False
        self.text = None
        self.real_bodies = None      # list of tuples of atoms | ("error", why)
        self.oracle = None           # True / False / None (inconclusive)
        self.answers = {}            # solver -> harness answer sx
        self.bodies_ok = None

    def key(self):
        return (self.prog.text, self.text)


def family_of(p, atom):
    t = p.trait(atom[0])
    if t.auto:
        return "auto"
    if t.coind:
        return "coinductive"
    if t.wk:
        return t.wk
    return "plain"


def gen_programs(ctx, profile, n_prog, n_goals):
    g = rg.Gen(ctx.rng, profile)
    progs, cases = [], []
    for i in range(n_prog):
        p = g.program()
        p.text = rg.to_text(p)
        p.model = rg.to_model(p)
        progs.append(p)
        goals = g.adt_goals(p)
        ctx.rng.shuffle(goals)
        goals = goals[:max(4, n_goals // 2)]
        for _ in range(n_goals):
            a = g.goal(p)
            if a not in goals:
                goals.append(a)
        if profile == "builtin":
            for a in g.bounded_goals(p, 4):
                if a not in goals:
                    goals.append(a)
        for a in goals:
            c = Case(i, p, a, "goal")
            c.forall_lt = ctx.rng.random() < 0.3
            c.text = rg.goal_text(a, c.forall_lt)
            cases.append(c)
    return progs, cases


def run_rules(cases, timeout=600):
    """fills c.real_bodies for every case"""
    by_prog = collections.OrderedDict()
    for c in cases:
        by_prog.setdefault(c.pidx, []).append(c)
    hc = [("Case", sx.Str(cs[0].prog.text), [sx.Str(c.text) for c in cs]) for cs in by_prog.values()]
    outs = core.run_harness("rules", hc, timeout=timeout)
    for cs, o in zip(by_prog.values(), outs):
        try:
            r = sx.parse_sexp(o) if o else ("Abort",)
        except ValueError:
            r = ("Abort",)
        if sx.head(r) != "Result":
            for c in cs:
                c.real_bodies = ("error", sx.to_sexp(r)[:300] if not isinstance(r, str) else r)
            continue
        for c, gr in zip(cs, r[1]):
            if sx.head(gr) != "Clauses":
                c.real_bodies = ("error", sx.to_sexp(gr)[:300])
                continue
            try:
                atom, bodies = rg.real_bodies(gr)
            except rg.Untranslatable as e:
                c.real_bodies = ("error", "untranslatable: %s" % e)
                continue
            if atom != c.atom:
                c.real_bodies = ("error", "goal atom read back differently: %r vs %r" % (atom, c.atom))
                continue
            c.real_bodies = bodies


def bodies_model(c):
    return [[rg.atom_model(b, c.prog) for b in body] for body in c.real_bodies]


def coq_batch(ctx, tag, progs, cases, extra=()):
    """ONE sharded Coq evaluation (startup dominates): wf_full of every program, same_bodies of
    every case with a translated clause dump, evalR of every case.  Returns (defs, wf codes)."""
    defs = {"D%d" % i: ("decls", p.model) for i, p in enumerate(progs)}
    exprs, slots = [], []
    by_prog = collections.defaultdict(list)
    for c in cases:
        by_prog[c.pidx].append(c)
    for i in range(len(progs)):
        d = "D%d" % i
        exprs.append(([d], logic.bb("wf_full %s" % d)))
        slots.append(("wf", i))
        for c in by_prog.get(i, []):
            a = sx.to_coq(rg.atom_model(c.atom, c.prog))
            if isinstance(c.real_bodies, list):
                exprs.append(([d], logic.bb("same_bodies (bodsR %s %s) %s" % (d, a, sx.to_coq(bodies_model(c))))))
                slots.append(("bod", c))
            exprs.append(([d], logic.ob("evalR %d %s %s" % (FUEL, d, a))))
            slots.append(("orc", c))
        for x in extra:
            # further expressions about program i: objects with .pidx, .expr (Coq, type N, over D<i>), result -> .code
            if x.pidx == i:
                exprs.append(([d], x.expr))
                slots.append(("extra", x))
    codes, fl = logic.coq_codes(ctx.work, tag, defs, exprs, shard=max(40, len(exprs) // core.NCPU + 1), imports=IMPORTS)
    if fl:
        raise core.CheckFailure("coq evaluation (wf_full / same_bodies / evalR) failed: %s" % (fl[0],))
    wf = {}
    for (kind, x), k in zip(slots, codes):
        if kind == "wf":
            wf[x] = k
        elif kind == "bod":
            x.bodies_ok = (k == 1)
        elif kind == "extra":
            x.code = k
        else:
            x.oracle = {0: False, 1: True}.get(k)
    return defs, wf


SOLVERS = (("slg", pg.SLG), ("rec", pg.REC))


def run_solvers(cases, cpu=5, timeout=900):
    by_prog = collections.OrderedDict()
    for c in cases:
        by_prog.setdefault(c.pidx, []).append(c)
    hc, meta = [], []
    for cs in by_prog.values():
        for sname, sv in SOLVERS:
            hc.append(pg.case(cs[0].prog.text, [c.text for c in cs], sv, "Fresh", [("Cpu", cpu)]))
            meta.append((cs, sname))
    res = logic.solve_cases(hc, timeout=timeout)
    for (cs, sname), r in zip(meta, res):
        for k, c in enumerate(cs):
            if not r["ok"]:
                c.answers[sname] = ("ProgramError", sx.Str((r["error"] or "")[:300]))
            elif r["goals"][k][0] == "error":
                c.answers[sname] = ("GoalError", sx.Str(r["goals"][k][1][:300]))
            else:
                c.answers[sname] = r["goals"][k][1]


def verdict_of(ans):
    """True = Unique (no region constraints expected), False = NoSolution, else a tag"""
    h = sx.head(ans)
    if h == "Unique":
        return True
    if h == "NoSolution":
        return False
    return h or str(ans)


def describe(c, extra=None):
    d = {"program": c.prog.text, "goal": c.text, "goal_atom": repr(c.atom), "oracle": c.oracle,
         "answers": {k: sx.to_sexp(v)[:300] for k, v in c.answers.items()},
         "model_decls": sx.to_coq(c.prog.model), "model_atom": sx.to_coq(rg.atom_model(c.atom, c.prog))}
    if isinstance(c.real_bodies, list):
        d["real_clause_bodies"] = [[rg.atom_text(b, rg._ivar, rg.LtCtx("'static")) for b in body] for body in c.real_bodies]
    if extra:
        d.update(extra)
    return d


def reach_size(ctx, defs, c):
    """largest term size in the model's reach set of the goal (decides whether an Ambiguous
    answer can be blamed on the solvers' max_size truncation)"""
    d = "D%d" % c.pidx
    e = ("match reach (bodsR %s) %d [%s] [] with Some R => fold_right (fun t m => N.max (tsize t) m) 0%%N R | None => 1000%%N end"
         % (d, FUEL, sx.to_coq(rg.atom_model(c.atom, c.prog))))
    codes, fl = logic.coq_codes(ctx.work, "rs%d" % id(c), defs, [([d], e)], imports=IMPORTS)
    return 1000 if fl else codes[0]


def main_pipeline(ctx, progs, cases, cpu=5, extra_exprs=()):
    """steps 1-3 of the module docstring on prepared programs / cases; returns (all cases, defs)"""
    import concurrent.futures
    import time
    t0 = time.time()
    # -- clause dumps of the real code, breadth first (depth 2) ------------------------------
    run_rules(cases)
    seen = {(c.pidx, c.atom) for c in cases}
    extra = []
    for c in cases:
        if isinstance(c.real_bodies, list) and c.origin == "goal":
            for body in c.real_bodies:
                for b in body:
                    if (c.pidx, b) not in seen and len(extra) < 2 * len(cases):
                        seen.add((c.pidx, b))
                        e = Case(c.pidx, c.prog, b, "body")
                        e.text = rg.goal_text(b, False)
                        extra.append(e)
    run_rules(extra)
    allc = cases + extra
    t1 = time.time()
    # -- model side (Coq) and the real solvers, side by side ---------------------------------
    with concurrent.futures.ThreadPoolExecutor(max_workers=2) as ex:
        f1 = ex.submit(coq_batch, ctx, "all", progs, allc, extra_exprs)
        f2 = ex.submit(run_solvers, allc, cpu)
        defs, wf = f1.result()
        t2 = time.time()
        f2.result()
    ctx.cov["phase_s"] = {"clause_dumps": round(t1 - t0, 1), "coq_batch": round(t2 - t1, 1), "solvers_after_coq": round(time.time() - t2, 1)}
    bad_wf = [i for i, k in wf.items() if k != 1]
    if bad_wf:
        # the generator promises well-formed declarations: a harness-side error, not a verdict on chalk
        raise core.CheckFailure("generator produced declarations that fail wf_full: %s" % progs[bad_wf[0]].text)
    return allc, defs


def judge(ctx, prop_id, progs, cases, defs):
    """compare; returns counters.  Reports violations through ctx."""
    cnt = collections.Counter()
    ctor_hist = collections.Counter()
    fam_hist = collections.Counter()
    clause_mismatch = []
    verdict_mismatch = []
    sampled = set()
    for c in cases:
        fam = family_of(c.prog, c.atom)
        fam_hist[fam] += 1
        ctor_hist[c.atom[1][0][0]] += 1
        # clause sets
        if isinstance(c.real_bodies, tuple):
            cnt["clauses_not_compared"] += 1
            cnt["why:" + c.real_bodies[1][:40]] += 1
        elif c.bodies_ok:
            cnt["clauses_equal"] += 1
        else:
            clause_mismatch.append(c)
        # verdicts
        if c.oracle is None:
            cnt["oracle_inconclusive"] += 1
            if len(ctx.cov.setdefault("inconclusive_samples", [])) < 3:
                ctx.cov["inconclusive_samples"].append({"program": c.prog.text, "goal": c.text})
            continue
        cnt["oracle_true" if c.oracle else "oracle_false"] += 1
        nontrivial = bool(rg.children(c.atom[1][0])) or c.atom[1][0][0] == "adt"
        for sname, _ in SOLVERS:
            v = verdict_of(c.answers.get(sname, "missing"))
            if v is True or v is False:
                ctx.count(fam, (sname,) + c.key(), nontrivial=nontrivial)
                if v != c.oracle:
                    verdict_mismatch.append((c, sname))
                elif sx.head(c.answers[sname]) == "Unique" and c.answers[sname][3] is True:
                    cnt["unique_with_region_constraints"] += 1
            elif v in ("Timeout", "Abort", "Skipped", "Panic", "GoalError", "ProgramError"):
                cnt["solver_" + v] += 1
                if v in ("GoalError", "ProgramError"):
                    raise core.CheckFailure("generated %s does not lower: %s\n%s\n%s" % (v, sx.to_sexp(c.answers[sname]), c.prog.text, c.text))
            else:
                # an Ambiguous answer to a closed goal: a violation unless type sizes reach max_size
                if reach_size(ctx, defs, c) > 9:
                    cnt["ambiguous_near_max_size"] += 1
                else:
                    verdict_mismatch.append((c, sname))
        if len(ctx.cov["samples"]) < 6 and nontrivial and c.origin == "goal" and c.pidx not in sampled and rg.chalk_size(c.atom[1][0]) >= 3:
            sampled.add(c.pidx)
            ctx.sample({"program": c.prog.text[:400], "goal": c.text, "oracle": c.oracle,
                        "slg": sx.to_sexp(c.answers.get("slg", "?"))[:60], "rec": sx.to_sexp(c.answers.get("rec", "?"))[:60]})

    # wrong answers of a FRESH SLG solver of the form "NoSolution for a goal that holds" may belong to the
    # known class F7q (decided in Coq on the input: program + goal); everything else is a violation
    known = {}
    sus = [(c, sname) for c, sname in verdict_mismatch
           if sname == "slg" and c.oracle is True and verdict_of(c.answers["slg"]) is False and ctx.match_known(None, F7Q_CLASS)]
    if sus:
        exprs = [(["D%d" % c.pidx], logic.bb("f7q_class %d (bodsR D%d) (isco (coD D%d)) %s" % (FUEL, c.pidx, c.pidx, sx.to_coq(rg.atom_model(c.atom, c.prog)))))
                 for c, _ in sus]
        codes, fl = logic.coq_codes(ctx.work, "f7q", defs, exprs, shard=max(10, len(exprs) // core.NCPU + 1), imports=IMPORTS)
        if fl:
            raise core.CheckFailure("coq evaluation of f7q_class failed: %s" % (fl[0],))
        for (c, sname), k in zip(sus, codes):
            if k == 1:
                known[(id(c), sname)] = True
    reported = 0
    for c, sname in verdict_mismatch:
        if known.get((id(c), sname)):
            cnt["known_F7q"] += 1
            ctx.known_finding(ctx.match_known(None, F7Q_CLASS), c.text + "  in  " + " ".join(c.prog.text.split())[:300])
            continue
        cnt["violations"] += 1
        if reported < 5:
            reported += 1
            ctx.violation(describe(c, {"kind": "wrong-answer", "solver": sname,
                                       "relation": "solver answer must be Unique iff evalR = Some true, NoSolution iff Some false "
                                                   "(evalR_correct + %s)" % ("auto_clauses_spec" if prop_id == "C05" else "sized/copy/clone/tuple/fnptr_spec")}))
    if clause_mismatch and not cnt["violations"]:
        c = clause_mismatch[0]
        ctx.violation(describe(c, {"kind": "correspondence",
                                   "broken": "same_bodies (bodsR D atom) <clauses of program_clauses_for_goal> = false: the clause model "
                                             "(Rules/Auto.v push_auto_trait_impls / Rules/Builtin.v add_builtin_program_clauses) no longer "
                                             "describes the code; no goal of this run is answered against the rule system",
                                   "mismatches": len(clause_mismatch)}), no_input=True)
    cnt["clause_mismatch"] = len(clause_mismatch)
    cnt["verdict_mismatch"] = len(verdict_mismatch)
    return cnt, fam_hist, ctor_hist


def replay_case(ctx, obj):
    core.build_harness(bins=["solve"])
    cases = [pg.case(obj["program"], [obj["goal"]], sv, "Fresh", [("Cpu", 10)]) for _, sv in SOLVERS]
    res = logic.solve_cases(cases, timeout=120)
    for (sname, _), r in zip(SOLVERS, res):
        print(sname + ":", r["error"] if not r["ok"] else sx.to_sexp(r["goals"][0][1]) if r["goals"][0][0] != "error" else r["goals"][0][1])
    if "model_decls" in obj and "model_atom" in obj:
        codes, fl = logic.coq_codes(ctx.work, "replay", {}, [([], logic.ob("evalR %d %s %s" % (FUEL, obj["model_decls"], obj["model_atom"])))], imports=IMPORTS)
        print("oracle (0 = false, 1 = true, 2 = inconclusive):", codes[0] if not fl else fl)
        exp = {0: "NoSolution", 1: "Unique"}.get(codes[0]) if not fl else None
        if exp:
            bad = [s for (s, _), r in zip(SOLVERS, res) if r["ok"] and r["goals"][0][0] != "error" and sx.head(r["goals"][0][1]) != exp]
            return 1 if bad else 0
    return 0
