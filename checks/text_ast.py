"""Abstract ASTs of Text/LowerFail.v in the shared data syntax (vlib.sx), a pretty printer to
`.chalk` source that the real parser maps back to exactly that AST, and a random generator of
programs with semantic errors (C24 stream c)."""
from __future__ import annotations

from vlib.sx import Nat, Pair

SELF, FIXME_SELF = 0, 1


# ---------------------------------------------------------------------------------------
# printer
# ---------------------------------------------------------------------------------------

def name(n: int) -> str:
    if n == SELF:
        return "Self"
    if n == FIXME_SELF:
        return "__FIXME_SELF__"
    if n >= 1000:
        return "'l%d" % n
    return "N%d" % n


def p_vk(v) -> str:
    k, n = v
    return {"KTy": "", "KLt": "", "KConst": "const "}[k] + name(n)


def p_vks(vks, always=False) -> str:
    if not vks and not always:
        return ""
    return "<" + ", ".join(p_vk(v) for v in vks) + ">"


def p_lt(l) -> str:
    if l == "LStatic":
        return "'static"
    if l == "LErased":
        return "'erased"
    return name(l[1])


def p_const(c) -> str:
    return "3" if c == "CVal" else name(c[1])


def p_garg(a) -> str:
    h = a[0]
    if h == "GTy":
        return p_ty(a[1])
    if h == "GLt":
        return p_lt(a[1])
    if h == "GId":
        return name(a[1])
    return p_const(a[1])


def p_args(args, always=False) -> str:
    if not args and not always:
        return ""
    return "<" + ", ".join(p_garg(a) for a in args) + ">"


def p_qib(b) -> str:
    vks = b[1]
    pre = ("forall" + p_vks(vks, True) + " ") if vks else ""
    if b[0] == "QIBTrait":
        return pre + name(b[2]) + p_args(b[3])
    _, _, tr, args, nm, aargs, value = b
    inner = "".join(p_garg(a) + ", " for a in args) + name(nm) + p_args(aargs) + " = " + p_ty(value)
    return pre + name(tr) + "<" + inner + ">"


def p_proj(tr, self, targs, nm, args) -> str:
    return "<" + p_ty(self) + " as " + name(tr) + p_args(targs) + ">::" + name(nm) + p_args(args)


def p_ty(t) -> str:
    if isinstance(t, str):
        return {"TScalar": "u8", "TStr": "str", "TNever": "!"}[t]
    h = t[0]
    if h == "TId":
        return name(t[1])
    if h == "TApply":
        return name(t[1]) + p_args(t[2], True)
    if h == "TDyn":
        return "dyn " + " + ".join(p_qib(b) for b in t[1]) + " + " + p_lt(t[2])
    if h == "TProj":
        return p_proj(*t[1:])
    if h == "TFn":
        _, lts, tys, abi_ok = t
        pre = ("for<" + ", ".join(name(n) for n in lts) + "> ") if lts else ""
        abi = "" if abi_ok else 'extern "Foo" '
        return pre + abi + "fn(" + ", ".join(p_ty(x) for x in tys[:-1]) + ") -> " + p_ty(tys[-1])
    if h == "TTuple":
        ts = t[1]
        if len(ts) == 1:
            return "(" + p_ty(ts[0]) + ",)"
        return "(" + ", ".join(p_ty(x) for x in ts) + ")"
    if h == "TSlice":
        return "[" + p_ty(t[1]) + "]"
    if h == "TArray":
        return "[" + p_ty(t[1]) + "; " + p_const(t[2]) + "]"
    if h == "TRaw":
        return "*const " + p_ty(t[1])
    if h == "TRef":
        return "&" + p_lt(t[1]) + " " + p_ty(t[2])
    raise ValueError(t)


def p_wc(w) -> str:
    h = w[0]
    if h == "WImpl":
        return p_ty(w[2]) + ": " + name(w[1]) + p_args(w[3])
    if h == "WProjEq":
        _, tr, self, targs, nm, args, t = w
        inner = "".join(p_garg(a) + ", " for a in targs) + name(nm) + p_args(args) + " = " + p_ty(t)
        return p_ty(self) + ": " + name(tr) + "<" + inner + ">"
    if h == "WLtOut":
        return p_lt(w[1]) + ": " + p_lt(w[2])
    return p_ty(w[1]) + ": " + p_lt(w[2])


def p_qwc(q) -> str:
    vks, w = q
    return (("forall" + p_vks(vks, True) + " ") if vks else "") + p_wc(w)


def p_where(wcs) -> str:
    return (" where " + ", ".join(p_qwc(q) for q in wcs)) if wcs else ""


def p_dgoal(d) -> str:
    if d == "DTrivial":
        return "Compatible"
    h = d[0]
    if h == "DHolds":
        return p_wc(d[1])
    if h == "DNormalize":
        return "Normalize(" + p_proj(*d[1:6]) + " -> " + p_ty(d[6]) + ")"
    if h == "DTy":
        return "IsLocal(" + p_ty(d[1]) + ")"
    if h == "DTraitRef":
        return "FromEnv(" + p_ty(d[2]) + ": " + name(d[1]) + p_args(d[3]) + ")"
    return "ObjectSafe(" + name(d[1]) + ")"


def p_goal(g) -> str:
    h = g[0]
    if h == "GQuant":
        return "forall" + p_vks(g[1], True) + " { " + p_goal(g[2]) + " }"
    if h == "GImplies":
        return "if (" + "; ".join(p_inline_clause(c) for c in g[1]) + ") { " + p_goal(g[2]) + " }"
    if h == "GAnd":
        return "(" + ", ".join(p_goal(x) for x in [g[1]] + list(g[2])) + ")"
    if h == "GWrap":
        return "not { " + p_goal(g[1]) + " }"
    if h == "GLeaf":
        return p_dgoal(g[1])
    if h == "GUnify":
        return p_garg(g[1]) + " = " + p_garg(g[2])
    return "Subtype(" + p_ty(g[1]) + ", " + p_ty(g[2]) + ")"


def p_inline_clause(c) -> str:
    _, vks, d, conds = c
    body = p_dgoal(d) + ((" :- " + ", ".join(p_goal(x) for x in conds)) if conds else "")
    return ("forall" + p_vks(vks, True) + " { " + body + " }") if vks else body


def p_item(it) -> str:
    h = it[0]
    if h == "IAdt":
        _, nm, vks, fundamental, variances, variants, wcs, repr_int = it
        pre = ""
        if variances != "None":
            pre += "#[variance(" + ", ".join(["Invariant"] * int(variances[1])) + ")] "
        if fundamental:
            pre += "#[fundamental] "
        if repr_int != "None":
            pre += "#[repr(u8)] "
        if len(variants) == 1 and repr_int == "None":
            body = ", ".join("f%d: %s" % (i, p_ty(t)) for i, t in enumerate(variants[0]))
            return pre + "struct " + name(nm) + p_vks(vks) + p_where(wcs) + " { " + body + " }"
        body = ", ".join("V%d { %s }" % (k, ", ".join("f%d: %s" % (i, p_ty(t)) for i, t in enumerate(v)))
                         for k, v in enumerate(variants))
        return pre + "enum " + name(nm) + p_vks(vks) + p_where(wcs) + " { " + body + " }"
    if h == "IFn":
        _, nm, vks, wcs, args, ret, abi_ok, variances = it
        pre = ""
        if variances != "None":
            pre += "#[variance(" + ", ".join(["Covariant"] * int(variances[1])) + ")] "
        if not abi_ok:
            pre += 'extern "Foo" '
        return (pre + "fn " + name(nm) + p_vks(vks) + "(" + ", ".join("a%d: %s" % (i, p_ty(t)) for i, t in enumerate(args))
                + ") -> " + p_ty(ret) + p_where(wcs) + ";")
    if h == "IClosure":
        _, nm, vks, args, ret, upvars = it
        return ("closure " + name(nm) + p_vks(vks) + "(self, " + ", ".join("a%d: %s" % (i, p_ty(t)) for i, t in enumerate(args))
                + ") -> " + p_ty(ret) + " { " + "; ".join(p_ty(t) for t in upvars) + " }")
    if h == "ITrait":
        _, nm, vks, auto, wcs, assocs = it
        body = " ".join(
            "type " + name(a[1]) + p_vks(a[2]) + ((": " + " + ".join(p_qib(b) for b in a[3])) if a[3] else "") + p_where(a[4]) + ";"
            for a in assocs)
        return ("#[auto] " if auto else "") + "trait " + name(nm) + p_vks(vks) + p_where(wcs) + " { " + body + " }"
    if h == "IOpaque":
        _, nm, vks, bounds, wcs, hidden = it
        return ("opaque type " + name(nm) + p_vks(vks) + ((": " + " + ".join(p_qib(b) for b in bounds)) if bounds else "")
                + p_where(wcs) + " = " + p_ty(hidden) + ";")
    if h == "ICoroutine":
        _, nm, vks, upvars, resume, yld, ret, wlts, wtys = it
        ex = ("exists<" + ", ".join(name(n) for n in wlts) + "> ") if wlts else ""
        return ("coroutine " + name(nm) + p_vks(vks) + "[resume = " + p_ty(resume) + ", yield = " + p_ty(yld) + "] -> " + p_ty(ret)
                + " { upvars [" + "; ".join(p_ty(t) for t in upvars) + "] witnesses " + ex + "[" + "; ".join(p_ty(t) for t in wtys) + "] }")
    if h == "IImpl":
        _, vks, positive, tr, self, args, wcs, atvs = it
        body = " ".join("type " + name(a[1]) + p_vks(a[2]) + " = " + p_ty(a[3]) + ";" for a in atvs)
        return ("impl" + p_vks(vks) + " " + ("" if positive else "!") + name(tr) + p_args(args) + " for " + p_ty(self)
                + p_where(wcs) + " { " + body + " }")
    if h == "IClause":
        _, vks, d, conds = it[1]
        return ("forall" + p_vks(vks) + " { " + p_dgoal(d) + ((" if " + ", ".join(p_goal(x) for x in conds)) if conds else "") + " }")
    if h == "IForeign":
        return "extern type " + name(it[1]) + ";"
    raise ValueError(it)


def p_program(items) -> str:
    return "\n".join(p_item(i) for i in items)


# ---------------------------------------------------------------------------------------
# generator
# ---------------------------------------------------------------------------------------

KINDS = ["KTy", "KLt", "KConst"]


class Gen:
    """Random programs over a small pool of names, so that duplicate items, clashes between
    namespaces, unknown names, wrong arities and wrong kinds all occur; `err` is the
    probability of a deliberately wrong choice at each reference."""

    def __init__(self, rng, err=0.12, focus=None):
        self.r = rng
        self.err = err
        self.focus = focus
        self.item_names = list(range(10, 19))
        self.assoc_names = list(range(30, 34))
        self.param_names = list(range(40, 46))
        self.lt_names = list(range(1000, 1004))

    # -- helpers --------------------------------------------------------------------------
    def bad(self):
        return self.r.random() < self.err

    def vks(self, maxn=3, allow_dup=True):
        n = self.r.choice([0, 0, 1, 1, 2, maxn])
        out = []
        for _ in range(n):
            k = self.r.choice(["KTy", "KTy", "KTy", "KLt", "KConst"])
            if k == "KLt":
                nm = self.r.choice(self.lt_names)
            else:
                nm = self.r.choice(self.param_names)
                if self.bad() and self.r.random() < 0.3:
                    nm = self.r.choice([SELF, FIXME_SELF] + self.item_names[:3])
            out.append(Pair(k, nm))
        if not allow_dup or not self.bad():
            seen, ded = set(), []
            for v in out:
                if v[1] not in seen:
                    seen.add(v[1])
                    ded.append(v)
            out = ded
        return out

    def scope_names(self, scope, kind):
        return [n for (k, n) in scope if k == kind]

    def lifetime(self, scope):
        lts = self.scope_names(scope, "KLt")
        if lts and not self.bad():
            return ("LId", self.r.choice(lts))
        c = self.r.random()
        if c < 0.5:
            return "LStatic"
        if c < 0.6:
            return "LErased"
        return ("LId", self.r.choice(self.lt_names))

    def konst(self, scope):
        cs = self.scope_names(scope, "KConst")
        if cs and self.r.random() < 0.6:
            return ("CId", self.r.choice(cs))
        if self.bad():
            return ("CId", self.r.choice(self.param_names + self.item_names))
        return "CVal"

    def garg_of_kind(self, kind, scope, depth):
        """A generic argument of (usually) the requested kind."""
        if self.bad():
            kind = self.r.choice(KINDS)
        if kind == "KLt":
            return ("GLt", self.lifetime(scope))
        if kind == "KConst":
            cs = self.scope_names(scope, "KConst")
            if cs and self.r.random() < 0.6:
                return ("GId", self.r.choice(cs))
            return ("GConst", "CVal")
        t = self.ty(scope, depth)
        if isinstance(t, tuple) and t[0] == "TId":
            return ("GId", t[1])            # the parser yields GenericArg::Id for a bare name
        return ("GTy", t)

    def args_for(self, kinds, scope, depth):
        ks = list(kinds)
        if self.bad():
            if ks and self.r.random() < 0.5:
                ks.pop()
            else:
                ks.append(self.r.choice(KINDS))
        return [self.garg_of_kind(k, scope, depth) for k in ks]

    def pick_trait(self):
        if self.traits and not self.bad():
            return self.r.choice(sorted(self.traits))
        return self.r.choice(self.item_names + self.param_names[:2])

    def trait_kinds(self, tr):
        return self.traits.get(tr, ([], {}))[0]

    def trait_ref(self, scope, depth, self_ty=None):
        tr = self.pick_trait()
        args = self.args_for(self.trait_kinds(tr), scope, depth)
        return tr, (self_ty if self_ty is not None else self.ty(scope, depth)), args

    def assoc_of(self, tr):
        assocs = self.traits.get(tr, ([], {}))[1]
        if assocs and not self.bad():
            nm = self.r.choice(sorted(assocs))
            return nm, assocs[nm]
        return self.r.choice(self.assoc_names), []

    def qib(self, scope, depth):
        vks = self.vks(2) if self.r.random() < 0.2 else []
        sc = scope + [tuple(v) for v in vks]
        tr = self.pick_trait()
        args = self.args_for(self.trait_kinds(tr), sc, depth)
        if self.r.random() < 0.3:
            nm, aks = self.assoc_of(tr)
            return ("QIBAlias", vks, tr, args, nm, self.args_for(aks, sc, depth), self.ty(sc, depth))
        return ("QIBTrait", vks, tr, args)

    def bounds(self, scope, depth, maxn=2):
        return [self.qib(scope, depth) for _ in range(self.r.randint(0, maxn))]

    def ty(self, scope, depth=2):
        r = self.r
        tys = self.scope_names(scope, "KTy")
        c = r.random()
        if depth <= 0 or c < 0.22:
            if tys and r.random() < 0.6:
                return ("TId", r.choice(tys))
            if self.bad():
                return ("TId", r.choice(self.item_names + self.param_names + self.scope_names(scope, "KConst")[:1]))
            nullary = [n for n, ks in self.appliable.items() if not ks]
            if nullary and r.random() < 0.7:
                return ("TId", r.choice(sorted(nullary)))
            return r.choice(["TScalar", "TScalar", "TStr", "TNever"])
        if c < 0.5:
            if self.appliable and not self.bad():
                n = r.choice(sorted(self.appliable))
                ks = self.appliable[n]
            else:
                n = r.choice(self.item_names + tys[:1])
                ks = [r.choice(KINDS) for _ in range(r.randint(0, 2))]
            args = self.args_for(ks, scope, depth - 1)
            if not args and r.random() < 0.8:
                return ("TId", n)
            return ("TApply", n, args)
        if c < 0.58:
            return ("TTuple", [self.ty(scope, depth - 1) for _ in range(r.randint(0, 3))])
        if c < 0.66:
            return ("TRef", self.lifetime(scope), self.ty(scope, depth - 1))
        if c < 0.70:
            return ("TRaw", self.ty(scope, depth - 1))
        if c < 0.74:
            return ("TSlice", self.ty(scope, depth - 1))
        if c < 0.79:
            return ("TArray", self.ty(scope, depth - 1), self.konst(scope))
        if c < 0.86:
            lts = [] if r.random() < 0.5 else r.sample(self.lt_names, r.randint(1, 2))
            if lts and self.bad():
                lts = lts + [lts[0]]
            sc = scope + [("KLt", n) for n in lts]
            tys_ = [self.ty(sc, depth - 1) for _ in range(r.randint(1, 3))]
            return ("TFn", lts, tys_, not (self.bad() and r.random() < 0.4))
        if c < 0.93:
            bs = self.bounds(scope + [("KTy", FIXME_SELF)], depth - 1, 2) or [self.qib(scope + [("KTy", FIXME_SELF)], depth - 1)]
            return ("TDyn", bs, self.lifetime(scope))
        tr, self_ty, targs = self.trait_ref(scope, depth - 1)
        nm, aks = self.assoc_of(tr)
        return ("TProj", tr, self_ty, targs, nm, self.args_for(aks, scope, depth - 1))

    def wc(self, scope, depth=2):
        r = self.r
        c = r.random()
        if c < 0.55:
            tr, s, a = self.trait_ref(scope, depth)
            return ("WImpl", tr, s, a)
        if c < 0.75:
            tr, s, a = self.trait_ref(scope, depth)
            nm, aks = self.assoc_of(tr)
            return ("WProjEq", tr, s, a, nm, self.args_for(aks, scope, depth), self.ty(scope, depth))
        if c < 0.85:
            return ("WLtOut", self.lifetime(scope), self.lifetime(scope))
        return ("WTyOut", self.ty(scope, depth), self.lifetime(scope))

    def qwcs(self, scope, maxn=2):
        out = []
        for _ in range(self.r.choice([0, 0, 1, maxn])):
            vks = self.vks(2) if self.r.random() < 0.2 else []
            out.append(Pair(vks, self.wc(scope + [tuple(v) for v in vks])))
        return out

    def dgoal(self, scope):
        r = self.r
        c = r.random()
        if c < 0.45:
            return ("DHolds", self.wc(scope, 1))
        if c < 0.55:
            tr, s, a = self.trait_ref(scope, 1)
            nm, aks = self.assoc_of(tr)
            return ("DNormalize", tr, s, a, nm, self.args_for(aks, scope, 1), self.ty(scope, 1))
        if c < 0.7:
            return ("DTy", self.ty(scope, 2))
        if c < 0.8:
            tr, s, a = self.trait_ref(scope, 1)
            return ("DTraitRef", tr, s, a)
        if c < 0.9:
            return "DTrivial"
        return ("DObjectSafe", self.pick_trait())

    def goal(self, scope, depth=2):
        r = self.r
        c = r.random()
        if depth <= 0 or c < 0.35:
            c2 = r.random()
            if c2 < 0.7:
                return ("GLeaf", self.dgoal(scope))
            if c2 < 0.85:
                return ("GUnify", self.garg_of_kind(r.choice(KINDS), scope, 1), self.garg_of_kind(r.choice(KINDS), scope, 1))
            return ("GSubtype", self.ty(scope, 1), self.ty(scope, 1))
        if c < 0.6:
            vks = self.vks(2)
            return ("GQuant", vks, self.goal(scope + [tuple(v) for v in vks], depth - 1))
        if c < 0.75:
            return ("GImplies", [self.clause(scope, depth - 1) for _ in range(r.randint(1, 2))], self.goal(scope, depth - 1))
        if c < 0.9:
            return ("GAnd", self.goal(scope, depth - 1), [self.goal(scope, depth - 1) for _ in range(r.randint(1, 2))])
        return ("GWrap", self.goal(scope, depth - 1))

    def clause(self, scope, depth=1):
        vks = self.vks(2) if self.r.random() < 0.4 else []
        sc = scope + [tuple(v) for v in vks]
        return ("Clause", vks, self.dgoal(sc), [self.goal(sc, depth) for _ in range(self.r.choice([0, 0, 1, 2]))])

    # -- programs -----------------------------------------------------------------------------
    def program(self, nitems=None):
        r = self.r
        n = nitems or r.randint(1, 6)
        kinds = []
        for _ in range(n):
            kinds.append(r.choice(["IAdt", "IAdt", "ITrait", "ITrait", "IImpl", "IImpl", "IFn", "IOpaque",
                                   "IClosure", "ICoroutine", "IClause", "IForeign"]))
        if "ITrait" not in kinds:
            kinds[0] = "ITrait"
        # headers first: later items may refer to earlier and later ones
        headers = []
        self.traits, self.appliable = {}, {}
        self.foreign, self.opaque = set(), {}
        for k in kinds:
            nm = r.choice(self.item_names)
            vks = self.vks(3)
            headers.append((k, nm, vks))
            ks = [v[0] for v in vks]
            if k == "ITrait":
                assocs = {}
                for _ in range(r.choice([0, 0, 1, 2])):
                    assocs[r.choice(self.assoc_names)] = None
                self.traits[nm] = (ks, assocs)
            elif k in ("IAdt", "IFn", "IClosure", "ICoroutine", "IOpaque"):
                self.appliable[nm] = ks
            elif k == "IForeign":
                self.appliable[nm] = []
        # associated type headers
        assoc_vks = {}
        for k, nm, vks in headers:
            if k == "ITrait":
                for an in list(self.traits[nm][1]):
                    avks = self.vks(2)
                    assoc_vks[(nm, an)] = avks
                    self.traits[nm][1][an] = [v[0] for v in avks]
        items = []
        for k, nm, vks in headers:
            sc = [tuple(v) for v in vks]
            if k == "IAdt":
                nvar = r.choice([1, 1, 1, 0, 2])
                variants = [[self.ty(sc) for _ in range(r.randint(0, 2))] for _ in range(nvar)]
                variances = "None"
                if r.random() < 0.25:
                    variances = ("Some", Nat(len(vks) if not self.bad() else len(vks) + 1))
                fundamental = r.random() < (0.15 if vks else 0.05)
                repr_int = ("Some", "TScalar") if (nvar != 1 and r.random() < 0.2) else "None"
                items.append(("IAdt", nm, vks, fundamental, variances, variants, self.qwcs(sc), repr_int))
            elif k == "IFn":
                variances = ("Some", Nat(len(vks) if not self.bad() else len(vks) + 2)) if r.random() < 0.2 else "None"
                items.append(("IFn", nm, vks, self.qwcs(sc), [self.ty(sc) for _ in range(r.randint(0, 2))], self.ty(sc),
                              not (self.bad() and r.random() < 0.5), variances))
            elif k == "IClosure":
                items.append(("IClosure", nm, vks, [self.ty(sc) for _ in range(r.randint(0, 2))], self.ty(sc),
                              [self.ty(sc) for _ in range(r.randint(0, 2))]))
            elif k == "ITrait":
                auto = r.random() < 0.15
                tsc = [("KTy", SELF)] + sc
                assocs = []
                for an in self.traits[nm][1]:
                    avks = assoc_vks[(nm, an)]
                    asc = tsc + [tuple(v) for v in avks]
                    assocs.append(("Build_assoc_defn", an, avks, self.bounds(asc, 1, 2), self.qwcs(asc, 1)))
                if auto and not self.bad():
                    vks, assocs, wcs = [], [], []
                    self.traits[nm] = ([], {})
                else:
                    wcs = self.qwcs(tsc)
                items.append(("ITrait", nm, vks, auto, wcs, assocs))
            elif k == "IOpaque":
                osc = sc + [("KTy", FIXME_SELF)]
                items.append(("IOpaque", nm, vks, self.bounds(osc, 1, 2), self.qwcs(osc, 1), self.ty(sc)))
            elif k == "ICoroutine":
                wl = r.sample(self.lt_names, r.randint(0, 2))
                wsc = sc + [("KLt", n) for n in wl]
                items.append(("ICoroutine", nm, vks, [self.ty(sc, 1) for _ in range(r.randint(0, 2))], self.ty(sc, 1), self.ty(sc, 1),
                              self.ty(sc, 1), wl, [self.ty(wsc, 1) for _ in range(r.randint(0, 2))]))
            elif k == "IImpl":
                tr, self_ty, args = self.trait_ref(sc, 2)
                positive = r.random() < 0.85
                atvs = []
                declared = self.traits.get(tr, ([], {}))[1]
                names = list(declared) if (positive or self.bad()) else []
                if self.bad():
                    names.append(r.choice(self.assoc_names))
                for an in names:
                    avks = self.vks(2)
                    atvs.append(("Build_atv", an, avks, self.ty(sc + [tuple(v) for v in avks], 2)))
                items.append(("IImpl", vks, positive, tr, self_ty, args, self.qwcs(sc), atvs))
            elif k == "IClause":
                items.append(("IClause", self.clause([], 1)))
            elif k == "IForeign":
                items.append(("IForeign", nm))
        return items

    def goals(self, n=2):
        return [self.goal([], 2) for _ in range(n)]
