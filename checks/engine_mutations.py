#!/usr/bin/env python3
"""Mutation set used to validate c09..c12 (not a check; never imported).  Needs a worktree:
  git -C /repo worktree add --detach /var/tmp/eng-mut HEAD ; python3 checks/engine_mutations.py <name> C10 ...
and afterwards: git -C /repo worktree remove --force /var/tmp/eng-mut; rm -rf /verif/build/*-<hash>."""
import json, os, subprocess, sys, glob, hashlib

WT = "/var/tmp/eng-mut"

def rep(path, old, new, cnt=1):
    p = os.path.join(WT, path)
    s = open(p).read()
    assert s.count(old) == cnt, (path, s.count(old), old[:60])
    open(p, "w").write(s.replace(old, new))

MUT = {}
def mut(f):
    MUT[f.__name__] = f
    return f

@mut
def revert_f4():
    rep("chalk-recursive/src/fixed_point.rs", "        self.stack.clear();\n        self.search_graph.clear();\n",
        "        assert!(self.stack.verif_is_empty());\n")
    rep("chalk-recursive/src/fixed_point/stack.rs", "    pub(super) fn clear(&mut self) {\n        self.entries.clear();\n    }\n",
        "    pub(super) fn verif_is_empty(&self) -> bool {\n        self.entries.is_empty()\n    }\n")

@mut
def revert_f3():
    rep("chalk-recursive/src/fixed_point.rs", "                    Some(cache) if !interrupted => {", "                    Some(cache) if !interrupted || true => {")

@mut
def revert_f15():
    rep("chalk-recursive/src/fixed_point.rs", "                if old_answer != self.search_graph[dfn].solution {", "                if false && old_answer != self.search_graph[dfn].solution {")

@mut
def revert_f12():
    rep("chalk-engine/src/logic.rs", "                    self.stack.top().active_strand = Some(canonical_strand.clone());\n                    let selection", "                    let selection")
    rep("chalk-engine/src/logic.rs", "            self.stack.top().active_strand = Some(canonical_strand);\n            match self.merge_answer_into_strand",
        "            drop(canonical_strand);\n            match self.merge_answer_into_strand")

@mut
def revert_f28():
    rep("chalk-recursive/src/fulfill.rs", "} = self.prove(goal, minimums, should_continue.clone())?;", "} = self.prove(goal, minimums, should_continue.clone()).unwrap();")

@mut
def revert_f29():
    rep("chalk-engine/src/logic.rs", "                let conditional = !answer.subst.value.delayed_subgoals.is_empty();\n",
        "                if !answer.subst.value.delayed_subgoals.is_empty() { panic!(\"Negative subgoal had delayed_subgoals\"); }\n                let conditional = false;\n")

@mut
def fixed_point_wrong():
    # reached_fixed_point is given the new answer twice: the loop always stops after one iteration
    rep("chalk-recursive/src/fixed_point.rs", "            if solver_stuff.reached_fixed_point(&old_answer, &self.search_graph[dfn].solution) {",
        "            if solver_stuff.reached_fixed_point(&self.search_graph[dfn].solution, &self.search_graph[dfn].solution) {")

@mut
def fixed_point_wrong_solver():
    # the solver-specific reached_fixed_point of the real recursive solver ignores the old answer
    rep("chalk-recursive/src/recursive.rs", "        old_answer == current_answer || {", "        current_answer == current_answer || {")

@mut
def cache_without_env():
    # a second cache keyed by the goal WITHOUT its environment
    rep("chalk-recursive/src/recursive.rs", """        self.context
            .solve_goal(&goal, minimums, self.program, should_continue)
    }""", """        use chalk_ir::{Environment, InEnvironment};
        use std::cell::RefCell;
        use std::collections::HashMap;
        thread_local! { static NOENV: RefCell<HashMap<String, String>> = RefCell::new(HashMap::new()); }
        let interner = self.program.interner();
        let mut key_goal = goal.clone();
        key_goal.canonical.value = InEnvironment::new(&Environment::new(interner), goal.canonical.value.goal.clone());
        let key = format!("{:?}", key_goal);
        let hit = NOENV.with(|m| m.borrow().get(&key).cloned());
        let r = self.context.solve_goal(&goal, minimums, self.program, should_continue);
        let shown = format!("{:?}", r);
        if let Some(prev) = hit {
            if prev == "Err(NoSolution)" && shown != prev { return Err(chalk_ir::NoSolution); }
        } else {
            NOENV.with(|m| m.borrow_mut().insert(key, shown));
        }
        r
    }""")

@mut
def minimums_ignored():
    # a node is promoted to the cache although it depends on a node below it on the stack
    rep("chalk-recursive/src/fixed_point.rs", "            if subgoal_minimums.positive >= dfn {", "            if true || subgoal_minimums.positive >= dfn {")

@mut
def slg_drop_requeue():
    # Drop for SolveState no longer re-enqueues the active strand
    rep("chalk-engine/src/logic.rs", "                self.forest.tables[table].enqueue_strand(active_strand);\n            }\n            self.unwind_stack();",
        "                let _ = (table, active_strand);\n            }\n            self.unwind_stack();")

@mut
def links_only_on_stack():
    # seeded change /tmp/seed-c05/out/1: the links of a found node are only propagated when it is still on the stack
    rep("chalk-recursive/src/fixed_point.rs", """                    return solver_stuff.error_value();
                }
            }

            minimums.update_from(self.search_graph[dfn].links);
""", """                    return solver_stuff.error_value();
                }

                minimums.update_from(self.search_graph[dfn].links);
            }
""")

@mut
def seed_c11_definite():
    # /tmp/seed-c11/out/1: make_solution treats QuantumExceeded like NoMoreSolutions (Definite instead of Suggested)
    rep("chalk-engine/src/slg/aggregate.rs", """                AnswerResult::NoMoreSolutions => {
                    break Guidance::Definite(subst);
                }
                AnswerResult::QuantumExceeded => {
                    break Guidance::Suggested(subst);
                }""", """                AnswerResult::NoMoreSolutions | AnswerResult::QuantumExceeded => {
                    break Guidance::Definite(subst);
                }""")

@mut
def seed_c12_stash_only_unselected():
    # /tmp/seed-c11/out/2: the strand is parked before select_subgoal only when no subgoal is selected yet
    rep("chalk-engine/src/logic.rs", """                    self.stack.top().active_strand = Some(canonical_strand.clone());
                    let selection""", """                    if canonical_strand.value.selected_subgoal.is_none() {
                        self.stack.top().active_strand = Some(canonical_strand.clone());
                    }
                    let selection""")

@mut
def seed_r2b_size_check():
    # /tmp/seed-r2b/out/3: abstract_positive_literal only measures subgoals that have no table yet
    subprocess.run(["git", "-C", WT, "apply", "--include=chalk-engine/src/logic.rs", "/verif/seeded/C10-abstract-literal-skips-size-check-for-existing-table/patch.diff"], check=True)

@mut
def seed_r4a_table_registered_early():
    # round 4, seeded/C12-slg-table-registered-before-clauses-resolved: build_table registers the table before the
    # clause resolution loop; needs a fault in the n-th unification_database()/variance call (C12 sweep)
    subprocess.run(["git", "-C", WT, "apply", "/verif/seeded/C12-slg-table-registered-before-clauses-resolved/patch.diff"], check=True)


def main():
    name, checks = sys.argv[1], sys.argv[2:]
    subprocess.run(["git", "-C", WT, "checkout", "-q", "."], check=True)
    MUT[name]()
    diff = subprocess.run(["git", "-C", WT, "diff", "--stat"], capture_output=True, text=True).stdout.strip().split("\n")[-1]
    print("MUTATION %s (%s)" % (name, diff), flush=True)
    env = dict(os.environ, VERIF_REPO=WT)
    for c in checks:
        p = subprocess.run(["./vcheck", c], cwd="/verif", env=env, capture_output=True, text=True)
        lines = [l for l in p.stdout.split("\n") if l.startswith(("VIOLATION", "OK ", "FAIL ")) ]
        print("  %s -> rc=%d %s" % (c, p.returncode, " | ".join(l[:160] for l in lines[-3:])), flush=True)
        for l in lines:
            if l.startswith("VIOLATION"):
                path = l.split("replay=")[1].split()[0]
                try:
                    d = json.load(open(path))
                    print("      first violation: kind=%s what=%s" % (d.get("kind"), str(d.get("what") or d.get("broken"))[:150]))
                except Exception as e:
                    print("      (cannot read replay: %s)" % e)
                break
        if p.returncode not in (0, 1):
            print(p.stderr[-800:])
    subprocess.run(["git", "-C", WT, "checkout", "-q", "."], check=True)

main()
