"""C10 — answers do not depend on what the same solver solved before; recursive solver: same
answers with the cache on and off."""
from __future__ import annotations

from vlib import core, sx
from checks import enginelib as E
from checks import histlib as H
from vlib import proggen as pg

THEOREMS = ["rec_history_refuted", "rec_history_mixed_refuted"]
try:  # the list grows with the proof development; single source of truth is Props/C10.v
    import re as _re, os as _os
    _t = open(_os.path.join(core.COQ, "Props", "C10.v")).read()
    THEOREMS = _re.findall(r"^Theorem\s+(\w+)", _t, _re.M)
except OSError:
    pass

META = {
    "id": "C10", "level": "proof",
    "technique": "Coq theorems over a faithful Gallina mechanism model of RecursiveContext<K,V> (Engine/RecEngine.v) "
                 "+ equality correspondence of model and REAL generic engine on and-or-graph histories (hook H3) "
                 "+ differential history runs of both real solvers (one solver vs fresh solver per goal)",
    "level_text": "The recursive solver's fixed-point engine (stack, search graph, minimums, cache) is modelled step for step; "
                  "the theorems in Props/C10.v are about that model for ALL and-or graphs / histories; the real generic engine is driven on the "
                  "very same graphs and compared for equality of value, iteration count and cache contents after every root call. "
                  "SLG and the non-ground part of the recursive solver are covered by differential testing only.",
    "level_note": "model = propositional instance (ground goals); class findings F7 (SLG coinductive cycles) and F27 (mixed cycles, recursive) "
                  "are decided by predicates on the input; see evidence.assumptions for what is proved vs tested",
    "design_ref": "DESIGN.md §4 C10",
    "bins": ["engine", "hist"],
    "assumptions": [
        "engine theorems are about the propositional instantiation of SolverStuff (ground and-or graphs, three-valued leaves for truncation)",
        "the theorems exclude graphs with a mixed inductive/coinductive cycle (class F27, witness rec_history_mixed_refuted)",
        "SLG history independence is not modelled: tested on generated programs; F7 class is excluded by its input predicate",
    ],
    "quick_s": 90, "thorough_s": 900,
}


def engine_part(ctx):
    rng = ctx.rng
    n = ctx.n(180, 1500)
    cases, meta = [], []
    for i in range(n):
        shape, G = E.gen_graph(rng, E.SHAPES[i % len(E.SHAPES)] if i < 4 * len(E.SHAPES) else None)
        goals = list(range(len(G)))
        rng.shuffle(goals)
        goals = goals[:rng.randint(1, min(4, len(G)))]
        ords = E.orders(rng, goals, quick=True, limit=2)
        hist = rng.choice(ords)
        if rng.random() < 0.3:
            hist = hist + [rng.choice(goals)]
        if shape == "stale_member":      # the head first, then the dependent nodes
            hist = [0] + [x for x in range(2, len(G))] + [1]
        caching = rng.random() < 0.75 or shape == "stale_member"
        cases.append((G, 40, caching, [], [], hist))
        meta.append(shape)
    # the two canonical "dependent of a popped, still provisional cycle member" graphs, for every seed
    for G in ([(True, [([1, 2, 3], False)]), (True, [([0], False)]), (True, [([1], False)]), (False, [])],
              [(False, [([1], False), ([2], False), ([], False)]), (False, [([0], False)]), (False, [([1], False)])]):
        cases.append((G, 40, True, [], [], [0, 2, 1]))
        meta.append("stale_member")
    # the canonical "inner head turns ambiguous in its first iteration, is not the head of its component,
    # and the outer head then asks for the node evaluated against the stale value" graph, for every seed
    cases.append(([(False, [([1, 2], False)]), (False, [([2], False), ([], True), ([0], False)]), (False, [([1], False)])],
                  40, False, [], [], [0, 2, 1]))
    meta.append("nested_amb")
    # every history with the cache on AND off (C10, second sentence): the twin of each case
    for ci in range(len(cases)):
        G, ov, ca, st, pa, hist = cases[ci]
        cases.append((G, ov, not ca, st, pa, hist))
        meta.append(meta[ci])
    # fresh runs of every goal that occurs last in some history, cache on and off
    fresh_idx = {}
    fresh_cases = []
    n0 = len(cases) // 2          # case ci + n0 is the cache-flipped twin of case ci: same fresh runs
    for ci, c in enumerate(cases):
        for g in set(c[5]):
            for ca in (True, False):
                if ci >= n0:
                    fresh_idx[(ci, g, ca)] = fresh_idx[(ci - n0, g, ca)]
                else:
                    fresh_idx[(ci, g, ca)] = len(fresh_cases)
                    fresh_cases.append((c[0], 40, ca, [], [], [g]))
    real, lines = E.run_real(cases + fresh_cases)
    rh, rf = real[:len(cases)], real[len(cases):]
    # the model is compared on every history and on a sample of the fresh runs
    nfs = ctx.n(150, 800)
    bad = set(E.model_mismatches(ctx, "hist", cases + fresh_cases[:nfs], real[:len(cases) + nfs]))
    semb = E.sem_mismatches(ctx, "sem", [c[0] for c in cases[:ctx.n(100, 500)]])
    ctx.cov["engine_model_mismatches"] = len(bad)
    ctx.cov["engine_sem_mismatches"] = len(semb)
    known = viol = incon = 0
    for ci, c in enumerate(cases):
        G, hist = c[0], c[5]
        mixed = E.mixed_cycle(G)
        r = rh[ci]
        ctx.count("engine-history", (E.graph_sx(G), tuple(hist), c[2]), nontrivial=len(hist) > 1)
        if r is None:
            incon += 1
            continue
        S = E.sem(G)
        failing = None
        for k, (g, o) in enumerate(zip(hist, r)):
            f_on = rf[fresh_idx[(ci, g, True)]]
            f_off = rf[fresh_idx[(ci, g, False)]]
            if f_on is None or f_off is None:
                continue
            outs = [o["out"], f_on[0]["out"], f_off[0]["out"]]
            if any(x[0] == "OPanic" for x in outs):
                # overflow depth: outside the guard of the property (cached sub-results make a search shallower)
                if all(x[0] == "OVal" or x[1] == "OverflowDepth" for x in outs):
                    incon += 1
                    continue
                failing = ("panic", k, outs)
                break
            if not (outs[0] == outs[1] == outs[2]):
                failing = ("history/cache-mode dependent answer", k, outs)
                break
            if not mixed:
                if outs[0][1] != S[g]:
                    failing = ("answer differs from the declarative value %s" % S[g], k, outs)
                    break
                stale = [(x, v, S[x]) for x, v in enumerate(o["cache"]) if v is not None and v != S[x]]
                if stale:
                    failing = ("cache entry differs from the declarative value", k, stale)
                    break
        if failing:
            if mixed:
                known += 1
                f = ctx.match_known(None, "F27-mixed-cycle")
                if f:
                    ctx.known_finding(f, "and-or graph %s history %s" % (sx.to_sexp(E.graph_sx(G)), hist))
                    continue
            viol += 1
            ctx.violation({"kind": "engine-history", "what": failing[0], "step": failing[1], "detail": repr(failing[2]),
                           "case": sx.to_sexp(E.case_sx(*c)), "real": lines[ci],
                           "model": E.model_eval(ctx, "viol%d" % ci, c), "shape": meta[ci]})
            if viol >= 3:
                break
    if bad and viol == 0:
        b = sorted(bad)[0]
        allc = cases + fresh_cases
        ctx.violation({"kind": "correspondence", "broken": "Engine.RecEngine.run_case (repaired) <> real RecursiveContext on and-or graph history",
                       "case": sx.to_sexp(E.case_sx(*allc[b])), "real": lines[b], "model": E.model_eval(ctx, "mm", allc[b]),
                       "note": "the property itself (history independence, cache exactness) holds on the implementation's outputs of this run"},
                      no_input=True)
    if semb:
        ctx.violation({"kind": "oracle", "broken": "Python reference evaluator <> Engine.AndOr.eval", "graph": sx.to_sexp(E.graph_sx(cases[semb[0]][0]))}, no_input=True)
    ctx.cov["engine_known_class_cases"] = known
    ctx.cov["engine_inconclusive"] = incon
    ctx.cov["engine_mixed_share"] = round(sum(1 for c in cases if E.mixed_cycle(c[0])) / max(1, len(cases)), 3)
    ctx.sample({"engine_case": sx.to_sexp(E.case_sx(*cases[0])), "real": lines[0]})


SOLVERS = [("slg", H.SLG), ("rec", H.REC), ("rec-ms5-cache", H.rec_with(100, True, 5)), ("rec-ms5-nocache", H.rec_with(100, False, 5))]


def solver_part(ctx):
    rng = ctx.rng
    progs = H.programs(rng, ctx.n(8, 40), seeded=True)
    extra = {}      # program index -> (solver configurations, explicit histories)
    for (p, goals, cfgs, hists) in H.size_programs():
        extra[len(progs)] = (cfgs, hists)
        progs.append((p, pg.to_text(p), goals, [pg.goal_text(g) for g in goals]))
    cases, index = [], []
    for pi, (p, text, goals, gts) in enumerate(progs):
        if pi in extra:
            solvers, ords = extra[pi]
        else:
            solvers = SOLVERS
            ords = E.orders(rng, list(range(len(gts))), quick=ctx.quick, limit=ctx.n(2, 10))
            ords = ords[:ctx.n(4, 12)]
        for sname, solver in solvers:
            for gi, gt in enumerate(gts):
                index.append(("fresh", pi, sname, gi))
                cases.append(H.case(text, solver, [H.solve_step(gt)]))
            for oi, o in enumerate(ords):
                index.append(("hist", pi, sname, tuple(o)))
                cases.append(H.case(text, solver, [H.solve_step(gts[g]) for g in o]))
    res, outs = H.run(cases, timeout=ctx.n(900, 3000))
    fresh = {}
    for (k, pi, sname, x), r in zip(index, res):
        if k == "fresh":
            fresh[(pi, sname, x)] = None if r is None else r[0]["ans"]
    stats = {"pairs": 0, "known_class": 0, "inconclusive": 0, "compared": 0, "diff": 0}
    per_pair = {}
    for (k, pi, sname, o), r, raw in zip(index, res, outs):
        if k != "hist":
            continue
        p, text, goals, gts = progs[pi]
        pair = per_pair.setdefault((pi, sname), {"viol": None, "known": None, "incon": 0, "n": 0})
        if r is None:
            pair["incon"] += 1
            continue
        for step, g in zip(r, o):
            fa = fresh.get((pi, sname, g))
            a = step["ans"]
            pair["n"] += 1
            ctx.count("solver-history", (text, sname, o, g), nontrivial=len(o) > 1)
            if fa is None or H.is_death(fa) or H.is_death(a) or H.panic_kind(a) == "OverflowDepth" or H.panic_kind(fa) == "OverflowDepth":
                pair["incon"] += 1
                continue
            if a != fa and pair["viol"] is None:
                hist_upto = list(o[:list(o).index(g) + 1]) if g in o else list(o)
                cls = None
                if sname.startswith("slg") and H.f7_class(p, goals, list(o)):
                    cls = "F7-slg-coinductive-cycle"
                elif sname.startswith("slg") and H.f16_class(p, goals[g]):
                    cls = "F16-slg-answer-order"
                elif sname.startswith("rec") and H.mixed_class(p, goals):
                    cls = "F27-mixed-cycle"
                rec = {"what": "answer on a used solver differs from the answer of a fresh solver",
                       "program": text, "solver": sname, "history": [gts[x] for x in o], "goal": gts[g],
                       "history_answer": sx.to_sexp(a), "fresh_answer": sx.to_sexp(fa), "shape": p.shape, "raw": raw}
                if cls and ctx.match_known(None, cls):
                    pair["known"] = (cls, rec)
                else:
                    pair["viol"] = rec
        # cache on/off comparison for the reduced-size recursive configurations (fresh answers)
    for pi, (p, text, goals, gts) in enumerate(progs):
        for gi in range(len(gts)):
            a, b = fresh.get((pi, "rec-ms5-cache", gi)), fresh.get((pi, "rec-ms5-nocache", gi))
            if a is None or b is None or H.is_death(a) or H.is_death(b) or "OverflowDepth" in (H.panic_kind(a), H.panic_kind(b)):
                continue
            ctx.count("cache-on-off", (text, gi))
            if a != b:
                pair = per_pair.setdefault((pi, "rec-ms5-nocache"), {"viol": None, "known": None, "incon": 0, "n": 0})
                if H.mixed_class(p, goals) and ctx.match_known(None, "F27-mixed-cycle"):
                    pair["known"] = ("F27-mixed-cycle", {"program": text, "goal": gts[gi]})
                elif pair["viol"] is None:
                    pair["viol"] = {"what": "recursive solver answers differently with the cache on and off",
                                    "program": text, "solver": "recursive cache on vs off (max_size 5)", "goal": gts[gi],
                                    "cache_on": sx.to_sexp(a), "cache_off": sx.to_sexp(b), "shape": p.shape}
    # ... and for every step of every history (same goal order on a cache-on and a cache-off solver)
    hist_ans = {}
    for (k, pi, sname, o), r in zip(index, res):
        if k == "hist" and r is not None and sname in ("rec-ms5-cache", "rec-ms5-nocache"):
            hist_ans[(pi, sname, o)] = [st["ans"] for st in r]
    for (pi, sname, o), on in sorted(hist_ans.items(), key=lambda kv: (kv[0][0], kv[0][2])):
        if sname != "rec-ms5-cache" or (pi, "rec-ms5-nocache", o) not in hist_ans:
            continue
        off = hist_ans[(pi, "rec-ms5-nocache", o)]
        p, text, goals, gts = progs[pi]
        for j, (a, b) in enumerate(zip(on, off)):
            if H.is_death(a) or H.is_death(b) or "OverflowDepth" in (H.panic_kind(a), H.panic_kind(b)):
                continue
            ctx.count("cache-on-off-history", (text, o, j))
            if a != b:
                pair = per_pair.setdefault((pi, "rec-ms5-nocache"), {"viol": None, "known": None, "incon": 0, "n": 0})
                if H.mixed_class(p, goals) and ctx.match_known(None, "F27-mixed-cycle"):
                    pair["known"] = ("F27-mixed-cycle", {"program": text, "goal": gts[o[j]]})
                elif pair["viol"] is None:
                    pair["viol"] = {"what": "recursive solver answers differently with the cache on and off (same history)",
                                    "program": text, "solver": "recursive cache on vs off (max_size 5)",
                                    "history": [gts[x] for x in o], "goal": gts[o[j]],
                                    "cache_on": sx.to_sexp(a), "cache_off": sx.to_sexp(b), "shape": p.shape}
    nviol = 0
    for (pi, sname), pair in sorted(per_pair.items()):
        stats["pairs"] += 1
        stats["inconclusive"] += pair["incon"]
        stats["compared"] += pair["n"]
        if pair["known"]:
            stats["known_class"] += 1
            f = ctx.match_known(None, pair["known"][0])
            ctx.known_finding(f, "%s: %s" % (sname, pair["known"][1].get("program", "")[:120]))
        if pair["viol"]:
            stats["diff"] += 1
            if nviol < 3:
                nviol += 1
                ctx.violation(dict(pair["viol"], kind="solver-history"))
    ctx.cov["solver"] = stats
    ctx.cov["known_class_share"] = round(stats["known_class"] / max(1, stats["pairs"]), 3)
    ctx.cov["inconclusive"] = stats["inconclusive"]
    if cases:
        ctx.sample({"hist_case": sx.to_sexp(cases[-1])[:400], "result": (outs[-1] or "")[:300]})


TEXT_SOLVERS = [("slg", H.SLG), ("rec", H.REC), ("rec-nocache", H.rec_with(100, False, 30))]


def text_part(ctx):
    """witness programs outside the proggen fragment (histlib.text_corpus): every order of the goals on one
    solver = fresh answers, and cache on = cache off step by step.  A difference is attributed to the class
    `rec-ambig-existential-bound` (F31) only for the recursive solver, only when the class predicate holds
    for the goal (decided on the input) and only when the two answers differ in definiteness (Unique vs
    Ambiguous) - never for Unique vs NoSolution."""
    import itertools
    cases, index = [], []
    corpus = H.text_corpus()
    for ti, (name, text, gts) in enumerate(corpus):
        ords = [o for k in (2, 3) for o in itertools.permutations(range(len(gts)), k)]
        for sname, solver in TEXT_SOLVERS:
            for gi, gt in enumerate(gts):
                index.append(("fresh", ti, sname, gi))
                cases.append(H.case(text, solver, [H.solve_step(gt)]))
            for o in ords:
                index.append(("hist", ti, sname, tuple(o)))
                cases.append(H.case(text, solver, [H.solve_step(gts[g]) for g in o]))
    res, outs = H.run(cases, timeout=ctx.n(900, 1800))
    fresh, hist = {}, {}
    for (k, ti, sname, x), r in zip(index, res):
        if r is None:
            continue
        if k == "fresh":
            fresh[(ti, sname, x)] = r[0]["ans"]
        else:
            hist[(ti, sname, x)] = [st["ans"] for st in r]
    stats = {"compared": 0, "known_class": 0, "diff": 0, "inconclusive": 0}

    def comparable(a, b):
        return not (a is None or b is None or H.is_death(a) or H.is_death(b) or H.kind(a) == "Panic" or H.kind(b) == "Panic")

    def f31(sname, text, gt, a, b):
        ks = {("Ambig" if H.is_ambig(x) else H.kind(x)) for x in (a, b)}
        return sname.startswith("rec") and ks == {"Unique", "Ambig"} and H.rec_ambig_class(text, gt)

    seen_known, nviol = set(), 0
    for (ti, sname, o), answers in sorted(hist.items()):
        name, text, gts = corpus[ti]
        for j, (g, a) in enumerate(zip(o, answers)):
            pairs = [("fresh", fresh.get((ti, sname, g)))]
            if sname == "rec-nocache" and (ti, "rec", o) in hist:
                pairs.append(("cache-on", hist[(ti, "rec", o)][j]))
            for what, b in pairs:
                if not comparable(a, b):
                    stats["inconclusive"] += 1
                    continue
                stats["compared"] += 1
                ctx.count("text-corpus-history", (name, sname, o, j, what), nontrivial=j > 0)
                if a == b:
                    continue
                if f31(sname, text, gts[g], a, b) and ctx.match_known(None, "rec-ambig-existential-bound"):
                    stats["known_class"] += 1
                    if (ti, sname) not in seen_known:
                        seen_known.add((ti, sname))
                        ctx.known_finding(ctx.match_known(None, "rec-ambig-existential-bound"),
                                          "%s %s: history %s, goal %s: %s vs %s %s" % (name, sname, list(o[:j + 1]), gts[g], sx.to_sexp(a), what, sx.to_sexp(b)))
                    continue
                stats["diff"] += 1
                if nviol < 2:
                    nviol += 1
                    ctx.violation({"kind": "solver-history", "what": "answer on a used solver differs from the %s answer" % what,
                                   "program": text, "solver": sname, "history": [gts[x] for x in o[:j + 1]], "goal": gts[g],
                                   "history_answer": sx.to_sexp(a), "other_answer": sx.to_sexp(b), "shape": name})
    ctx.cov["text_corpus"] = stats


def run(ctx):
    ok, why = ctx.proof_stage("Props.C10", THEOREMS)
    core.build_harness(bins=["engine", "hist"])
    engine_part(ctx)
    solver_part(ctx)
    text_part(ctx)
    if not ok and not ctx.violations:
        ctx.violation({"kind": "proof", "broken": why}, no_input=True)


def replay(ctx, obj):
    core.build_harness(bins=["engine", "hist"])
    if obj.get("kind") in ("engine-history", "correspondence"):
        out = core.run_harness("engine", [obj["case"]])
        print("real :", out[0])
        print("model:", obj.get("model"))
    elif "program" in obj:
        allcfg = dict(SOLVERS)
        allcfg.update(dict(TEXT_SOLVERS))
        for (_p, _g, cfgs, _h) in H.size_programs():
            allcfg.update(dict(cfgs))
        solver = allcfg.get(obj.get("solver"), H.REC)
        cs = [H.case(obj["program"], solver, [H.solve_step(g) for g in obj.get("history", [obj["goal"]])]),
              H.case(obj["program"], solver, [H.solve_step(obj["goal"])])]
        res, outs = H.run(cs)
        print("history:", outs[0])
        print("fresh  :", outs[1])
    return 0
