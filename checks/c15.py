"""C15 — failed unification leaves inference state untouched; order irrelevant."""
from vlib import core, sx
from checks import inferlib as L
from checks import c14

META = {
    "id": "C15",
    "level": "proof",
    "technique": "Coq theorems (rollback_restores, relate_fail_unchanged, relate_symmetric) over the Gallina model of InferenceTable::{snapshot, rollback_to, commit, relate} + on the real InferenceTable: full observable state before/after every failed relate, both argument orders on cloned tables, and model == implementation on the same histories",
    "level_text": "Machine-checked proofs (Coq 8.16, axiom-free) about the model of the inference table with its three rolled-back fields (unify, vars, max_universe): rollback to a snapshot restores the table after any operation sequence, a relate that fails returns the table it was given, and failure is symmetric in the two arguments.  On every run, scripted histories of successful and failed unifications run on one real InferenceTable: after each failed relate the complete observable state (every variable's probe_var value, class structure, universes, max_universe also read from a clone, lengths of vars and of the ena table through the verif_state hook) is compared with the pre-state, every pair is related in both orders on clones, and the histories are compared with the model inside Coq.  Order irrelevance is additionally checked on the implementation alone: deterministic base histories (var-var unions followed by the binding of a class member to a structure containing a class member, for type and const unknowns; general := int/float unknown := scalar chains) are re-run with every subset of relates argument-swapped, every permutation of the goal list and the goals zipped into one relate; success/failure and the resulting state (up to class roots and the names of variables created inside relate) must coincide, and no relate may panic.",
    "level_note": "Trusted: Coq kernel; the model of snapshot/rollback saves and restores the three fields wholesale (ena's undo log is not modelled; its effect is what the state comparison on the real table exercises); harness; the cfg(chalk_verif) hook InferenceTable::verif_state (read-only).",
    "design_ref": "DESIGN.md section 4 C15",
    "bins": ["infer"],
    "assumptions": ["the observable state is: vars.len(), unify.len(), max_universe, and per variable: class, universe if unbound, probe_var value",
                    "relate_symmetric is stated for the invariant relation on the fragment without fn pointers / aliases / dyn (Props/C15.v)"],
    "quick_s": 50, "thorough_s": 420,
}

THEOREMS = ["rollback_restores", "relate_fail_unchanged", "relate_symmetric"]


def check_history(ctx, fam, case, trace, viol, stats):
    adt, fnv, steps = case
    prev = None
    for k, (s, sr) in enumerate(zip(steps, trace)):
        if sr.kind == "Err":
            stats["failed"] += 1
            if prev is not None and sr.state.observable() != prev.observable() and len(viol) < 3:
                viol.append(1)
                ctx.violation({"kind": "property", "what": "a failed relate changed the observable state of the inference table",
                               "step": k, "case": sx.to_sexp(L.harness_case(adt, fnv, steps[:k + 1])),
                               "before": repr(prev.observable())[:3000], "after": repr(sr.state.observable())[:3000]})
        elif sr.kind == "Both":
            stats["both"] += 1
            if prev is not None and sr.state.observable() != prev.observable() and len(viol) < 3:
                viol.append(1)
                ctx.violation({"kind": "harness", "what": "relating on clones changed the original table", "step": k,
                               "case": sx.to_sexp(L.harness_case(adt, fnv, steps[:k + 1]))})
            r1, r2 = sr.both
            if r1 != r2:
                stats["asym"] += 1
                if len(viol) < 3:
                    viol.append(1)
                    ctx.violation({"kind": "property", "what": "relate(a, b) and relate(b, a) on identical tables differ in success/failure: %s vs %s" % (r1, r2),
                                   "step": k, "case": sx.to_sexp(L.harness_case(adt, fnv, steps[:k + 1]))})
        if sr.state is not None:
            if sr.state.vars_len != sr.state.n and len(viol) < 3:
                viol.append(1)
                ctx.violation({"kind": "property", "what": "vars and the unification table disagree in length (%d vs %d)" % (sr.state.vars_len, sr.state.n),
                               "step": k, "case": sx.to_sexp(L.harness_case(adt, fnv, steps[:k + 1]))})
            if sr.state.maxu != sr.state.maxu_clone and len(viol) < 3:
                viol.append(1)
                ctx.violation({"kind": "property", "what": "max_universe read through the hook and through a clone differ", "step": k,
                               "case": sx.to_sexp(L.harness_case(adt, fnv, steps[:k + 1]))})
            prev = sr.state


def failing_histories(ctx, n, r):
    """Histories biased towards failures that happen late inside relate (after bindings, promotions, fresh
    variables and new universes were made), so that the rollback has something to undo."""
    out = []
    for _ in range(n):
        env = L.random_env(r, nconst=1)
        g = L.TyGen(r, env, depth=3, consts=True, aliases=False, fnptr=True, fn_binders=True, extras=False)
        adt = L.random_variances(r)
        steps = env.prelude()
        for _ in range(r.randint(2, 5)):
            a, b = g.pair()
            # a tuple whose first components unify (with effects) and whose last components clash
            x, y = g.pair()
            clash = r.choice([(L.BOOL, L.U32), (L.ph(0, 0), L.ph(0, 1)), (L.N(("HAdt", 0)), L.N("HSlice", [L.BOOL]))])
            if r.random() < 0.6:
                a = L.N(("HTuple", 3), [a, x, clash[0]])
                b = L.N(("HTuple", 3), [b, y, clash[1]])
            v = r.choice(["Invariant", "Invariant", "Covariant", "Contravariant"])
            steps.append(("SBoth", v, a, b))
            steps.append(("SRelate", v, a, b))
        out.append((adt, [], steps))
    return out


# ---------------------------------------------------------------------------------------------
# Order irrelevance on the implementation's own output (no model involved)
# ---------------------------------------------------------------------------------------------
def canon_state(st, n0):
    """The state of the script's own variables (the first n0) up to the identity of class roots and of the variables
    created inside relate: per variable its class (least member), universe if unbound, deep value if bound (unbound
    variables inside values replaced by the least member of their class; variables created by relate numbered in
    order of first appearance)."""
    ren = {}

    def rn(t):
        if t[0] == "Node":
            h = t[1]
            if L.hname(t) in L.VAR_HEADS and h[1] >= n0:
                h = (h[0], 1000 + ren.setdefault(h[1], len(ren))) + tuple(h[2:])
            return ("Node", h, [rn(c) for c in t[2]])
        if t[0] == "CVar":
            return ("CVar", t[1], t[2], rn(t[3]))
        return t
    cells = []
    for v in range(min(n0, st.n)):
        if st.probe[v] is None:
            cells.append(("U", st.cls[v], st.univ[v]))
        else:
            try:
                cells.append(("B", sx.to_sexp(rn(st.deep(st.probe[v])))))
            except L.CyclicTable:
                cells.append(("CYCLIC",))
    return (st.maxu, tuple(cells))


def order_variants(hist):
    """(tag, comparison, list of relate pairs).  comparison: 'steps' = same goals in the same order (arguments swapped):
    every step must have the same outcome and leave the same state; 'set' = the same set of goals (permuted, or zipped
    into ONE relate of two tuples): all succeed in one order iff in the other, with the same final state."""
    import itertools
    k = len(hist)
    sw = lambda p: (p[1], p[0])
    out = []
    for mask in range(1, 2 ** k):
        out.append(("swap%d" % mask, "steps", [sw(p) if mask >> i & 1 else p for i, p in enumerate(hist)]))
    for perm in itertools.permutations(range(k)):
        if list(perm) != list(range(k)):
            out.append(("perm%s" % "".join(map(str, perm)), "set", [hist[i] for i in perm]))
            out.append(("perm%s-swapped" % "".join(map(str, perm)), "set", [sw(hist[i]) for i in perm]))
        tup = lambda xs: L.N(("HTuple", k), list(xs))
        a, b = tup(hist[i][0] for i in perm), tup(hist[i][1] for i in perm)
        out.append(("zip%s" % "".join(map(str, perm)), "set", [(a, b)]))
        out.append(("zip%s-swapped" % "".join(map(str, perm)), "set", [(b, a)]))
    return out


def order_stage(ctx, viol, stats):
    bases = c14.union_bind_histories() + c14.numeric_chain_histories()
    mk = lambda pre, hist: ([], [], list(pre) + [("SRelate", "Invariant", a, b) for (a, b) in hist])
    scripts, index = [], []
    for bi, (pre, hist) in enumerate(bases):
        scripts.append(mk(pre, hist))
        index.append((bi, "base", None))
        for (tag, cmp_, h) in order_variants(hist):
            scripts.append(mk(pre, h))
            index.append((bi, tag, cmp_))
    traces, raw = L.run_scripts(scripts)
    base_of = {}

    def summary(case, tr):
        rel = [sr for s_, sr in zip(case[2], tr) if s_ != "SNewUniverse" and s_[0] == "SRelate"]
        kinds = [sr.kind for sr in rel]
        nrel = sum(1 for s_ in case[2] if s_ != "SNewUniverse" and s_[0] == "SRelate")
        complete = len(rel) == nrel
        n0 = sum(1 for s_ in case[2] if s_ != "SNewUniverse" and s_[0] == "SNewVar")
        states = [canon_state(sr.state, n0) if sr.state is not None else None for sr in rel]
        return kinds, states, complete

    def report(what, bi, tag, j, extra=None):
        stats["order_violations"] += 1
        if len(viol) < 3:
            viol.append(1)
            pre, hist = bases[bi]
            obj = {"kind": "property", "what": what, "variant": tag,
                   "case": sx.to_sexp(L.harness_case(*scripts[j])), "base_case": sx.to_sexp(L.harness_case(*mk(pre, hist)))}
            if extra:
                obj.update(extra)
            ctx.violation(obj)

    for j, ((bi, tag, cmp_), case, tr, o) in enumerate(zip(index, scripts, traces, raw)):
        if tr is None:
            raise core.CheckFailure("infer harness could not run an order-irrelevance case: %s" % ((o or "")[:400]))
        kinds, states, complete = summary(case, tr)
        stats["order_scripts"] += 1
        ctx.count("order:" + (cmp_ or "base"), sx.to_sexp(L.harness_case(*case)), nontrivial=True)
        if "Panic" in kinds or L.died(o) or not complete:
            report("relate on well-kinded lifetime-free types panicked / did not return (%s)" % "/".join(kinds), bi, tag, j,
                   {"implementation": [sx.to_sexp(x.raw)[:600] for x in tr][-2:]})
            continue
        if tag == "base":
            base_of[bi] = (kinds, states, j)
            continue
        if bi not in base_of:
            continue
        bk, bs, bj = base_of[bi]
        if cmp_ == "steps":
            if kinds != bk:
                report("swapping the two arguments of relate changes success / failure: %s vs %s" % ("/".join(bk), "/".join(kinds)), bi, tag, j)
            elif states != bs:
                d = next(i for i, (x, y) in enumerate(zip(bs, states)) if x != y)
                report("swapping the two arguments of relate changes the resulting state (after relate #%d)" % d, bi, tag, j,
                       {"state_base": repr(bs[d])[:1500], "state_variant": repr(states[d])[:1500]})
        else:
            ok_b, ok_v = all(x == "Ok" for x in bk), all(x == "Ok" for x in kinds)
            if ok_b != ok_v:
                report("the same set of equalities succeeds in one order and fails in another: %s vs %s" % ("/".join(bk), "/".join(kinds)), bi, tag, j)
            elif ok_b and states[-1] != bs[-1]:
                report("the same set of equalities leaves different states in different orders", bi, tag, j,
                       {"state_base": repr(bs[-1])[:1500], "state_variant": repr(states[-1])[:1500]})
    ctx.cov["order_irrelevance"] = {"base_histories": len(bases), "scripts": len(scripts)}
    # the base histories and their one-relate (zipped) forms also go through the model
    sel = [j for j, (bi, tag, _) in enumerate(index) if tag == "base" or tag == "zip" + "".join(map(str, range(len(bases[bi][1]))))]
    return [scripts[j] for j in sel], [traces[j] for j in sel]


def run(ctx):
    ok, why = ctx.proof_stage("Props.C15", THEOREMS)
    core.build_harness(bins=["infer"])
    r = ctx.rng
    total = ctx.n(900, 5000)
    fams = [("pinned", c14.pinned_cases()), ("sweep", c14.sweep_cases()),
            ("late-failures", failing_histories(ctx, total // 2, r)),
            ("c14-invariant", c14.random_cases(ctx, total // 4, r, c14.PROFILES["c14-invariant"])),
            ("extended", c14.random_cases(ctx, total // 4, r, c14.PROFILES["extended"]))]
    viol = []
    stats = {"failed": 0, "both": 0, "asym": 0, "order_scripts": 0, "order_violations": 0}
    mism_total = 0
    ocases, otraces = order_stage(ctx, viol, stats)
    fams.insert(1, ("order-bases", ocases))
    pre_run = {"order-bases": otraces}
    for fam, cases in fams:
        if fam in pre_run:
            traces, raw = pre_run[fam], [None] * len(cases)
        else:
            traces, raw = L.run_scripts(cases)
        for c, tr, o in zip(cases, traces, raw):
            if tr is None:
                raise core.CheckFailure("infer harness could not run a %s case: %s" % (fam, (o or "")[:400]))
            if L.died(o) and len(viol) < 3:
                viol.append(1)
                ctx.violation({"kind": "property", "what": "relate did not return: the process aborted (native stack overflow) or hung at step %d" % len(tr),
                               "case": sx.to_sexp(L.harness_case(c[0], c[1], c[2][:len(tr) + 1])), "harness": (o or "")[:300]})
            check_history(ctx, fam, c, tr, viol, stats)
            if any(sr.kind == "Panic" for sr in tr) and fam == "order-bases" and len(viol) < 3:
                viol.append(1)
                ctx.violation({"kind": "property", "what": "relate panicked", "case": sx.to_sexp(L.harness_case(*c))})
            for s, sr in zip(c[2], tr):
                if s != "SNewUniverse" and s[0] in ("SRelate", "SBoth"):
                    ctx.count(fam + ":" + s[0][1:], sx.to_sexp(s) + "|" + str(len(tr)), nontrivial=(sr.kind == "Err" or s[0] == "SBoth") and L.tsize(s[2]) + L.tsize(s[3]) > 2)
        for c in cases[:2]:
            ctx.sample({"family": fam, "case": sx.to_sexp(L.harness_case(*c))[:700]})
        if fam == "sweep" and ctx.quick:
            continue            # the sweep is compared with the model by C14 on every run
        bad = L.model_mismatches(ctx, fam.replace("-", "_"), cases, traces, shard=ctx.n(120, 600))
        mism_total += len(bad)
        for j in bad[:2]:
            diag = L.model_diff(ctx, "diag_%s_%d" % (fam.replace("-", "_"), j), cases[j], traces[j])
            if not viol:
                ctx.violation({"kind": "correspondence", "family": fam, "case": sx.to_sexp(L.harness_case(*cases[j])),
                               "implementation": [sx.to_sexp(s.raw)[:1500] for s in traces[j]], "first_differing_observation": diag[0][:200], "model_results": diag[1][:3000],
                               "broken": "correspondence Infer.Unify.relate = InferenceTable::relate on histories with failures (theorems of Props/C15.v are about the model); "
                                         "state preservation and order-independence held on the implementation's own output for every explored history"}, no_input=True)
    ctx.cov["history_stats"] = stats
    ctx.cov["model_mismatches"] = mism_total
    ctx.cov["rule"] = ("histories of 2-5 relate calls (any variance) on one real table, biased so that a relate fails late (after bindings, universe promotions, fresh variables, new universes from fn-pointer binders): "
                       "state before == state after every failed relate; relate(a,b) vs relate(b,a) on clones; plus the head-constructor sweep and the infer/test.rs scenarios; "
                       "order-irrelevance stage on the implementation alone: 198 base histories (var-var unions among three unknowns followed by the binding of a member to a structure containing a member, two universe layouts; const unknowns through arrays / ADT const parameters; general unknown := int / float unknown := scalar, then used) each re-run with every subset of relates argument-swapped (same outcomes and same states step by step), every permutation of the goal list and the goals zipped into ONE relate of two tuples in every component order, both argument orders (all succeed in one order iff in every other, same final state up to class roots); a panic is a violation; "
                       "non-trivial = failed relate or both-order probe on non-leaf terms; distinct by (pair, history length)")
    if not ok:
        ctx.violation({"kind": "proof", "broken": why}, no_input=True)


def replay(ctx, obj):
    print("replay case:", obj.get("case"))
    return 1
