"""C02 — goals without unknown types are decided definitively, with the answer the program's
logical meaning dictates."""
import collections
import time

from vlib import core, logic, sx
from vlib import proggen as pg
from vlib import solvercheck as sc

META = {
    "id": "C02", "level": "proof",
    "technique": "Coq theorems eval_correct (the ground evaluator's verdict IS the declarative truth of the goal: nested "
                 "lfp/gfp on the finite, closed reach set, checked fixed points) and closed_answer_exact (for a closed goal "
                 "exactly one of Unique / NoSolution meets the answer contract); refinement correspondence: both real "
                 "solvers, default and reduced limits, must return that answer on generated programs x closed goals",
    "level_text": "The oracle is proved correct for all programs and goals in both directions whenever it returns a verdict "
                  "(out-of-fuel is an explicit, excluded outcome), so for every closed goal the check knows the one "
                  "admissible answer; the implementation's answer is compared with it, and `Ambiguous` counts as a "
                  "violation only when the decidable side condition `search stays within max_size / overflow_depth` "
                  "(computed in Coq from the goal's reach set) holds.",
    "level_note": "The solvers themselves are not modelled here (engine-level exactness is the Engine layer's); what is "
                  "proved is the specification side.  The implementation is sampled on a finite seeded stream.  The side "
                  "condition is conservative (whole-atom term size <= max_size, #reachable atoms < overflow_depth).  Oracle "
                  "out-of-fuel (infinite ground reach sets: polymorphic recursion) is inconclusive and counted as such.",
    "design_ref": "DESIGN.md §4 C02",
    "bins": ["solve"],
    "assumptions": [
        "semantics of the C01 fragment as formalised in coq/Logic/Sem.v (open-world placeholders; no mixed inductive/coinductive cycles: Contract.fragment_ok is evaluated per case)",
        "auto-trait rule (clauses.rs push_auto_trait_impls) mirrored by proggen.auto_clauses",
        "generator / text / lowering agreement is checked on every program through the harness dump",
    ],
    "quick_s": 60, "thorough_s": 600,
}

FUEL = 200

CONFIGS = collections.OrderedDict([
    ("slg", (pg.SLG, 10, None)),
    ("rec", (pg.REC, 30, 100)),
    ("slg-ms5", (pg.slg_with(5), 5, None)),
    ("rec-od12-ms6", (pg.rec_with(12, True, 6), 6, 12)),
])


def run(ctx):
    t_start = time.time()
    ok, why = ctx.proof_stage("Props.C02", ["eval_correct", "closed_answer_exact", "eval_goal_fuel_sufficient",
                                            "eval_inv_false_sound", "sat_inv_clean", "sat_inv_le", "neg_inv_differ"])
    phase = {"proof": round(time.time() - t_start, 1)}
    if not ok:
        ctx.violation({"kind": "proof", "broken": why}, no_input=True)
        return
    core.build_harness(bins=["solve"])
    rng = ctx.rng
    progs, items = sc.fragment_items(rng, ctx.n(20, 380), 6, 6, 0,
                                     extra=[(pg.shape_andor, ctx.n(160, 1400)), (pg.shape_size_boundary, ctx.n(6, 40))], neg_ring=True)
    items = [it for it in items if not pg.has_exists(it.goal)]
    solvers = collections.OrderedDict((k, v[0]) for k, v in CONFIGS.items())
    t0 = time.time()
    # the propositional and-or programs never come near a size limit: default configurations only
    small = [it for it in items if it.shape.startswith("andor")]
    other = [it for it in items if not it.shape.startswith("andor")]
    mism, perr = sc.run_items(other, solvers=solvers, cpu=ctx.n(4, 6), timeout=ctx.n(600, 3000))
    m2, p2 = sc.run_items(small, solvers=collections.OrderedDict((k, solvers[k]) for k in ("slg", "rec")), cpu=ctx.n(4, 6), timeout=ctx.n(600, 3000))
    mism, perr = mism + m2, perr + p2
    phase["solvers"] = round(time.time() - t0, 1)
    t0 = time.time()
    if mism:
        ctx.violation({"kind": "correspondence", "broken": "generator / .chalk text / lowered program disagree (proggen.dump_matches)",
                       "program": pg.to_text(progs[mism[0][0]]), "dump": mism[0][1][:3000]}, no_input=True)
        return
    if perr:
        ctx.violation({"kind": "infrastructure", "broken": "a generated fragment program failed to lower", "detail": str(perr[0])[:2000]}, no_input=True)
        return

    # oracle: truth value, fragment membership and search-space statistics, all computed in Coq
    defs, exprs = {}, []
    for k, it in enumerate(items):
        pn = "P%d" % it.pidx
        if pn not in defs:
            defs[pn] = ("program", pg.to_model(it.prog))
        gn = "g%d" % k
        defs[gn] = ("goal", pg.goal_model(it.goal, it.prog.symtab()))
        exprs.append(([pn, gn], logic.ob("eval_goal %d %s [] [] %s" % (FUEL, pn, gn))))
        if it.shape.startswith("andor") or it.shape.startswith("corpus-andor"):
            # blanket impls over parameterless traits, generated without mixed cycles: in the fragment by construction
            exprs.append(([], "1%N"))
        else:
            exprs.append(([pn, gn], logic.bb("fragment_ok %s (closed_query %s)" % (pn, gn))))
    codes, failures = logic.coq_codes(ctx.work, "oracle", defs, exprs, shard=max(30, len(exprs) // 16 + 3))
    if failures:
        raise core.CheckFailure("coq evaluation failed: %s" % (failures[0],))
    # search-space statistics are needed only where some configuration did not give the
    # dictated answer (second, small Coq pass)
    need = []
    for k, it in enumerate(items):
        truth = codes[2 * k]
        if truth == 2 or codes[2 * k + 1] != 1:
            continue
        expected = "Unique" if truth == 1 else "NoSolution"
        if any(logic.answer_kind(it.answers[c][1]) != expected for c in CONFIGS if c in it.answers):
            need.append(k)
    sexprs = [(["P%d" % items[k].pidx, "g%d" % k],
               "match goal_stats %d P%d [] [] g%d with Some (m, n) => (m * 100000 + n)%%N | None => 0%%N end" % (FUEL, items[k].pidx, k)) for k in need]
    sexprs += [(["P%d" % items[k].pidx, "g%d" % k], "((if f7q_class %d P%d g%d then 1 else 0) + (if f7n_class %d P%d g%d then 2 else 0))%%N"
                % (FUEL, items[k].pidx, k, FUEL, items[k].pidx, k)) for k in need]
    scodes, failures = logic.coq_codes(ctx.work, "stats", defs, sexprs, shard=max(8, len(sexprs) // 16 + 1))
    if failures:
        raise core.CheckFailure("coq evaluation failed: %s" % (failures[0],))
    stats_of = dict(zip(need, scodes[:len(need)]))
    f7q_of = dict(zip(need, scodes[len(need):]))
    # `not` below hypotheses that mention placeholders: literal vs inversion reading (Logic/Inv.v)
    inv_of = sc.inv_readings(ctx.work, "inv", items, [k for k, it in enumerate(items) if pg.neg_inv_shape(it.goal)], FUEL)

    hist = collections.Counter()
    incon = collections.Counter()
    verdicts = collections.Counter()
    for k, it in enumerate(items):
        truth, frag, stats = codes[2 * k], codes[2 * k + 1], stats_of.get(k, 0)
        if frag != 1:
            incon["outside-fragment(mixed cycle through a hypothesis)"] += 1
            continue
        if truth == 2:
            incon["oracle-out-of-fuel"] += 1
            continue
        msize, natoms = stats // 100000, stats % 100000
        verdicts["true" if truth == 1 else "false"] += 1
        for cname, (sv, max_size, od) in CONFIGS.items():
            if cname not in it.answers:
                continue
            ans = it.answers[cname][1]
            kind = logic.answer_kind(ans)
            within = stats != 0 and msize <= max_size and (od is None or natoms + 4 <= od)
            nontrivial = it.kind != "atom" or it.shape not in ("random",) or truth == 1
            ctx.count(cname, (it.key(), cname), nontrivial=nontrivial)
            hist["%s:%s:%s" % (cname, "T" if truth == 1 else "F", kind)] += 1
            expected = "Unique" if truth == 1 else "NoSolution"
            nv = sc.neg_inv_verdict(inv_of[k], cname, kind) if k in inv_of else None
            if nv == "known":
                f = ctx.match_known(None, "NEGINV")
                if f:
                    ctx.known_finding(f, "%s | %s | %s" % (cname, it.goal_text, kind))
                    ctx.cov["neg_inv_class_hits"] = ctx.cov.get("neg_inv_class_hits", 0) + 1
                    continue
            elif nv == "inconclusive":
                incon["neg-inv:inversion-reading-inconclusive"] += 1
                continue
            elif nv == "violation" and kind.startswith("Ambig") and not within:
                incon["%s:ambiguous-outside-limits" % cname] += 1
                continue
            elif nv == "violation" and kind in ("Timeout", "Abort"):
                incon["%s:%s" % (cname, kind)] += 1
                continue
            elif nv == "violation":
                d = it.describe()
                d.update({"kind": "differs-from-inversion-reading", "config": cname, "expected": "NoSolution", "got": sx.to_sexp(ans)[:500],
                          "relation": "neg_inv_shape goal: literal reading true, inversion reading (eval_inv_false_sound) false; chalk implements the inversion reading, so NoSolution is required here"})
                ctx.violation(d)
                continue
            if kind == expected:
                if kind == "Unique" and (len(ans[2]) != 0):
                    ctx.violation(dict(it.describe(), kind="closed-goal-unique-with-substitution", config=cname))
                continue
            if kind in ("Timeout", "Abort"):
                incon["%s:%s" % (cname, kind)] += 1
                continue
            if kind == "Panic":
                site = logic.panic_site(ans)
                if site == "overflow" and not within:
                    incon["%s:overflow-panic-outside-limits" % cname] += 1
                    continue
                what = "panic"
            elif kind.startswith("Ambig"):
                if not within:
                    incon["%s:ambiguous-outside-limits" % cname] += 1
                    continue
                what = "ambiguous-within-limits"
            else:
                what = "wrong-definite-answer"
            f = ctx.match_known(it.key())
            if not f and cname.startswith("slg") and what == "wrong-definite-answer" and truth == 1 and (f7q_of.get(k, 0) & 1):
                f = ctx.match_known(None, "F7q")
            if not f and cname.startswith("slg") and (f7q_of.get(k, 0) & 2) and (
                    (what == "panic" and logic.panic_site(ans) == "panic:chalk-engine/src/logic.rs") or what == "ambiguous-within-limits"):
                f = ctx.match_known(None, "F7n")
            if f:
                ctx.known_finding(f, "%s | %s | %s" % (cname, it.goal_text, kind))
                ctx.cov["known_class_hits"] = ctx.cov.get("known_class_hits", 0) + 1
                continue
            d = it.describe()
            d.update({"kind": what, "config": cname, "oracle": bool(truth), "expected": expected, "got": sx.to_sexp(ans)[:500],
                      "stats": {"max_term_size": msize, "reachable_atoms": natoms, "within_limits": within},
                      "relation": "closed_answer_exact: eval_goal = Some %s, so only %s meets the contract" % (bool(truth), expected)})
            ctx.violation(d)
        if truth in (0, 1):
            ctx.sample({"program": it.text[:300], "goal": it.goal_text, "oracle": bool(truth),
                        "answers": {c: logic.answer_kind(it.answers[c][1]) for c in CONFIGS if c in it.answers}})

    total = max(1, len(items) * len(CONFIGS))
    ctx.cov["rule"] = "evaluations = (program, closed goal, solver configuration) triples judged against the oracle; non-trivial = goal is not a bare atom, or comes from a deliberate shape, or is true; distinct by (program, goal, configuration)"
    ctx.cov["input_distribution"] = {"programs": len(progs), "shapes": sc.shape_histogram(items),
                                     "goal_kinds": dict(collections.Counter(it.kind for it in items)),
                                     "oracle_verdicts": dict(verdicts), "outcomes": dict(hist)}
    ctx.cov["inconclusive"] = dict(incon)
    ctx.cov["inconclusive_total"] = sum(incon.values())
    ctx.cov["neg_inv"] = {"items_with_shape": len(inv_of), "readings_differ": sum(1 for v in inv_of.values() if v[0] == 1 and v[1] == 1 and v[2] == 0)}
    phase["coq+judge"] = round(time.time() - t0, 1)
    ctx.cov["phase_s"] = phase
    ctx.cov["known_class_share"] = round(ctx.cov.get("known_class_hits", 0) / total, 4)


def replay(ctx, obj):
    core.build_harness(bins=["solve"])
    it = sc.Item(0, None, obj["program"], None, obj["goal"], obj.get("shape", "replay"), "replay")
    solvers = collections.OrderedDict((k, v[0]) for k, v in CONFIGS.items())
    sc.run_items([it], solvers=solvers, cpu=10, dump_check=False)
    for c in CONFIGS:
        print(c, sx.to_sexp(it.answers[c][1]))
    exp = obj.get("expected")
    got = logic.answer_kind(it.answers[obj.get("config", "slg")][1])
    print("expected", exp, "got", got)
    return 0 if got == exp else 1
