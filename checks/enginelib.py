"""Shared by c09..c12: ground and-or graphs, the H3 correspondence between the Coq mechanism
model Engine/RecEngine.v and the REAL generic RecursiveContext<K,V>, and a small reference
evaluator of the declarative meaning (Engine/AndOr.v `eval`, cross-checked against Coq on
every run).  A graph is a list of (coind, [(subgoals, amb), ...])."""
from __future__ import annotations

import itertools
import re

from vlib import core, sx

FUEL = 4000  # model fuel; OutOfFuel is an explicit outcome and counted as inconclusive

PANIC_SITES = [
    (re.compile(r"chalk_verif: injected panic"), "Injected"),
    (re.compile(r"stack\.is_empty\(\)"), "StackNotEmpty"),
    (re.compile(r"overflow depth reached"), "OverflowDepth"),
    (re.compile(r"mismatched stack push/pop"), "MismatchedPop"),
    (re.compile(r"index out of bounds|out of range"), "BadIndex"),
    (re.compile(r"stack_depth\.is_none\(\)|links\.positive >= dfn"), "MoveAssert"),
]


def panic_site(msg: str) -> str:
    for rx, name in PANIC_SITES:
        if rx.search(msg):
            return name
    return "Other"


# ---------------------------------------------------------------------------------------
# graphs
# ---------------------------------------------------------------------------------------

def succs(G, n):
    return [m for (subs, _amb) in G[n][1] for m in subs]


def reach(G, a):
    seen, todo = {a}, [a]
    while todo:
        x = todo.pop()
        for m in succs(G, x):
            if m not in seen:
                seen.add(m)
                todo.append(m)
    return seen


def mixed_cycle(G):
    R = [reach(G, a) for a in range(len(G))]
    for a in range(len(G)):
        if G[a][0]:
            for b in range(len(G)):
                if not G[b][0] and b in R[a] and a in R[b]:
                    return True
    return False


def two_valued(G):
    return all(not amb for (_c, cls) in G for (_s, amb) in cls)


def holds(G, opt):
    """nu-mu reading: greatest consistent set of coinductive nodes, inductive closure."""
    n = len(G)

    def lfp(C):
        T = set(C)
        changed = True
        while changed:
            changed = False
            for x in range(n):
                if x in T or G[x][0]:
                    continue
                if any((opt or not amb) and all(m in T for m in subs) for (subs, amb) in G[x][1]):
                    T.add(x)
                    changed = True
        return T

    C = {x for x in range(n) if G[x][0]}
    while True:
        T = lfp(C)
        C2 = {x for x in C if any((opt or not amb) and all(m in T for m in subs) for (subs, amb) in G[x][1])}
        if C2 == C:
            return T
        C = C2


def sem(G):
    """three-valued (Kleene) value of every node"""
    hp, ho = holds(G, False), holds(G, True)
    return ["Yes" if x in hp else ("Amb" if x in ho else "No") for x in range(len(G))]


def depth_bound(G):
    return len(G) + 1


SHAPES = ["chain", "diamond", "ind_cycle", "ind_cycle_base", "co_cycle", "nested", "mixed", "amb_cycle", "stale_member", "nested_amb", "random", "random3"]


def gen_graph(rng, shape=None, nmax=7):
    """Deliberate shapes first, then random graphs; returns (shape, graph)."""
    shape = shape or rng.choice(SHAPES)
    if shape == "chain":
        n = rng.randint(1, nmax)
        G = [(False, [([i + 1], False)]) for i in range(n - 1)] + [(False, [([], False)] if rng.random() < 0.7 else [])]
    elif shape == "diamond":
        G = [(False, [([1, 2], False)]), (False, [([3], False)]), (False, [([3], False), ([], False)]),
             (False, [([], False)] if rng.random() < 0.6 else [])]
    elif shape == "ind_cycle":
        n = rng.randint(1, 5)
        G = [(False, [([(i + 1) % n], False)]) for i in range(n)]
    elif shape == "ind_cycle_base":
        n = rng.randint(2, 5)
        G = [(False, [([(i + 1) % n], False)]) for i in range(n)]
        k = rng.randrange(n)
        cl = list(G[k][1])
        cl.insert(rng.randint(0, 1), ([], False))
        G[k] = (False, cl)
    elif shape == "co_cycle":
        n = rng.randint(1, 5)
        G = [(True, [([(i + 1) % n], False)]) for i in range(n)]
        if rng.random() < 0.4:
            G.append((False, []))
            k = rng.randrange(n)
            G[k] = (True, [(G[k][1][0][0] + [n], False)])
    elif shape == "nested":
        # a -> b -> c -> {b, a}: inner cycle inside an outer one, with optional base facts
        co = rng.random() < 0.3
        G = [(co, [([1], False)]), (co, [([2], False)]), (co, [([1, 0], False)] + ([([], False)] if rng.random() < 0.5 else [])),
             ]
        if rng.random() < 0.5:
            G[0] = (co, G[0][1] + [([], False)])
    elif shape == "mixed":
        G = [(True, [([1], False)]), (False, [([0], False)] + ([([], False)] if rng.random() < 0.5 else []))]
    elif shape == "amb_cycle":
        # the F15 shape: head with an ambiguous alternative and a cycle through an inner node
        G = [(False, [([2], False), ([1], False)]), (False, [([0], False)]), (False, [([], True)])]
        if rng.random() < 0.5:
            G[0] = (False, list(reversed(G[0][1])))
        if rng.random() < 0.3:
            G.append((False, [([1], False), ([0], False)]))
    elif shape == "nested_amb":
        # outer head 0 needs the inner head 1 and then node 2; the inner head 1 depends on itself through 2,
        # on the outer head, and turns ambiguous in its FIRST iteration (an ambiguous alternative): the loop
        # of 1 stops by the ambiguity shortcut although 1 is not the head of its component, and 2 was
        # evaluated against the provisional value of 1; variants: clause orders, coinductive marks
        co = rng.random() < 0.25
        inner = [([2], False), ([], True), ([0], False)]
        if rng.random() < 0.4:
            rng.shuffle(inner)
        G = [(co, [([1, 2], False)]), (co, inner), (co, [([1], False)])]
        if rng.random() < 0.3:
            G.append((co, [([2], False), ([], False)]))
            G[0] = (co, [([1, 2, 3], False)])
    elif shape == "stale_member":
        # head 0 -> member 1 -> 0 (a cycle); node 2 reaches the member AFTER it was popped (still provisional);
        # the head's final value differs from its provisional one, so 2 must not be final before the head is:
        # coinductive: a failing leaf 3 makes the head fail; inductive: a second clause makes the head succeed.
        co = rng.random() < 0.5
        if co:
            G = [(True, [([1, 2, 3], False)]), (True, [([0], False)]), (True, [([1], False)]), (False, [])]
        else:
            G = [(False, [([1], False), ([2], False), ([], False)]), (False, [([0], False)]), (False, [([1], False)])]
            if rng.random() < 0.5:
                G[2] = (False, [([1], False), ([0], False)])
        if rng.random() < 0.4:   # one more dependent node behind the member
            G.append((co, [([2], False)]))
            k = len(G) - 1
            if co:
                G[0] = (True, [([1, 2, k, 3], False)])
            else:
                G[0] = (False, [([1], False), ([2], False), ([k], False), ([], False)])
    else:
        three = shape == "random3"
        n = rng.randint(2, nmax)
        pco = rng.choice([0.0, 0.0, 0.3, 1.0])
        G = []
        for i in range(n):
            cls = []
            for _ in range(rng.choice([0, 1, 1, 2, 2, 3])):
                k = rng.choice([0, 1, 1, 2, 3])
                subs = [rng.randrange(n) for _ in range(k)]
                cls.append((subs, three and rng.random() < 0.25))
            G.append((rng.random() < pco, cls))
    return shape, G


def graph_sx(G):
    return [("Node", c, [("Cl", [int(m) for m in subs], amb) for (subs, amb) in cls]) for (c, cls) in G]


def graph_coq(G):
    return [("mkNode", c, [sx.Pair([sx.Nat(m) for m in subs], amb) for (subs, amb) in cls]) for (c, cls) in G]


def case_sx(G, overflow, caching, stop, panic, hist):
    return ("Case", graph_sx(G), overflow, caching, list(stop), list(panic), list(hist))


def case_coq(G, overflow, caching, stop, panic, hist):
    nat = lambda l: [sx.Nat(x) for x in l]
    return ("mkCase", graph_coq(G), sx.Nat(overflow), caching, nat(stop), nat(panic), nat(hist))


def parse_obs(line):
    """harness result line -> list of dicts (panic messages mapped to sites)"""
    if line is None or line == "Timeout" or line.startswith("(Abort") or line.startswith("(BadInput") or line.startswith("(Panic"):
        return None
    v = sx.parse_sexp(line)
    out = []
    for o in v:
        assert o[0] == "Obs"
        oc = o[1]
        if oc[0] == "OVal":
            outcome = ("OVal", oc[1])
        else:
            outcome = ("OPanic", panic_site(str(oc[1])))
        cache = [None if c == "None" else c[1] for c in o[2]]
        out.append({"out": outcome, "cache": cache, "stack": o[3], "graph": o[4], "work": o[5], "iters": o[6],
                    "ticks": o[7], "sci": o[8]})
    return out


def obs_coq(obs):
    def one(o):
        oc = ("OVal", o["out"][1]) if o["out"][0] == "OVal" else ("OPanic", o["out"][1])
        cache = ["None" if c is None else ("Some", c) for c in o["cache"]]
        return ("mkObs", oc, cache, sx.Nat(o["stack"]), sx.Nat(o["graph"]), sx.Nat(o["work"]), sx.Nat(o["iters"]),
                sx.Nat(o["ticks"]), sx.Nat(o["sci"]))
    return [one(o) for o in obs]


def run_real(cases, timeout=300):
    """cases: list of (G, overflow, caching, stop, panic, hist) -> list of parsed observations (None = died)"""
    lines = core.run_harness("engine", [case_sx(*c) for c in cases], timeout=timeout)
    return [parse_obs(l) for l in lines], lines


BOUND_FN = ("(fun c => run_case repaired (fuel_bound (c_graph c) (mk_config repaired (c_overflow c) (c_caching c) "
            "(c_stop c) (c_panic c))) c)")


def model_mismatches(ctx, tag, cases, real, variant="repaired", fn=None, imports=("Engine.RecEngine",)):
    """indices of cases whose real observation differs from the Coq model's (evaluated in Coq);
    fn=BOUND_FN (imports Engine.RecFuel) runs the model with exactly the explicit fuel bound"""
    idx = [i for i, r in enumerate(real) if r is not None and not any(o["out"] == ("OPanic", "Other") for o in r)]
    pairs = [(case_coq(*cases[i]), obs_coq(real[i])) for i in idx]
    if not pairs:
        return []
    bad = core.coq_mismatches(ctx.work, tag, list(imports), fn=fn or ("run_case %s %d%%nat" % (variant, FUEL)),
                              eqb="obs_list_eqb", in_ty="case", out_ty="list obs", pairs=pairs, shard=150)
    return [idx[b] for b in bad]


def sem_mismatches(ctx, tag, graphs):
    """cross-check the Python reference evaluator against Engine.AndOr.eval inside Coq"""
    pairs = [(graph_coq(G), sem(G)) for G in graphs]
    if not pairs:
        return []
    return core.coq_mismatches(ctx.work, tag, ["Engine.RecEngine"],
                               fn="(fun g => map (eval g) (seq 0 (length g)))",
                               eqb="list_eqb val_eqb", in_ty="graph", out_ty="list val", pairs=pairs, shard=300)


def model_eval(ctx, tag, case, variant="repaired"):
    """model output for a replay / diagnostics (text)"""
    return core.coq_eval(ctx.work, tag, ["Engine.RecEngine"], ["run_case %s %d%%nat %s" % (variant, FUEL, sx.to_coq(case_coq(*case)))])[0]


def orders(rng, goals, quick=True, limit=12):
    """goal orders with repetitions: rotations, seeded permutations, a doubled list"""
    goals = list(goals)
    if not quick and len(goals) <= 5:
        out = [list(p) for p in itertools.permutations(goals)]
    else:
        out = [goals[i:] + goals[:i] for i in range(len(goals))]
        for _ in range(limit):
            p = goals[:]
            rng.shuffle(p)
            out.append(p)
    out.append(goals + list(reversed(goals)))
    seen, res = set(), []
    for o in out:
        if tuple(o) not in seen:
            seen.add(tuple(o))
            res.append(o)
    return res
