"""C07 — associated types normalize to the value of the applicable impl."""
import collections
import hashlib
import re

from vlib import core, logic, sx
from vlib import assocgen as ag
from vlib import proggen as pg

META = {
    "id": "C07", "level": "proof",
    "technique": "Coq rule model of Normalize-From-Impl / AliasEq-Normalize / AliasEq-Placeholder clause generation with "
                 "theorems normalize_spec, normalize_functional, aliaseq_spec, norm_value_sound, norm_value_none, "
                 "with_priorities_prefers_high; the verified normalizer norm_value and the verified evaluator are run inside "
                 "Coq on generated coherent programs and compared with both real solvers on Normalize / `X: Tr<A = Y>` / "
                 "alias-equality goals and their forall variants",
    "level_text": "The clause program generated for associated types is related to the rule system (impl lookup, substitution, "
                  "where clauses, recursive normalization) by theorems for all programs; the executable normalizer is proved "
                  "to return only solutions and to say 'no impl applies' only when no solution exists.  Each solver answer is "
                  "compared with the value computed by that normalizer in the Coq kernel.",
    "level_note": "Fragment: traits without extra parameters, non-generic associated types, nested projections of depth 1 in "
                  "values (given to the model in lowered form by the generator; the lowering is checked only through the "
                  "agreement with the solvers).  normalize_functional is proved for values without nested projections; with a "
                  "nested projection the clauses have a second (placeholder-form) solution (nested_two_solutions), so an "
                  "Ambiguous answer is tolerated exactly where a second solution is verified by the evaluator.  The "
                  "implementation side is a finite seeded case stream.",
    "design_ref": "DESIGN.md §4 C07",
    "assumptions": [
        "programs are coherent by construction (pairwise non-unifiable impl headers per trait); lowered without the WF/coherence checks",
        "harness translation of chalk_ir answers to first-order terms; the placeholder type (Tr::A)<X> is read from its Debug label",
    ],
    "bins": ["solve"],
    "quick_s": 60, "thorough_s": 600,
}

FUEL, FE = 12, 400
IMPORTS = ("Rules.Assoc",)


# ---------------------------------------------------------------------------------------
# goals
# ---------------------------------------------------------------------------------------

class Goal:
    def __init__(self, kind, a, X, Y, text, nph):
        self.kind, self.a, self.X, self.Y, self.text, self.nph = kind, a, X, Y, text, nph
        self.answers = {}


def _txt(p, t):
    def vn(k):
        return "X%d" % k
    return ag.ty_text(p, t, vn)


def make_goals(rng, p, n):
    """X ranges over ground types and over types with one universally quantified variable."""
    nm = ag.Norm(p)
    univ = ag.universe(p, 3, 60, rng)
    consts = [t for t in univ if not t[2]]
    assocs = [a for t in p.traits for a in t.assocs]
    out, seen = [], set()

    def add(g):
        if g.text not in seen:
            seen.add(g.text)
            out.append(g)

    def with_forall(t):
        """replace one constant leaf by the forall variable: returns (type with ("ph",0), text type with var)"""
        def rep(x, done):
            if x[0] == "adt" and not x[2] and not done[0] and rng.random() < 0.5:
                done[0] = True
                return ("var", 0)
            if x[0] == "adt":
                return ("adt", x[1], tuple(rep(y, done) for y in x[2]))
            return x
        done = [False]
        tv = rep(t, done)
        if not done[0]:
            tv = ("var", 0)
        return tv

    for _ in range(n * 4):
        if len(out) >= n:
            break
        a = rng.choice(assocs)
        tr = p.traits[p.trait_of(a)].name
        an = "A%d" % a
        X = rng.choice(univ if rng.random() < 0.75 else consts)
        if rng.random() < 0.55:
            # an instance of the header of one of the trait's impls
            ims = [im for im in p.impls if im.trait == p.trait_of(a)]
            if ims:
                im = rng.choice(ims)
                X = ag.subst(im.self_ty, {k: rng.choice(univ if rng.random() < 0.5 else consts) for k in range(im.nvars)})
        fa = rng.random() < 0.25
        if fa:
            Xv = with_forall(X)
            X = ag.subst(Xv, {0: ("ph", 0)})
            xt = _txt(p, Xv)
            wrap = lambda s: "forall<X0> { %s }" % s
        else:
            xt = _txt(p, X)
            wrap = lambda s: s
        v = nm.value(a, X)
        kind = rng.choice(["norm", "norm", "bound", "bound", "bound-ex", "alias"])
        if kind == "norm":
            add(Goal("norm", a, X, None, wrap("exists<U> { Normalize(<%s as %s>::%s -> U) }" % (xt, tr, an)), 1 if fa else 0))
        elif kind == "bound-ex":
            add(Goal("bound-ex", a, X, None, wrap("exists<U> { %s: %s<%s = U> }" % (xt, tr, an)), 1 if fa else 0))
        elif kind == "alias":
            add(Goal("alias", a, X, None, wrap("exists<U> { <%s as %s>::%s = U }" % (xt, tr, an)), 1 if fa else 0))
        else:
            # the right value, or a wrong one (another type of the universe / a mutation of the value)
            writable = v is not None and "phty" not in repr(v)
            r = rng.random()
            if writable and r < 0.5:
                Y = v
            elif writable and r < 0.7 and v[0] == "adt" and v[2]:
                Y = ("adt", v[1], tuple(rng.choice(consts) for _ in v[2]))
            elif r < 0.85:
                Y = rng.choice(univ)
            else:
                Y = rng.choice(consts)
            if fa and rng.random() < 0.5 and not writable:
                Y = ("ph", 0)
            yt = _txt(p, ag.subst(_unph(Y), {}))
            add(Goal("bound", a, X, Y, wrap("%s: %s<%s = %s>" % (xt, tr, an, yt)), 1 if fa else 0))
    return out


def _unph(t):
    if t[0] == "ph":
        return ("var", t[1])
    if t[0] == "adt":
        return ("adt", t[1], tuple(_unph(x) for x in t[2]))
    return t


# ---------------------------------------------------------------------------------------
# answers -> abstract types
# ---------------------------------------------------------------------------------------

def answer_ty(p, t, prefix):
    h = sx.head(t)
    if h == "App":
        label = str(t[1])
        if label.startswith("adt:"):
            return ("adt", label[4:], tuple(answer_ty(p, x, prefix) for x in t[2]))
        m = re.fullmatch(r"assoc:\((\w+)::A(\d+)\)", label)
        if m and len(t[2]) == 1:
            return ("phty", int(m.group(2)), answer_ty(p, t[2][0], prefix))
        raise KeyError(label)
    if h == "Ph":
        phs = [(q[1], q[2]) for q in prefix if sx.head(q) == "A"]
        return ("ph", phs.index((t[1], t[2])))
    if h == "BV":
        return ("bv", t[1])
    raise KeyError(sx.to_sexp(t))


def classify(ans):
    h = sx.head(ans)
    if h in ("AmbigDefinite", "AmbigSuggested", "AmbigUnknown"):
        return "Ambig"
    return h


# ---------------------------------------------------------------------------------------

def run(ctx):
    thms = ["normalize_spec", "normalize_functional", "aliaseq_spec", "norm_value_sound", "norm_value_none",
            "with_priorities_prefers_high", "nested_two_solutions"]
    ok, why = ctx.proof_stage("Props.C07", thms)
    proof_broken = None if ok else why
    core.build_harness(bins=["solve"])
    rng = ctx.rng
    progs = list(ag.corpus())
    for _ in range(ctx.n(40, 400)):
        progs.append(ag.gen_program(rng))
    work = []
    for p in progs:
        work.append((p, ag.to_text(p), make_goals(rng, p, ctx.n(12, 16))))

    cases, meta = [], []
    for w, (p, text, goals) in enumerate(work):
        for sname, sv in (("slg", pg.SLG), ("rec", pg.REC)):
            cases.append(pg.case(text, [g.text for g in goals], sv, "Fresh", [("Cpu", ctx.n(4, 6))]))
            meta.append((w, sname))
    res = logic.solve_cases(cases, timeout=ctx.n(600, 3000))
    for (w, sname), r in zip(meta, res):
        p, text, goals = work[w]
        if not r["ok"]:
            ctx.violation({"kind": "infrastructure", "broken": "a generated program failed to lower", "program": text,
                           "detail": (r["error"] or "")[:1500]}, no_input=True)
            return
        for g, gr in zip(goals, r["goals"]):
            g.answers[sname] = gr

    # ---- the model, evaluated in Coq ---------------------------------------------------
    defs, exprs, emeta = {}, [], []
    for w, (p, text, goals) in enumerate(work):
        pname = "P%d" % w
        defs[pname] = ("aprog", ag.to_model(p))
        nm = ag.Norm(p)
        exprs.append(([pname], logic.bb("rr_allb (assoc_clauses %s)" % pname)))
        emeta.append((w, None, "rr"))
        for gi, g in enumerate(goals):
            X = sx.to_coq(ag.ty_model(p, g.X))
            v = nm.value(g.a, g.X)
            g.v_py = v
            exp = "Some (Some %s)" % sx.to_coq(ag.ty_model(p, v)) if v is not None else "Some None"
            # 1 = the model agrees with the generator's normalizer, 0 = it does not, 2 = model inconclusive
            exprs.append(([pname], "match norm_value %d %d %s %d%%N %s with None => 2%%N | r => if oty_eqb r (%s) then 1%%N else 0%%N end"
                          % (FUEL, FE, pname, g.a, X, exp)))
            emeta.append((w, gi, "value"))
            if g.kind == "bound":
                exprs.append(([pname], logic.ob("accepts %d %s %d%%N %d%%N %s %s" % (
                    FE, pname, 1000 + p.trait_of(g.a), g.a, X, sx.to_coq(ag.ty_model(p, g.Y))))))
                emeta.append((w, gi, "accepts"))
            else:
                # a second solution (tolerance of Ambiguous): any alternative the generator finds, verified by the evaluator
                sols = nm.norm_solutions(g.a, g.X) if g.kind == "norm" else nm.solutions(g.a, g.X) if v is not None or g.kind == "alias" else []
                alt = next((s for s in sols if s != v), None)
                g.alt = alt
                if alt is not None and v is not None:
                    pred = "aNorm" if g.kind == "norm" else "aAlias"
                    exprs.append(([pname], logic.ob("eval_atom %d (assoc_clauses %s) [] (%s %d%%N %s %s)" % (
                        FE, pname, pred, g.a, X, sx.to_coq(ag.ty_model(p, alt))))))
                    emeta.append((w, gi, "alt"))
    codes, fail = logic.coq_codes(ctx.work, "assoc", defs, exprs, shard=max(40, len(exprs) // 8 + 1), imports=IMPORTS, timeout=1200)
    if fail:
        raise core.CheckFailure("coq evaluation failed: %s" % (fail[0],))
    info = collections.defaultdict(dict)
    for (w, gi, what), c in zip(emeta, codes):
        if what == "rr":
            if c != 1:
                raise core.CheckFailure("generated program is not range-restricted: %s" % work[w][1])
            continue
        info[(w, gi)][what] = c

    # ---- comparison --------------------------------------------------------------------
    hist = collections.Counter()
    incon = collections.Counter()
    for w, (p, text, goals) in enumerate(work):
        for gi, g in enumerate(goals):
            inf = info[(w, gi)]
            if inf.get("value") == 0:
                raise core.CheckFailure("generator normalizer and Coq model disagree on %s / %s" % (text, g.text))
            if inf.get("value") == 2:
                incon["model-inconclusive"] += 1
                continue
            v = g.v_py
            two = inf.get("alt") == 1
            key = hashlib.sha1((text + "##" + g.text).encode()).hexdigest()[:16]
            for sname in ("slg", "rec"):
                gr = g.answers.get(sname)
                if gr is None or gr[0] == "error":
                    incon["goal-error"] += 1
                    continue
                prefix, ans = gr
                k = classify(ans)
                if k not in ("Unique", "NoSolution", "Ambig"):
                    incon["%s:%s" % (sname, k)] += 1
                    continue
                hist["%s:%s:%s" % (g.kind, "applies" if v is not None else "no-impl", k)] += 1
                ctx.count(g.kind, (key, sname), nontrivial=(v is not None))
                problem = None
                t = None
                if k == "Unique" and g.kind != "bound":
                    try:
                        t = answer_ty(p, ans[2][0], prefix)
                    except (KeyError, ValueError, IndexError) as e:
                        problem = "unique answer with an untranslatable type: %s" % e
                if problem is None:
                    problem = judge(g, v, k, t, two, inf)
                if problem and k == "Ambig" and sname == "slg" and max(tsize(g.X), tsize(v), tsize(g.Y)) >= 7:
                    # SLG truncates goals/answers beyond max_size = 10 type nodes and then answers Ambiguous
                    incon["slg-ambiguous-near-size-limit"] += 1
                    problem = None
                if problem:
                    ctx.violation({"kind": "assoc", "problem": problem, "program": text, "goal": g.text, "solver": sname,
                                   "answer": sx.to_sexp(ans), "model_value": repr(v), "second_solution_verified": two,
                                   "accepts": inf.get("accepts")})
                elif v is not None and k == "Unique":
                    ctx.sample({"program": text[:400], "goal": g.text, "solver": sname, "answer": sx.to_sexp(ans)[:160], "model_value": repr(v)[:160]})

    if proof_broken and not ctx.violations:
        ctx.violation({"kind": "proof", "broken": proof_broken}, no_input=True)
    ctx.cov["rule"] = ("evaluations = (program, goal, solver) triples with a real answer compared against the Coq model's value; "
                       "non-trivial = an impl applies to the projection; distinct by (program text, goal text, solver)")
    ctx.cov["input_distribution"] = {"programs": len(work), "kind:model:answer": dict(hist), "not_compared": dict(incon)}
    ctx.cov["inconclusive"] = sum(incon.values())


def tsize(t):
    if t is None:
        return 0
    if t[0] == "adt":
        return 1 + sum(tsize(x) for x in t[2])
    if t[0] in ("proj", "phty"):
        return 1 + tsize(t[2])
    return 1


def judge(g, v, k, t, two, inf):
    """returns a description of the violation or None"""
    if g.kind == "norm":
        if v is None:
            return None if k == "NoSolution" else "no impl applies but the normalization goal is not refuted"
        if k == "NoSolution":
            return "an impl applies but the solver finds no solution"
        if k == "Unique":
            return None if t == v else "unique type differs from the value of the applicable impl"
        return None if two else "Ambiguous although the normalization goal has exactly one solution"
    if g.kind == "bound-ex":
        if v is None:
            return None if k == "NoSolution" else "no impl applies but `X: Tr<A = U>` is not refuted"
        if k == "NoSolution":
            return "an impl applies but the solver finds no solution"
        if k == "Unique":
            return None if t == v else "unique type differs from the value of the applicable impl"
        return None            # the placeholder form is a second solution
    if g.kind == "alias":
        if k == "NoSolution":
            return "alias equality refuted although the placeholder form is a solution"
        if k == "Unique":
            want = v if v is not None else ("phty", g.a, g.X)
            return None if t == want else "unique type differs from the normalized value / placeholder form"
        return None if v is not None else "Ambiguous although the only solution is the placeholder form"
    # bound: X: Tr<A = Y>
    acc = inf.get("accepts")
    if acc == 2:
        return None
    if acc == 0:
        return "a wrong type is accepted" if k == "Unique" else None
    if k == "NoSolution":
        return "the value of the applicable impl is rejected"
    return None


def replay(ctx, obj):
    core.build_harness(bins=["solve"])
    sv = pg.SLG if obj.get("solver") == "slg" else pg.REC
    res = logic.solve_cases([pg.case(obj["program"], [obj["goal"]], sv, "Fresh", [("Cpu", 10)])], timeout=300)
    r = res[0]
    print(r["error"] or sx.to_sexp(r["goals"][0][1]))
    print("recorded:", obj.get("answer"), "| model value:", obj.get("model_value"), "| problem:", obj.get("problem"))
    same = r["ok"] and r["goals"] and r["goals"][0][0] != "error" and sx.to_sexp(r["goals"][0][1]) == obj.get("answer")
    return 1 if same else 0
