"""Shared helpers of the text-layer checks (C22 writer round trip, C24 parse/lower never panics):
percent encoding of the harness protocol, a tokenizer of the .chalk surface syntax, run-time
harvesting of seed programs/goals from /repo, delta-debugging shrinker."""
from __future__ import annotations

import glob
import os
import re
import urllib.parse

from vlib import core, sx

_SAFE = set(range(0x20, 0x7f)) - set(b'%"\\')


def pct(data) -> str:
    b = data.encode("utf8") if isinstance(data, str) else bytes(data)
    return "".join(chr(c) if c in _SAFE else "%%%02X" % c for c in b)


def unpct(s: str) -> str:
    return urllib.parse.unquote(s, errors="replace")


def S(data) -> sx.Str:
    return sx.Str(pct(data))


TOKEN_RE = re.compile(r"'[A-Za-z_][A-Za-z0-9_]*|[A-Za-z_][A-Za-z0-9_]*|[0-9]+|->|::|\.\.\.|//[^\n]*|\s+|.", re.S)


def tokenize(text: str, keep_ws=False):
    out = []
    for m in TOKEN_RE.finditer(text):
        t = m.group(0)
        if not keep_ws and (t.isspace() or t.startswith("//")):
            continue
        out.append(t)
    return out


def _balanced_blocks(src: str, keyword: str):
    """Yield the text between the braces of every `<keyword> { ... }` block (brace matching,
    string literals in the chalk snippets do not contain braces)."""
    for m in re.finditer(r"\b%s\s*\{" % keyword, src):
        i = m.end()
        depth = 1
        while i < len(src) and depth:
            c = src[i]
            if c == "{":
                depth += 1
            elif c == "}":
                depth -= 1
            i += 1
        if depth == 0:
            yield src[m.end():i - 1]


_SEEDS = None


def harvest_seeds():
    """(programs, goals) harvested at run time from the pinned tests and libstd.chalk of the
    tree under test.  Nothing is copied into /verif."""
    global _SEEDS
    if _SEEDS is not None:
        return _SEEDS
    progs, goals = [], []
    for path in sorted(glob.glob(os.path.join(core.REPO, "tests", "**", "*.rs"), recursive=True)):
        try:
            src = open(path, encoding="utf8").read()
        except OSError:
            continue
        for b in _balanced_blocks(src, "program"):
            b = b.strip()
            if b and len(b) < 6000:
                progs.append(b)
        for b in _balanced_blocks(src, "goal"):
            b = b.strip()
            if b and len(b) < 2000:
                goals.append(b)
    lib = os.path.join(core.REPO, "libstd.chalk")
    if os.path.exists(lib):
        progs.append(open(lib, encoding="utf8").read())
    # de-duplicate, keep order
    progs = list(dict.fromkeys(progs))
    goals = list(dict.fromkeys(goals))
    _SEEDS = (progs, goals)
    return _SEEDS


def grammar_vocabulary():
    """Terminals of the LALRPOP grammar (quoted literals), read from the tree under test."""
    path = os.path.join(core.REPO, "chalk-parse", "src", "parser.lalrpop")
    src = open(path, encoding="utf8").read()
    toks = set()
    for m in re.finditer(r'"((?:[^"\\]|\\.)+)"', src):
        t = m.group(1).replace('\\"', '"')
        if " " in t or len(t) > 24:
            continue          # error messages, not terminals
        toks.add(t)
    return sorted(toks)


def nesting_depth(text: str) -> int:
    """Input-side measure used by the class finding `deep nesting`: maximal bracket depth plus
    the longest run of prefix type/goal operators."""
    depth = best = 0
    run = best_run = 0
    for t in tokenize(text):
        if t in "([{<":
            depth += 1
            best = max(best, depth)
        elif t in ")]}>":
            depth = max(0, depth - 1)
        if t in ("&", "*", "mut", "const", "not", "compatible", "'static", "'erased") or t.startswith("'"):
            run += 1
            best_run = max(best_run, run)
        elif t not in "([{<":
            run = 0
    return best + best_run


def ddmin(units, still_fails, budget=400, batch=None):
    """Delta debugging over a list of units.  `still_fails(list_of_candidates) -> list[bool]`
    evaluates a batch of candidate unit lists.  Returns a (locally) minimal failing list."""
    n = 2
    cur = list(units)
    spent = 0
    while len(cur) >= 2 and spent < budget:
        size = max(1, len(cur) // n)
        chunks = [cur[i:i + size] for i in range(0, len(cur), size)]
        cands = []
        for k in range(len(chunks)):
            cands.append([u for j, ch in enumerate(chunks) if j != k for u in ch])   # complements
        for k in range(len(chunks)):
            cands.append(chunks[k])                                                    # subsets
        res = still_fails(cands)
        spent += len(cands)
        hit = next((c for c, r in zip(cands, res) if r and len(c) < len(cur)), None)
        if hit is not None:
            cur = hit
            n = max(2, n - 1)
        elif n >= len(cur):
            break
        else:
            n = min(len(cur), n * 2)
    return cur
