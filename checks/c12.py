"""C12 — a panic in a database callback leaves the solver usable: later solves on the same solver
return exactly what a fresh solver returns."""
from __future__ import annotations

import os
import re

from vlib import core, sx
from checks import enginelib as E
from checks import histlib as H
from vlib import proggen as pg

try:
    THEOREMS = re.findall(r"^Theorem\s+(\w+)", open(os.path.join(core.COQ, "Props", "C12.v")).read(), re.M)
except OSError:
    THEOREMS = ["rec_panic_refuted"]

META = {
    "id": "C12", "level": "proof",
    "technique": "Coq theorems over the faithful mechanism model of RecursiveContext<K,V> with a panic-injection point at every callback "
                 "+ equality correspondence with the REAL generic engine for every crash point (hook H3, catch_unwind) "
                 "+ crash-point sweeps on both real solvers with a counting/panicking RustIrDatabase wrapper",
    "level_text": "every callback of the engine into the solver-specific part is a numbered point of the model at which a panic may be injected; "
                  "the theorems quantify over all crash points and all and-or graphs; the real engine is crashed at every point up to the clean run's count.",
    "level_note": "SLG (Drop for SolveState / re-enqueueing of strands / table construction) is tested only: the n-th database callback panics "
                  "(every RustIrDatabase method incl. unification_database() and the UnificationDatabase methods adt_variance / fn_def_variance; "
                  "not interner()), for every n on the sweep programs and sampled otherwise but always with the calls made during clause resolution; then all goals again",
    "design_ref": "DESIGN.md §4 C12",
    "bins": ["engine", "hist"],
    "assumptions": [
        "engine theorems are about the propositional instantiation of SolverStuff (ground and-or graphs)",
        "SLG unwinding is covered by crash-point sweeps on generated programs, not by a model",
    ],
    "quick_s": 90, "thorough_s": 900,
}


def engine_part(ctx):
    rng = ctx.rng
    n = ctx.n(60, 400)
    base = []
    for i in range(n):
        shape, G = E.gen_graph(rng, E.SHAPES[i % len(E.SHAPES)] if i < 3 * len(E.SHAPES) else None)
        base.append((shape, G, rng.randrange(len(G)), rng.random() < 0.8))
    clean = [(G, 40, ca, [], [], [g]) for (_s, G, g, ca) in base]
    fresh_all, fidx = [], {}
    for bi, (_s, G, g, ca) in enumerate(base):
        for x in range(len(G)):
            fidx[(bi, x)] = len(fresh_all)
            fresh_all.append((G, 40, ca, [], [], [x]))
    real, _ = E.run_real(clean + fresh_all)
    rc, rf = real[:len(clean)], real[len(clean):]
    cases, meta = [], []
    for bi, (shape, G, g, ca) in enumerate(base):
        if rc[bi] is None:
            continue
        T = rc[bi][0]["ticks"]
        ns = list(range(T))
        if ctx.quick and len(ns) > 6:
            ns = ns[:3] + rng.sample(ns[3:-1], 2) + ns[-1:]
        rest = list(range(len(G)))
        for k in ns:
            cases.append((G, 40, ca, [], [k], [g] + rest))
            meta.append((bi, shape))
            if rng.random() < 0.5:   # a second injected panic during the retry
                cases.append((G, 40, ca, [], [k, k + 1 + rng.randrange(T + 2)], [g, g] + rest))
                meta.append((bi, shape))
    real2, lines = E.run_real(cases)
    bad = set(E.model_mismatches(ctx, "crash", cases, real2))
    ctx.cov["engine_model_mismatches"] = len(bad)
    viol = known = 0
    for ci, (c, r) in enumerate(zip(cases, real2)):
        bi, shape = meta[ci]
        G, hist = c[0], c[5]
        ctx.count("engine-crash", (E.graph_sx(G), tuple(c[4]), hist[0], c[2]))
        if r is None:
            continue
        failing = None
        for j, (g, o) in enumerate(zip(hist, r)):
            fr = rf[fidx[(bi, g)]]
            if fr is None:
                continue
            full = fr[0]["out"]
            if o["out"] == ("OPanic", "Injected"):
                continue
            if "OverflowDepth" in (o["out"][1], full[1]):
                continue
            if o["out"] != full:
                failing = ("solve after a callback panic differs from a fresh solve", j, (o["out"], full))
                break
        if failing:
            if E.mixed_cycle(G) and ctx.match_known(None, "F27-mixed-cycle"):
                known += 1
                ctx.known_finding(ctx.match_known(None, "F27-mixed-cycle"), "and-or graph %s" % sx.to_sexp(E.graph_sx(G)))
                continue
            viol += 1
            if viol <= 3:
                ctx.violation({"kind": "engine-crash", "what": failing[0], "step": failing[1], "detail": repr(failing[2]),
                               "case": sx.to_sexp(E.case_sx(*c)), "real": lines[ci], "model": E.model_eval(ctx, "v%d" % ci, c)})
    if bad and viol == 0:
        b = sorted(bad)[0]
        ctx.violation({"kind": "correspondence", "broken": "Engine.RecEngine.run_case (repaired) <> real RecursiveContext with injected panics",
                       "case": sx.to_sexp(E.case_sx(*cases[b])), "real": lines[b], "model": E.model_eval(ctx, "mm", cases[b]),
                       "note": "the property itself holds on the implementation's outputs of this run"}, no_input=True)
    ctx.cov["engine_known_class_cases"] = known
    if cases:
        ctx.sample({"engine_case": sx.to_sexp(E.case_sx(*cases[0])), "real": lines[0]})


SOLVERS = [("slg", H.SLG), ("rec", H.REC)]


def solver_part(ctx):
    rng = ctx.rng
    progs = H.programs(rng, ctx.n(3, 20), goals_per=(2, 1, 1))
    progs = [(p, t, g, gt, SOLVERS, False) for (p, t, g, gt) in progs]
    progs += [(p, pg.to_text(p), g, [pg.goal_text(x) for x in g], cfgs, True) for (p, g, cfgs) in H.sweep_programs()]
    c1, i1 = [], []
    for pi, (p, text, goals, gts, solvers, sweep_all) in enumerate(progs):
        for sname, solver in solvers:
            for gi, gt in enumerate(gts):
                i1.append((pi, sname, gi))
                c1.append(H.case(text, solver, [H.solve_step(gt)], trace=True))
    r1, _ = H.run(c1, timeout=ctx.n(600, 2400))
    fresh, calls, traces = {}, {}, {}
    for key, r in zip(i1, r1):
        if r is not None:
            fresh[key] = r[0]["ans"]
            calls[key] = r[0]["db"]
            traces[key] = r[0].get("trace", [])
    cb_seen, n_resolution = {}, 0
    c2, i2 = [], []
    for pi, (p, text, goals, gts, solvers, sweep_all) in enumerate(progs):
        for sname, solver in solvers:
            for gi, gt in enumerate(gts):
                N = calls.get((pi, sname, gi))
                if not N or H.is_death(fresh[(pi, sname, gi)]):
                    continue
                ns = list(range(min(N, ctx.n(200, 200))))
                if ctx.quick and len(ns) > 7 and not sweep_all:
                    stride = max(1, len(ns) // 4)
                    ns = sorted(set([0, 1, len(ns) - 1] + ns[::stride]))
                # the faults that land in clause RESOLUTION (unification_database / adt_variance / fn_def_variance
                # asked for while a clause is resolved against the goal) are always included
                tr = traces.get((pi, sname, gi), [])
                for nm in tr:
                    cb_seen[nm] = cb_seen.get(nm, 0) + 1
                resol = H.resolution_calls(tr)
                cap = ctx.n(10, 60)
                if len(resol) > cap:
                    step = len(resol) / float(cap)
                    resol = sorted(set([resol[int(i * step)] for i in range(cap)] + [resol[0], resol[-1]]))
                unif = [i for i, nm in enumerate(tr) if nm in H.UNIF_CALLBACKS and i not in resol]
                extra_u = rng.sample(unif, min(len(unif), ctx.n(2, 10)))
                ns = sorted(set(ns) | set(resol) | set(extra_u))
                n_resolution += len(resol)
                for k in ns:
                    i2.append((pi, sname, gi, (k,)))
                    c2.append(H.case(text, solver, [H.panic_step(gt, [k])] + [H.solve_step(x) for x in gts]))
                if ns:
                    k = rng.choice(ns)
                    k2 = rng.randrange(N)
                    i2.append((pi, sname, gi, (k, k2)))
                    c2.append(H.case(text, solver, [H.panic_step(gt, [k]), H.panic_step(gt, [k2])] + [H.solve_step(x) for x in gts]))
    r2, outs = H.run(c2, timeout=ctx.n(900, 3000))
    per_pair = {}
    for (pi, sname, gi, ks), r, raw, cs in zip(i2, r2, outs, c2):
        p, text, goals, gts, _solvers, _sweep = progs[pi]
        pair = per_pair.setdefault((pi, sname), {"viol": None, "known": None, "incon": 0, "n": 0})
        if r is None:
            pair["incon"] += 1
            continue
        ctx.count("solver-crash", (text, sname, gi, ks))
        order = [gi] * len(ks) + list(range(len(gts)))
        for j, (step, g) in enumerate(zip(r, order)):
            a = step["ans"]
            if j < len(ks):
                if H.panic_kind(a) == "Injected":
                    continue
                # the injected index was beyond this (shorter) solve: it is an ordinary solve
            fa = fresh.get((pi, sname, g))
            pair["n"] += 1
            if fa is None or H.is_death(fa) or H.is_death(a) or "OverflowDepth" in (H.panic_kind(a), H.panic_kind(fa)):
                pair["incon"] += 1
                continue
            if a != fa and pair["viol"] is None:
                hist = order[:j + 1]
                cls = None
                if sname.startswith("slg") and H.f7_class(p, goals, hist):
                    cls = "F7-slg-coinductive-cycle"
                elif sname.startswith("slg") and H.f16_class(p, goals[g]):
                    cls = "F16-slg-answer-order"
                elif sname.startswith("rec") and H.mixed_class(p, goals):
                    cls = "F27-mixed-cycle"
                rec = {"kind": "solver-crash", "program": text, "solver": sname, "crashed_goal": gts[gi], "db_call": list(ks),
                       "step": j, "goal": gts[g], "answer": sx.to_sexp(a), "fresh_answer": sx.to_sexp(fa),
                       "what": "solve after a database-callback panic differs from a fresh solve", "case": sx.to_sexp(cs), "raw": raw}
                if cls and ctx.match_known(None, cls):
                    pair["known"] = (cls, rec)
                else:
                    pair["viol"] = rec
    stats = {"pairs": 0, "known_class": 0, "inconclusive": 0, "compared": 0, "diff": 0}
    nv = 0
    for key, pair in sorted(per_pair.items()):
        stats["pairs"] += 1
        stats["inconclusive"] += pair["incon"]
        stats["compared"] += pair["n"]
        if pair["known"]:
            stats["known_class"] += 1
            ctx.known_finding(ctx.match_known(None, pair["known"][0]), "%s: %s" % (key[1], pair["known"][1]["program"][:100]))
        if pair["viol"]:
            stats["diff"] += 1
            if nv < 3:
                nv += 1
                ctx.violation(pair["viol"])
    ctx.cov["solver"] = stats
    ctx.cov["fault_points"] = {"callbacks_seen_in_clean_solves": dict(sorted(cb_seen.items())),
                               "resolution_faults_injected": n_resolution,
                               "not_a_fault_point": ["interner (called from everywhere incl. Drop; covered by the repo's own panic.rs)"]}
    ctx.cov["known_class_share"] = round(stats["known_class"] / max(1, stats["pairs"]), 3)
    ctx.cov["inconclusive"] = stats["inconclusive"]
    if c2:
        ctx.sample({"hist_case": sx.to_sexp(c2[0])[:400], "result": (outs[0] or "")[:300]})


def run(ctx):
    ok, why = ctx.proof_stage("Props.C12", THEOREMS)
    core.build_harness(bins=["engine", "hist"])
    engine_part(ctx)
    solver_part(ctx)
    if not ok and not ctx.violations:
        ctx.violation({"kind": "proof", "broken": why}, no_input=True)


def replay(ctx, obj):
    core.build_harness(bins=["engine", "hist"])
    if obj.get("kind", "").startswith("engine") or obj.get("kind") == "correspondence":
        print("real :", core.run_harness("engine", [obj["case"]])[0])
        print("model:", obj.get("model"))
    elif "case" in obj:
        print("real :", core.run_harness("hist", [obj["case"]])[0])
        print("fresh:", obj.get("fresh_answer"))
    return 0
