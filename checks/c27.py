"""C27 — in-place folding is memory-safe at every failure point."""
import os
import re
import time

from vlib import core, sx

META = {
    "id": "C27",
    "level": "proof",
    "technique": ("Coq theorems vec_map_safe / box_map_safe (+ fallback and whole-life-cycle versions) over an executable "
                  "ownership-level abstract machine of fallible_map_vec / fallible_map_box, for all lengths and all mappers "
                  "(= all failure positions, both failure modes); exhaustive bounded differential correspondence of the "
                  "machine's observable event log with the real functions driven through hook H1 on drop-logging element types"),
    "level_text": ("Machine-checked proof (Coq 8.16.1, axiom-free) over a cell-state machine (LiveT|LiveU|Moved|Freed, one "
                   "allocation token, event log) that mirrors in_place.rs statement by statement: for every length, every mapper "
                   "id -> Ok|Err|Panic (hence every failure position and both modes) no Moved/Freed cell is read, no double free "
                   "or drop of a dead cell happens, on failure every position is dropped exactly once and the buffer released "
                   "exactly once, on success nothing is dropped and the buffer is handed over exactly once holding the mapped "
                   "elements; same for boxes and for the safe fallback path. The model is tied to /repo on every run: the real "
                   "fallible_map_vec/box (cfg(chalk_verif) re-export) are run on drop-logging element types (two identical-layout "
                   "pairs, one element type folded to itself through the real TypeFoldable::try_fold_with impls of Vec<T>/Box<T> "
                   "with a scripted failing folder, four non-identical pairs incl. same size with higher AND with lower alignment of U, a ZST pair, and two identical-layout pairs where exactly one side has drop glue (plain Copy data <-> drop-logging)) under a watching global "
                   "allocator for ALL lengths 0..N, every failure position, both modes, and boxes; the observed log must equal "
                   "the machine's log evaluated inside Coq."),
    "level_note": ("Trusted: Coq kernel; the meaning given to ptr::read / ptr::write / drop_in_place / Vec::from_raw_parts / "
                   "Box::from_raw as the machine's primitives (Miri run of the same driver in the thorough tier as supporting "
                   "validation); the hand-written model (coq/Mem/InPlace.v), tied to the code by the bounded exhaustive "
                   "correspondence only; the harness' observation devices (tagged Drop impls, poisoning/quarantining allocator "
                   "wrapper). The fallback path (std's into_iter().map().collect(), Box::new) is described, not verified; its "
                   "clean-up order is compared only up to canonicalisation."),
    "design_ref": "DESIGN.md section 4 C27, section 7 H1",
    "bins": ["mem"],
    "assumptions": [
        "ptr::read/ptr::write/drop_in_place/from_raw_parts behave as the abstract machine's primitives (ownership level)",
        "the mapper either returns Ok with a value, or fails having dropped the element it was given (what a TypeFolder does)",
        "correspondence is exhaustive only up to the stated length bound and for the ten element-type pairs of the harness",
    ],
    "quick_s": 30, "thorough_s": 600,
}

VEC_VARIANTS = ["Same", "Same4", "Fold", "DiffSmall", "DiffBig", "DiffAlign", "DiffAlignDown", "Zst", "PlainT", "PlainU"]
# element types (names as printed by `mem layouts`) of each pair; which path a pair must take is
# NOT tabulated here: the Coq model decides it from the measured sizes/alignments with the
# layout predicate of in_place.rs (Mem.InPlace.classify)
PAIR = {"Same": ("T16", "U16"), "Same4": ("T8", "U8"), "Fold": ("TF", "TF"), "PlainT": ("PT16", "U16"), "PlainU": ("T16", "PU16"), "DiffSmall": ("T16", "U8"),
        "DiffBig": ("T16", "U32B"), "DiffAlign": ("T8", "U8A"), "DiffAlignDown": ("T16", "U16A4"), "Zst": ("TZ", "UZ")}
LAYOUTS = {}   # filled by check_layouts(): type name -> (size, align)
NEEDS_DROP = {}   # type name -> mem::needs_drop


def pair_layout(variant):
    t, u = PAIR[variant]
    return LAYOUTS[t] + LAYOUTS[u]


def pair_needs(variant):
    t, u = PAIR[variant]
    return NEEDS_DROP[t], NEEDS_DROP[u]


def path_of(variant):
    """python reading of the layout test (used only by py_property)"""
    st, al, su, au = pair_layout(variant)
    if st == 0:
        return "LZst"
    return "LSame" if (st == su and al == au) else "LDiff"


OFF = 1000
MODES = {"Err": "RErr", "Panic": "RPanic"}


def ident(j):
    """element ids are distinct and different from positions"""
    return 7 * j + 3


# ---------------------------------------------------------------------------------------
# cases: a dict per case; harness line and Coq term are derived from it

def mk_case(kind, variant, n, extra, pos, mode):
    return {"kind": kind, "variant": variant, "n": n, "extra": extra, "pos": pos, "mode": mode}


def case_ids(c):
    return [ident(j) for j in range(c["n"])]


def harness_line(c):
    fail = "NoFail" if c["pos"] is None else ("FailAt", c["pos"], c["mode"])
    if c["kind"] == "Vec":
        return sx.to_sexp(("Vec", c["variant"], case_ids(c), c["extra"], OFF, fail))
    return sx.to_sexp(("Box", c["variant"], case_ids(c)[0], OFF, fail))


def coq_case(c):
    ids = case_ids(c)
    fail = "NoFail" if c["pos"] is None else ("FailAt", ids[c["pos"]], MODES[c["mode"]])
    st, al, su, au = pair_layout(c["variant"])
    nt, nu = pair_needs(c["variant"])
    return ("TCase", "KVec" if c["kind"] == "Vec" else "KBox", st, al, su, au, nt, nu, ids, sx.Nat(c["extra"]), OFF, fail)


def case_key(c):
    return "%s/%s n=%d extra=%d fail=%s" % (c["kind"], c["variant"], c["n"], c["extra"],
                                            "none" if c["pos"] is None else "%d/%s" % (c["pos"], c["mode"]))


def all_cases(nmax):
    """Exhaustive for the bound: every variant x every length 0..nmax x (no failure | every position x both modes);
    spare capacity 0, and additionally 3 for lengths <= 8; boxes: every variant x (ok | Err | Panic)."""
    out = []
    for v in VEC_VARIANTS:
        for n in range(nmax + 1):
            for extra in ([0, 3] if n <= 8 else [0]):
                out.append(mk_case("Vec", v, n, extra, None, None))
                for p in range(n):
                    for m in ("Err", "Panic"):
                        out.append(mk_case("Vec", v, n, extra, p, m))
        out.append(mk_case("Box", v, 1, 0, None, None))
        for m in ("Err", "Panic"):
            out.append(mk_case("Box", v, 1, 0, 0, m))
    return out


# ---------------------------------------------------------------------------------------
# the property itself, evaluated on the implementation's own log (independent of the model)

def parse_log(line):
    """-> (events, None) or (None, reason)"""
    try:
        v = sx.parse_sexp(line)
    except Exception as e:  # noqa: BLE001
        return None, "unparsable harness output %r (%s)" % (line[:200], e)
    if sx.head(v) == "Log" and isinstance(v, tuple) and len(v) == 2 and isinstance(v[1], list):
        return v[1], None
    return None, "run did not complete: %s" % line[:300]


def py_property(c, events):
    """Returns (problems, undecided): problems = ways in which the run violates C27's statement;
    undecided = deviations that are not about memory safety (wrong outcome, wrong result length)."""
    problems, undecided = [], []
    ids = case_ids(c)
    n = len(ids)
    zst = c["variant"] == "Zst"
    inplace = path_of(c["variant"]) == "LSame"
    heap = (not zst) and (c["kind"] == "Box" or n + c["extra"] > 0)
    nbad = sum(1 for e in events if e == "OBad")
    if nbad:
        problems.append("%d bad memory event(s): drop of a value with a foreign/poisoned tag (type confusion, freed or "
                        "uninitialised memory), double free or wrong-layout free of the input buffer" % nbad)
    if not inplace and "OHandOver" in events:
        problems.append("the input buffer was re-used for the result although T and U do not have identical layouts "
                        "(size, align of T, U = %r): it is then released with a layout it was not allocated with" % (pair_layout(c["variant"]),))
    rets = [e[1] for e in events if sx.head(e) == "OReturn" and isinstance(e, tuple)]
    if len(rets) != 1:
        undecided.append("expected exactly one return, got %r" % (rets,))
        return problems, undecided
    ri = next(i for i, e in enumerate(events) if sx.head(e) == "OReturn" and isinstance(e, tuple))
    window, post = events[:ri], events[ri + 1:]
    exp = "ROk" if c["pos"] is None else MODES[c["mode"]]
    if rets[0] != exp:
        undecided.append("outcome %s, expected %s" % (rets[0], exp))

    nt, nu = pair_needs(c["variant"])

    def drops(evs):
        return [(e[1], 0 if zst else e[2]) for e in evs if sx.head(e) == "ODrop" and isinstance(e, tuple)]

    def glue(expected):
        """values without drop glue are dropped by doing nothing: only the others can (and must) be seen"""
        return [x for x in expected if (nt if x[0] == "ST" else nu)]

    def expect_exactly(actual, expected, when):
        from collections import Counter
        a, e = Counter(actual), Counter(expected)
        for k in sorted(set(a) | set(e)):
            if a[k] != e[k]:
                problems.append("%s: %s element id %d dropped %d time(s), expected %d" % (when, "U" if k[0] == "SU" else "T", k[1], a[k], e[k]))

    if rets[0] == "ROk":
        if drops(window):
            problems.append("on success %d element(s) were dropped before returning: %r" % (len(drops(window)), drops(window)[:6]))
        expect_exactly(drops(post), glue([("SU", 0 if zst else i + OFF) for i in ids]), "disposing of the successful result")
        res = [e[1] for e in events if sx.head(e) == "OResult" and isinstance(e, tuple)]
        if res != [n if c["kind"] == "Vec" else 1]:
            undecided.append("result length %r, expected %d" % (res, n))
    else:
        # failure at the position where the mapper was told to fail (or wherever the run says it failed)
        p = c["pos"] if c["pos"] is not None else 0
        expected = [("SU", 0 if zst else ids[j] + OFF) for j in range(p)] + [("ST", 0 if zst else ids[j]) for j in range(p, n)]
        expect_exactly(drops(window) + drops(post), glue(expected), "failure at position %d" % p)
    nde = sum(1 for e in events if e == "ODealloc")
    if nde != (1 if heap else 0):
        problems.append("input buffer released %d time(s), expected %d (%s)" % (nde, 1 if heap else 0, "leak" if nde == 0 else "double free"))
    if inplace and "ODealloc" in events:
        k = events.index("ODealloc")
        late = drops(events[k + 1:])
        if late:
            problems.append("%d element(s) dropped out of the buffer after it was freed: %r" % (len(late), late[:6]))
    bal = [e[1] for e in events if sx.head(e) == "OBalance" and isinstance(e, tuple)]
    if bal != [0]:
        problems.append("allocation balance at the end of the case %r, expected [0] (leak)" % (bal,))
    return problems, undecided


# ---------------------------------------------------------------------------------------

IMPORTS = ["Mem.InPlace"]


def check_layouts():
    rc, out, err = core.sh([core.harness_bin("mem"), "layouts"], timeout=60)
    v = sx.parse_sexp(out.strip()) if rc == 0 and out.strip() else None
    if not v or sx.head(v) != "Layouts":
        raise core.CheckFailure("mem layouts failed: %s %s" % (out, err))
    L = {str(e[1]): (e[2], e[3], bool(e[4])) for e in v[1]}
    LAYOUTS.clear()
    NEEDS_DROP.clear()
    for k, (sz, al, nd) in L.items():
        LAYOUTS[k] = (sz, al)
        NEEDS_DROP[k] = nd
    la = LAYOUTS
    ok = (la["T16"] == la["U16"] == la["PT16"] == la["PU16"] == la["TF"] and la["T8"] == la["U8"] and la["T16"] != la["U8"]
          and la["T16"] != la["U32B"] and la["T8"][0] == la["U8A"][0] and la["T8"][1] < la["U8A"][1]
          and la["T16"][0] == la["U16A4"][0] and la["T16"][1] > la["U16A4"][1]
          and la["TZ"][0] == 0 and la["UZ"][0] == 0 and la["T16"][0] > 0 and la["T8"][0] > 0
          and not NEEDS_DROP["PT16"] and not NEEDS_DROP["PU16"]
          and all(NEEDS_DROP[k] for k in L if k not in ("PT16", "PU16")))
    if not ok:
        raise core.CheckFailure("element types of the harness do not have the assumed layouts / drop glue: %r" % (v,))
    return {k: list(L[k]) for k in sorted(L)}


def run_cases(ctx, cases, tag):
    """-> list of (case, line, events|None, reason|None)"""
    outs = core.run_harness("mem", [harness_line(c) for c in cases], args=["run"], timeout=600)
    res = []
    for c, o in zip(cases, outs):
        ev, why = parse_log(o if o is not None else "")
        res.append((c, o, ev, why))
    return res


def correspondence(ctx, results, tag):
    """Returns (strict_bad, agree_bad): indices into results whose log differs from the model's
    (event for event / after canonicalisation)."""
    idx = [i for i, r in enumerate(results) if r[2] is not None]
    pairs = [(sx.Pair(coq_case(results[i][0]), results[i][2]), True) for i in idx]
    shard = 200 if ctx.quick else 400
    sb = core.coq_mismatches(ctx.work, tag + "_strict", IMPORTS, fn="agree_strict_t", eqb="Bool.eqb",
                             in_ty="tcase * list oevent", out_ty="bool", pairs=pairs, shard=shard)
    strict_bad = [idx[j] for j in sb]
    agree_bad = []
    if sb:
        ab = core.coq_mismatches(ctx.work, tag + "_agree", IMPORTS, fn="agree_t", eqb="Bool.eqb",
                                 in_ty="tcase * list oevent", out_ty="bool", pairs=[pairs[j] for j in sb], shard=shard)
        agree_bad = [idx[sb[j]] for j in ab]
    return strict_bad, agree_bad


def model_log(ctx, c, tag="model"):
    try:
        return core.coq_eval(ctx.work, tag, IMPORTS, ["run_tcase %s" % sx.to_coq(coq_case(c))])[0]
    except core.CheckFailure as e:
        return "<coq evaluation failed: %s>" % str(e)[-300:]


def miri_stage(ctx):
    """Supporting validation of the abstract machine's primitives: the same driver, same cases (small bound), under Miri."""
    cases = [c for c in all_cases(4) if c["extra"] == 0 or c["n"] <= 1]
    lines = "\n".join(harness_line(c) for c in cases) + "\n"
    env = {"RUSTFLAGS": "--cfg %s" % core.GUARD, "CARGO_TARGET_DIR": os.path.join(core.BUILD, "target-miri" if core.SHADOW is None else "target-miri-" + core.SHADOW),
           "CARGO_NET_OFFLINE": "true", "MIRIFLAGS": (os.environ.get("MIRIFLAGS", "") + " -Zmiri-disable-isolation").strip()}
    t0 = time.time()
    rc, out, err = core.sh(["cargo", "+nightly", "miri", "run", "--offline", "--bin", "mem", "--", "run"],
                           cwd=core.HARNESS, env=env, input=lines, timeout=900)
    info = {"cases": len(cases), "wall_s": round(time.time() - t0, 1), "rc": rc}
    got = [l for l in out.split("\n") if l.startswith("(")]
    ub = re.search(r"error: Undefined Behavior:.*", err)
    if ub or (rc not in (0, 124) and len(got) < len(cases) and "Undefined Behavior" in err):
        k = len(got)
        c = cases[k] if k < len(cases) else None
        info["status"] = "undefined behaviour reported"
        ctx.cov["miri"] = info
        ctx.violation({"kind": "property", "what": "Miri reports undefined behaviour in the real in-place map",
                       "miri": (ub.group(0) if ub else err[-1500:]), "case": harness_line(c) if c else None,
                       "case_desc": case_key(c) if c else None, "miri_stderr_tail": err[-3000:]})
        return
    if rc != 0 or len(got) != len(cases):
        # Miri not usable here (time-out, build problem): supporting validation only, say so
        info["status"] = "not completed (rc=%d, %d/%d results): %s" % (rc, len(got), len(cases), err.strip().split("\n")[-1][:200] if err.strip() else "")
        ctx.cov["miri"] = info
        return
    # the logs under Miri must satisfy the property too (no quarantine there: frees are real)
    nbad = 0
    for c, o in zip(cases, got):
        ev, why = parse_log(o)
        pr, un = py_property(c, ev) if ev is not None else ([why], [])
        if pr:
            nbad += 1
            if nbad <= 2:
                ctx.violation({"kind": "property", "under": "miri", "case": harness_line(c), "case_desc": case_key(c), "problems": pr, "real_log": o})
    info["status"] = "completed, no undefined behaviour reported, %d/%d logs satisfy the property" % (len(cases) - nbad, len(cases))
    ctx.cov["miri"] = info


THEOREMS = ["vec_map_safe", "box_map_safe", "vec_fallback_map_safe", "box_fallback_map_safe",
            "vec_lifecycle_map_safe", "box_lifecycle_map_safe"]


def run(ctx):
    ok, why = ctx.proof_stage("Props.C27", THEOREMS)
    ctx.cov["trusted_base"] = sorted(set(ctx.cov["trusted_base"]) | {
        "meaning of ptr::read / ptr::write / drop_in_place / Vec::from_raw_parts / Box::from_raw as the abstract machine's primitives (coq/Mem/InPlace.v)",
        "observation devices of harness/src/bin/mem.rs: tagged Drop impls, watching / poisoning / quarantining global allocator, allocation counting",
    })
    core.build_harness(bins=["mem"])
    ctx.cov["element_layouts_size_align"] = check_layouts()
    nmax = ctx.n(8, 64)
    cases = all_cases(nmax)
    results = run_cases(ctx, cases, "sweep")

    ctx.cov["rule"] = ("EXHAUSTIVE for the bound N=%d: every element-type pair %s x every vector length 0..N x (no failure | every "
                       "failing position x {Err, Panic}), spare capacity 0 (and 3 for lengths <= 8), plus boxes (every pair x "
                       "{ok, Err, Panic}); ids 7j+3, U id = T id + %d. A case is non-trivial when at least one element exists "
                       "(n >= 1); distinct by (container, pair, n, spare, position, mode)." % (nmax, VEC_VARIANTS, OFF))
    ctx.cov["exhaustive"] = True
    ctx.cov["exhaustive_bound"] = {"max_length": nmax, "positions": "all", "modes": ["Err", "Panic", "none"], "pairs": VEC_VARIANTS}
    for c, o, ev, whyc in results:
        ctx.count("%s/%s" % (c["kind"], c["variant"]), case_key(c), nontrivial=c["n"] >= 1)
    wanted = [("Vec", "Same", 5, 0, 3, "Panic"), ("Vec", "Same4", 4, 3, 0, "Err"), ("Vec", "Same", 3, 0, None, None),
              ("Vec", "DiffAlignDown", 4, 0, 2, "Err"), ("Vec", "Fold", 4, 0, 1, "Panic"), ("Vec", "PlainT", 4, 0, 2, "Err"), ("Box", "Same", 1, 0, 0, "Panic")]
    for c, o, ev, _ in results:
        if (c["kind"], c["variant"], c["n"], c["extra"], c["pos"], c["mode"]) in wanted:
            ctx.sample({"case": harness_line(c), "coq_case": sx.to_coq(coq_case(c)), "real_log": o})

    reported = 0
    # 1. runs that did not complete (abort / time-out / harness panic): the process died inside the real code
    for i, (c, o, ev, whyc) in enumerate(results):
        if ev is None:
            if reported < 3:
                ctx.violation({"kind": "property", "case": harness_line(c), "case_desc": case_key(c), "case_obj": c, "real_log": o,
                               "problems": [whyc], "what": "the real in-place map did not complete on this case (abort / crash / time-out)"})
            reported += 1

    # 2. correspondence with the model
    strict_bad, agree_bad = correspondence(ctx, results, "sweep")
    ctx.cov["traces_validated_against_impl"] = sum(1 for r in results if r[2] is not None) - len(agree_bad)
    ctx.cov["identical_event_for_event"] = sum(1 for r in results if r[2] is not None) - len(strict_bad)
    ctx.cov["differ_only_in_cleanup_order"] = len(strict_bad) - len(agree_bad)
    ctx.cov["disagreements"] = len(agree_bad)

    # 3. the property itself on the implementation's own logs
    nprop_ok = 0
    inconsistent = []
    undecided_only = []
    agree_bad_set = set(agree_bad)
    for i, (c, o, ev, whyc) in enumerate(results):
        if ev is None:
            continue
        problems, undecided = py_property(c, ev)
        if not problems and not undecided:
            nprop_ok += 1
        if i in agree_bad_set:
            if problems:
                if reported < 3:
                    ctx.violation({"kind": "property", "case": harness_line(c), "case_desc": case_key(c), "case_obj": c,
                                   "problems": problems, "other_deviations": undecided, "real_log": o,
                                   "model_log": model_log(ctx, c, "model%d" % reported),
                                   "what": "C27 fails on the real fallible_map_%s for this concrete (type pair, length, failing position, mode)" % c["kind"].lower()})
                reported += 1
            else:
                undecided_only.append((c, o, undecided))
        elif problems or undecided:
            inconsistent.append((c, o, problems + undecided))
    ctx.cov["impl_logs_satisfying_property"] = nprop_ok
    if undecided_only:
        c, o, un = undecided_only[0]
        ctx.violation({"kind": "correspondence", "case": harness_line(c), "case_desc": case_key(c), "case_obj": c, "real_log": o,
                       "model_log": model_log(ctx, c, "model_u"), "deviations": un, "cases_disagreeing": len(undecided_only),
                       "broken": "correspondence relation Mem.InPlace.agree (summarize (run_case c) = summarize real_log) no longer checks, "
                                 "while every element is still dropped exactly once and nothing leaks on the real logs; theorems "
                                 "Props.C27.vec_map_safe / box_map_safe are about the model"}, no_input=True)
    if inconsistent:
        c, o, pr = inconsistent[0]
        raise core.CheckFailure("check inconsistency: model and implementation agree on %s but the Python reading of the property "
                                "rejects the log %s: %s" % (case_key(c), o, pr))
    if not ok:
        ctx.violation({"kind": "proof", "broken": why}, no_input=True)

    # 4. supporting validation under Miri (thorough tier)
    if not ctx.quick and not ctx.violations:
        try:
            miri_stage(ctx)
        except Exception as e:  # noqa: BLE001  (supporting validation must not break the check)
            ctx.cov["miri"] = {"status": "not run: %s: %s" % (type(e).__name__, str(e)[:300])}
    elif ctx.quick:
        ctx.cov["miri"] = {"status": "thorough tier only"}


def replay(ctx, obj):
    c = obj.get("case_obj")
    if not c:
        print("replay object has no case (proof / infrastructure failure): re-run ./vcheck C27")
        return 1
    core.build_harness(bins=["mem"])
    check_layouts()
    line = harness_line(c)
    o = core.run_harness("mem", [line], args=["run"], shards=1, timeout=120)[0]
    print("case      :", case_key(c))
    print("harness   :", line)
    print("real log  :", o)
    print("model log :", model_log(ctx, c))
    ev, why = parse_log(o or "")
    if ev is None:
        print("property  : VIOLATED:", why)
        return 1
    problems, undecided = py_property(c, ev)
    sb, ab = correspondence(ctx, [(c, o, ev, None)], "replay")
    print("agrees with model (canonical):", not ab, " event-for-event:", not sb)
    for p in problems:
        print("property  : VIOLATED:", p)
    for u in undecided:
        print("deviation :", u)
    if not problems and not undecided:
        print("property  : holds on this case")
    return 1 if (problems or undecided or ab) else 0
