"""C11 — interrupted solving is a safe approximation: the cut-short answer is the full answer or
a weaker ambiguous one, and later solves on the same solver equal fresh solves."""
from __future__ import annotations

import os
import re

from vlib import core, sx
from checks import enginelib as E
from checks import histlib as H
from vlib import proggen as pg

try:
    THEOREMS = re.findall(r"^Theorem\s+(\w+)", open(os.path.join(core.COQ, "Props", "C11.v")).read(), re.M)
except OSError:
    THEOREMS = ["rec_interrupt_refuted"]

META = {
    "id": "C11", "level": "proof",
    "technique": "Coq theorems over the faithful mechanism model of RecursiveContext<K,V> with should_continue as an arbitrary boolean stream "
                 "+ equality correspondence with the REAL generic engine for every interruption index (hook H3) "
                 "+ interruption sweeps on both real solvers (solve_limited, then unlimited solves on the same solver vs fresh solvers)",
    "level_text": "should_continue is a boolean stream of the model; the theorems quantify over all streams and all and-or graphs; "
                  "the real engine is run with the callback returning false at its k-th invocation for every k up to the clean run's count.",
    "level_note": "SLG: tested only (every interruption index on generated programs); engine theorems exclude mixed cycles (class F27)",
    "design_ref": "DESIGN.md §4 C11",
    "bins": ["engine", "hist"],
    "assumptions": [
        "engine theorems are about the propositional instantiation of SolverStuff (ground and-or graphs)",
        "SLG interruption (QuantumExceeded -> Ambig) is covered by differential sweeps, not by a model",
    ],
    "quick_s": 90, "thorough_s": 900,
}


def engine_part(ctx):
    rng = ctx.rng
    n = ctx.n(60, 400)
    base = []
    for i in range(n):
        shape, G = E.gen_graph(rng, E.SHAPES[i % len(E.SHAPES)] if i < 3 * len(E.SHAPES) else None)
        g = rng.randrange(len(G))
        caching = rng.random() < 0.8
        base.append((shape, G, g, caching))
    clean = [(G, 40, ca, [], [], [g]) for (_s, G, g, ca) in base]
    fresh_all = []
    fidx = {}
    for bi, (_s, G, g, ca) in enumerate(base):
        for x in range(len(G)):
            fidx[(bi, x)] = len(fresh_all)
            fresh_all.append((G, 40, ca, [], [], [x]))
    real, _ = E.run_real(clean + fresh_all)
    rc, rf = real[:len(clean)], real[len(clean):]
    cases, meta = [], []
    for bi, (shape, G, g, ca) in enumerate(base):
        if rc[bi] is None:
            continue
        K = rc[bi][0]["sci"]
        ks = list(range(K))
        if ctx.quick and len(ks) > 6:
            ks = ks[:3] + rng.sample(ks[3:-1], 2) + ks[-1:]
        rest = list(range(len(G)))
        for k in ks:
            for stop in ([k], list(range(k, k + 64))):
                cases.append((G, 40, ca, stop, [], [g] + rest))
                meta.append((bi, k, shape))
    real2, lines = E.run_real(cases)
    bad = set(E.model_mismatches(ctx, "intr", cases, real2))
    ctx.cov["engine_model_mismatches"] = len(bad)
    viol = known = 0
    for ci, (c, r) in enumerate(zip(cases, real2)):
        bi, k, shape = meta[ci]
        G, hist = c[0], c[5]
        ctx.count("engine-interrupt", (E.graph_sx(G), tuple(c[3][:1]), len(c[3]), hist[0], c[2]))
        if r is None:
            continue
        failing = None
        for j, (g, o) in enumerate(zip(hist, r)):
            fr = rf[fidx[(bi, g)]]
            if fr is None:
                continue
            full = fr[0]["out"]
            if o["out"][0] == "OPanic" or full[0] == "OPanic":
                if o["out"][0] == "OPanic" and o["out"][1] != "OverflowDepth":
                    failing = ("panic", j, o["out"])
                    break
                continue
            if j == 0:
                if not (o["out"] == full or o["out"][1] == "Amb"):
                    failing = ("interrupted answer contradicts the full answer", j, (o["out"], full))
                    break
            else:
                # the callback may still be false during later solves of the LimitedFrom-style schedule
                still = any(x >= r[j - 1]["sci"] for x in c[3])
                if still:
                    if not (o["out"] == full or o["out"][1] == "Amb"):
                        failing = ("interrupted answer contradicts the full answer", j, (o["out"], full))
                        break
                elif o["out"] != full:
                    failing = ("solve after an interruption differs from a fresh solve", j, (o["out"], full))
                    break
        if failing:
            if E.mixed_cycle(G) and ctx.match_known(None, "F27-mixed-cycle"):
                known += 1
                ctx.known_finding(ctx.match_known(None, "F27-mixed-cycle"), "and-or graph %s" % sx.to_sexp(E.graph_sx(G)))
                continue
            viol += 1
            if viol <= 3:
                ctx.violation({"kind": "engine-interrupt", "what": failing[0], "step": failing[1], "detail": repr(failing[2]),
                               "case": sx.to_sexp(E.case_sx(*c)), "real": lines[ci], "model": E.model_eval(ctx, "v%d" % ci, c)})
    if bad and viol == 0:
        b = sorted(bad)[0]
        ctx.violation({"kind": "correspondence", "broken": "Engine.RecEngine.run_case (repaired) <> real RecursiveContext under an interruption schedule",
                       "case": sx.to_sexp(E.case_sx(*cases[b])), "real": lines[b], "model": E.model_eval(ctx, "mm", cases[b]),
                       "note": "the property itself holds on the implementation's outputs of this run"}, no_input=True)
    ctx.cov["engine_known_class_cases"] = known
    if cases:
        ctx.sample({"engine_case": sx.to_sexp(E.case_sx(*cases[0])), "real": lines[0]})


SOLVERS = [("slg", H.SLG), ("rec", H.REC)]


def solver_part(ctx):
    rng = ctx.rng
    progs = H.programs(rng, ctx.n(3, 20), goals_per=(2, 1, 1))
    progs = [(p, t, g, gt, SOLVERS, False) for (p, t, g, gt) in progs]
    progs += [(p, pg.to_text(p), g, [pg.goal_text(x) for x in g], cfgs, True) for (p, g, cfgs) in H.sweep_programs()]
    # phase 1: clean limited runs (callback count) and fresh answers
    c1, i1 = [], []
    for pi, (p, text, goals, gts, solvers, sweep_all) in enumerate(progs):
        for sname, solver in solvers:
            for gi, gt in enumerate(gts):
                i1.append((pi, sname, gi))
                c1.append(H.case(text, solver, [H.limited_step(gt, [])]))
    r1, _ = H.run(c1, timeout=ctx.n(600, 2400))
    fresh, calls = {}, {}
    for key, r in zip(i1, r1):
        if r is not None:
            fresh[key] = r[0]["ans"]
            calls[key] = r[0]["sc"]
    # phase 2: every interruption index (quick: a stride), then all goals unlimited
    c2, i2 = [], []
    for pi, (p, text, goals, gts, solvers, sweep_all) in enumerate(progs):
        for sname, solver in solvers:
            for gi, gt in enumerate(gts):
                K = calls.get((pi, sname, gi))
                if K is None:
                    continue
                ks = list(range(min(K, ctx.n(40, 60))))
                if ctx.quick and len(ks) > 5 and not sweep_all:
                    ks = ks[:2] + rng.sample(ks[2:-1], 2) + ks[-1:]
                for k in ks:
                    for step in (H.limited_step(gt, [k]), H.limited_from_step(gt, k)):
                        i2.append((pi, sname, gi, k))
                        c2.append(H.case(text, solver, [step] + [H.solve_step(x) for x in gts]))
    r2, outs = H.run(c2, timeout=ctx.n(900, 3000))
    per_pair = {}
    for (pi, sname, gi, k), r, raw, cs in zip(i2, r2, outs, c2):
        p, text, goals, gts, _solvers, _sweep = progs[pi]
        pair = per_pair.setdefault((pi, sname), {"viol": None, "known": None, "incon": 0, "n": 0})
        if r is None:
            pair["incon"] += 1
            continue
        ctx.count("solver-interrupt", (text, sname, gi, k, sx.to_sexp(cs[3][0])[:12]))
        order = [gi] + list(range(len(gts)))
        for j, (step, g) in enumerate(zip(r, order)):
            fa = fresh.get((pi, sname, g))
            a = step["ans"]
            pair["n"] += 1
            if fa is None or H.is_death(fa) or H.is_death(a) or "OverflowDepth" in (H.panic_kind(a), H.panic_kind(fa)):
                pair["incon"] += 1
                continue
            ok = H.weaker(a, fa) if j == 0 else (a == fa)
            if not ok and pair["viol"] is None:
                hist = order[:j + 1]
                cls = None
                if sname.startswith("slg") and H.f7_class(p, goals, hist):
                    cls = "F7-slg-coinductive-cycle"
                elif sname.startswith("slg") and H.f16_class(p, goals[g]):
                    cls = "F16-slg-answer-order"
                elif sname.startswith("rec") and H.mixed_class(p, goals):
                    cls = "F27-mixed-cycle"
                rec = {"kind": "solver-interrupt", "program": text, "solver": sname, "interrupted_goal": gts[gi], "k": k,
                       "step": j, "goal": gts[g], "answer": sx.to_sexp(a), "fresh_answer": sx.to_sexp(fa),
                       "what": "interrupted answer is not weaker than the full answer" if j == 0 else "solve after an interruption differs from a fresh solve",
                       "case": sx.to_sexp(cs), "raw": raw}
                if cls and ctx.match_known(None, cls):
                    pair["known"] = (cls, rec)
                else:
                    pair["viol"] = rec
    stats = {"pairs": 0, "known_class": 0, "inconclusive": 0, "compared": 0, "diff": 0}
    nv = 0
    for key, pair in sorted(per_pair.items()):
        stats["pairs"] += 1
        stats["inconclusive"] += pair["incon"]
        stats["compared"] += pair["n"]
        if pair["known"]:
            stats["known_class"] += 1
            ctx.known_finding(ctx.match_known(None, pair["known"][0]), "%s: %s" % (key[1], pair["known"][1]["program"][:100]))
        if pair["viol"]:
            stats["diff"] += 1
            if nv < 3:
                nv += 1
                ctx.violation(pair["viol"])
    ctx.cov["solver"] = stats
    ctx.cov["known_class_share"] = round(stats["known_class"] / max(1, stats["pairs"]), 3)
    ctx.cov["inconclusive"] = stats["inconclusive"]
    if c2:
        ctx.sample({"hist_case": sx.to_sexp(c2[0])[:400], "result": (outs[0] or "")[:300]})


def run(ctx):
    ok, why = ctx.proof_stage("Props.C11", THEOREMS)
    core.build_harness(bins=["engine", "hist"])
    engine_part(ctx)
    solver_part(ctx)
    if not ok and not ctx.violations:
        ctx.violation({"kind": "proof", "broken": why}, no_input=True)


def replay(ctx, obj):
    core.build_harness(bins=["engine", "hist"])
    if obj.get("kind", "").startswith("engine") or obj.get("kind") == "correspondence":
        print("real :", core.run_harness("engine", [obj["case"]])[0])
        print("model:", obj.get("model"))
    elif "case" in obj:
        print("real :", core.run_harness("hist", [obj["case"]])[0])
        print("fresh:", obj.get("fresh_answer"))
    return 0
