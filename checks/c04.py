"""C04 — the SLG and the recursive solver never give incompatible answers."""
import collections

from vlib import core, logic, sx
from vlib import proggen as pg
from vlib import solvercheck as sc

META = {
    "id": "C04", "level": "proof",
    "technique": "Coq theorem contract_compat (two answers meeting the answer contract for ANY solution set are "
                 "`compatible`) + first-order matching instance_of_spec; the executable relation `compatible` is "
                 "evaluated inside Coq (vm_compute) on the real answers of both solvers for generated programs "
                 "x goals and for mutated programs/goals of the repository's own test corpus",
    "level_text": "The relation that defines the property (no NoSolution-vs-Unique, Unique substitutions are variants, "
                  "a Unique substitution is an instance of the other solver's definite guidance) is a Gallina function "
                  "proved to be implied by the answer contract over an arbitrary solution set and is computed by the "
                  "Coq kernel on the implementation's own outputs: every run evaluates the property itself, no model "
                  "of the solvers is involved.",
    "level_note": "The theorem is unbounded; the implementation side is exercised on a finite seeded case stream, so "
                  "absence of a contradiction is established only for the cases run.  Lifetime constraints are not "
                  "compared (as the property states); in the main stage every lifetime of a substitution is mapped to one "
                  "constant, and a separate lifetime stage (checks/c04_lt.py: lifetime-parameterised traits/ADTs, goals "
                  "with lifetime unknowns) compares substitutions with structural lifetimes whenever no Unique answer "
                  "involved carries region constraints.  Cases where a solver dies (CPU limit, native stack overflow, "
                  "panic) are not comparable and are counted separately.",
    "design_ref": "DESIGN.md §4 C04",
    "bins": ["solve"],
    "assumptions": [
        "harness translation of chalk_ir answers to first-order terms (binder-carrying types dyn/fn are opaque constants labelled by their Debug text)",
        "answers are compared per (program, goal) with a fresh solver each; history effects are C10's",
    ],
    "quick_s": 60, "thorough_s": 600,
}

# hand-written programs of the wider syntax with pools of goals (variables: $T = a type of the pool)
WIDE = [
    ("assoc", """trait Iterator { type Item; } struct Vec<T> { } struct Foo { } struct Bar { }
                 impl<T> Iterator for Vec<T> { type Item = T; } impl Iterator for Foo { type Item = Bar; }""",
     ["exists<U> { Normalize(<$T as Iterator>::Item -> U) }", "exists<U> { $T: Iterator<Item = U> }",
      "forall<T> { exists<U> { Vec<T>: Iterator<Item = U> } }", "exists<T> { T: Iterator<Item = $T> }",
      "exists<T, U> { T: Iterator<Item = U> }", "forall<T> { if (T: Iterator<Item = $T>) { exists<U> { <T as Iterator>::Item = U } } }",
      "<$T as Iterator>::Item = $T", "exists<T> { <T as Iterator>::Item = $T }"],
     ["Foo", "Bar", "Vec<Foo>", "Vec<Bar>", "Vec<Vec<Foo>>"]),
    ("builtin", """#[lang(sized)] trait Sized { } #[lang(copy)] trait Copy { } #[lang(clone)] trait Clone { }
                   struct A { } struct B<T> { x: T } struct S { a: u8, b: [u8] } impl Copy for A { } impl Clone for A { }
                   impl<T> Clone for B<T> where T: Clone { }""",
     ["$T: Sized", "$T: Copy", "$T: Clone", "exists<T> { B<T>: Clone }", "exists<T> { T: Copy }", "forall<T> { if (T: Copy) { (T, $T): Copy } }",
      "forall<'a> { &'a $T: Copy }", "forall<'a> { &'a mut $T: Clone }", "exists<T> { (T, $T): Sized }", "not { $T: Sized }"],
     ["A", "B<A>", "S", "u8", "[u8]", "(A, u8)", "str", "[A; 3]", "B<S>", "fn(A) -> u8", "*const A", "!"]),
    ("auto", """#[auto] trait Send { } struct A { } struct N { } impl !Send for N { } struct W<T> { t: T } struct P<T, U> { t: T, u: U }
                struct L { l: W<L> } struct M { n: N, a: A } trait Foo { } impl<T> Foo for T where T: Send { }""",
     ["$T: Send", "$T: Foo", "exists<T> { W<T>: Send }", "exists<T> { P<T, $T>: Send }", "forall<T> { if (T: Send) { W<T>: Foo } }",
      "forall<T> { W<T>: Send }", "not { $T: Send }", "exists<T> { T: Foo }", "forall<'a> { &'a $T: Send }"],
     ["A", "N", "W<A>", "W<N>", "P<A, A>", "P<A, N>", "L", "M", "W<L>", "(A, N)", "[A]", "fn(N)", "*mut N", "u32"]),
    ("lifetimes", """trait Foo<'a> { } struct Ref<'a, T> { } struct I { } impl<'a> Foo<'a> for Ref<'a, I> { } impl<'a, T> Foo<'a> for &'a T { }
                     trait Eq<T> { } impl<T> Eq<T> for T { }""",
     ["forall<'a> { Ref<'a, I>: Foo<'a> }", "forall<'a, 'b> { Ref<'a, I>: Foo<'b> }", "forall<'a> { exists<'b> { Ref<'a, I>: Foo<'b> } }",
      "exists<'a> { forall<'b> { Ref<'a, I>: Foo<'b> } }", "forall<'a> { exists<T> { T: Foo<'a> } }", "forall<'a, 'b> { &'a I: Eq<&'b I> }",
      "exists<'a, 'b> { &'a I: Eq<&'b I> }", "forall<'a> { exists<T> { &'a I: Eq<T> } }"],
     ["I"]),
    ("dyn", """trait Foo { } trait Bar<T> { } struct A { } struct B { } impl Foo for A { } impl<T> Bar<T> for A { }""",
     ["forall<'s> { dyn Foo + 's: Foo }", "forall<'s> { dyn Bar<$T> + 's: Bar<$T> }", "forall<'s> { exists<T> { dyn Bar<T> + 's: Bar<$T> } }",
      "forall<'s> { exists<T> { dyn Bar<$T> + 's: Bar<T> } }", "exists<T> { A: Bar<T> }", "forall<'s> { dyn Foo + 's: Bar<A> }"],
     ["A", "B"]),
    ("custom-clauses", """trait Foo { } struct A { } struct B { } struct W<T> { } forall<T> { W<T>: Foo if T: Foo } forall<> { A: Foo }""",
     ["$T: Foo", "exists<T> { T: Foo }", "exists<T> { W<T>: Foo }", "forall<T> { if (T: Foo) { W<W<T>>: Foo } }"],
     ["A", "B", "W<A>", "W<B>", "W<W<A>>"]),
    ("wf-fromenv", """trait Clone { } trait Ord where Self: Clone { } struct A { } struct S<T> where T: Ord { } impl Clone for A { } impl Ord for A { }""",
     ["WellFormed(S<$T>)", "forall<T> { if (T: Ord) { T: Clone } }", "forall<T> { if (FromEnv(S<T>)) { T: Clone } }", "exists<T> { WellFormed(S<T>) }",
      "forall<T> { if (WellFormed(S<T>)) { T: Ord } }", "$T: Ord", "exists<T> { T: Ord }"],
     ["A", "S<A>"]),
    ("consts", """struct S<const N> { } trait Mk<const N> { } impl<const N> Mk<N> for S<N> { } trait Id { } impl<T> Id for T { }""",
     ["S<3>: Mk<3>", "S<3>: Mk<4>", "exists<const N> { S<N>: Mk<3> }", "forall<const N> { exists<T> { T: Mk<N> } }",
      "forall<const N> { S<N>: Mk<N> }", "exists<T> { T: Mk<5> }"],
     ["S<1>"]),
]


def wide_items(rng, per_prog):
    items, pidx = [], 100000
    for name, text, goals, pool in WIDE:
        text = " ".join(text.split())
        chosen = []
        for _ in range(per_prog):
            g = rng.choice(goals)
            while "$T" in g:
                g = g.replace("$T", rng.choice(pool), 1)
            if g not in chosen:
                chosen.append(g)
        for g in chosen:
            items.append(sc.Item(pidx, None, text, None, g, "wide:" + name, "wide"))
        pidx += 1
    return items


def corpus_items(rng, n_tests, n_mut):
    tests = sc.extract_tests()
    rng.shuffle(tests)
    items, pidx = [], 200000
    for fn, prog, goals in tests[:n_tests]:
        import re
        names = set(re.findall(r"\b(?:struct|enum)\s+([A-Za-z_][A-Za-z0-9_]*)", prog)) | {"u8", "i32", "bool"}
        gs = list(dict.fromkeys(goals))[:6]
        muts = []
        for g in gs:
            for _ in range(n_mut):
                m = sc.mutate_goal(rng, g, names)
                if m not in gs and m not in muts:
                    muts.append(m)
        if len(gs) >= 2:
            a, b = rng.sample(gs, 2)
            muts.append("(%s), (%s)" % (a, b))
        for g in gs + muts:
            items.append(sc.Item(pidx, None, prog, None, g, "tests:" + fn, "corpus" if g in gs else "corpus-mut"))
        pidx += 1
    return items


def classify(ctx, it, why, coq_class=None):
    """Known-finding match for an incompatible pair; returns the finding or None."""
    f = ctx.match_known(it.key())
    if f:
        return f
    if coq_class:
        for cls in coq_class:
            f = ctx.match_known(None, cls)
            if f:
                return f
    return None


def run(ctx):
    ok, why = ctx.proof_stage("Props.C04", ["contract_compat", "instance_of_spec"])
    if not ok:
        ctx.violation({"kind": "proof", "broken": why}, no_input=True)
        return
    core.build_harness(bins=["solve"])
    rng = ctx.rng
    progs, items = sc.fragment_items(rng, ctx.n(30, 380), 3, 3, 5, extra=[(pg.shape_andor, ctx.n(160, 1400))])
    items += wide_items(rng, ctx.n(8, 40))
    from checks import c04_lt
    items += c04_lt.coind_custom_items()
    items += corpus_items(rng, ctx.n(50, 2000), ctx.n(1, 2))
    mism, perr = sc.run_items(items, cpu=ctx.n(4, 6), timeout=ctx.n(600, 3000))
    if mism:
        p = progs[mism[0][0]]
        ctx.violation({"kind": "correspondence", "broken": "generator / .chalk text / lowered program disagree (proggen.dump_matches)",
                       "program": pg.to_text(p), "dump": mism[0][1][:3000]}, no_input=True)
        return
    # frag programs must lower; corpus programs that do not lower without the test's own setup are skipped
    bad_frag = [e for e in perr if e[0] < 100000]
    if bad_frag:
        ctx.violation({"kind": "infrastructure", "broken": "a generated fragment program failed to lower", "detail": str(bad_frag[0])[:2000]}, no_input=True)
        return

    exprs, idx = [], []
    pair_hist = collections.Counter()
    not_compared = collections.Counter()
    for k, it in enumerate(items):
        a1, a2 = it.answers.get("slg", ([], "?"))[1], it.answers.get("rec", ([], "?"))[1]
        k1, k2 = logic.answer_kind(a1), logic.answer_kind(a2)
        if not (sc.is_real(a1) and sc.is_real(a2)):
            if k1 == "GoalError" or k2 == "GoalError":
                not_compared["goal-does-not-lower"] += 1
            else:
                not_compared["%s/%s" % (k1 if not sc.is_real(a1) else "answer", k2 if not sc.is_real(a2) else "answer")] += 1
            continue
        labels = {}
        st = it.prog.symtab() if it.prog is not None else sc.SymAlloc()
        try:
            m1 = sc.model_answer(it, "slg", labels, st)
            m2 = sc.model_answer(it, "rec", labels, st)
        except KeyError as e:
            not_compared["untranslatable:%s" % e] += 1
            continue
        pair_hist["%s/%s" % (k1, k2)] += 1
        nontrivial = not (k1 in ("AmbigUnknown", "AmbigSuggested") or k2 in ("AmbigUnknown", "AmbigSuggested"))
        ctx.count(it.shape.split(":")[0] if ":" in it.shape else "fragment", it.key(), nontrivial=nontrivial)
        exprs.append(([], logic.bb("compatible %s %s" % (sx.to_coq(m1), sx.to_coq(m2)))))
        idx.append(k)
        if nontrivial:
            ctx.sample({"program": it.text[:300], "goal": it.goal_text, "slg": sx.to_sexp(a1)[:200], "rec": sx.to_sexp(a2)[:200]})
    codes, failures = logic.coq_codes(ctx.work, "compat", {}, exprs, shard=max(20, len(exprs) // 16 + 1))
    if failures:
        raise core.CheckFailure("coq evaluation failed: %s" % (failures[0],))
    bad = [idx[j] for j, c in enumerate(codes) if c == 0]

    # class membership of the failing fragment items is decided by the Coq predicates
    for k in bad:
        it = items[k]
        classes = []
        if it.prog is not None:
            q, _ = pg.query_model(it.goal, it.prog.symtab())
            dd = {"P": ("program", pg.to_model(it.prog)), "q": ("query", q)}
            ee = [(["P", "q"], "((if f14_class P q then 1 else 0) + (if f1_class P q then 2 else 0) + (if f14b_class P q then 4 else 0))%N")]
            # symptom of F14b: both Unique and SLG's substitution is a strict instance of the recursive solver's
            lab, stt = {}, it.prog.symtab()
            ms, mr = sc.model_answer(it, "slg", lab, stt), sc.model_answer(it, "rec", lab, stt)
            strict = False
            if sx.head(ms) == "AUnique" and sx.head(mr) == "AUnique":
                dd["s1"] = ("list ty", ms[2]); dd["s2"] = ("list ty", mr[2])
                ee.append((["s1", "s2"], logic.bb("instance_of s1 s2 && negb (instance_of s2 s1)")))
                strict = True
            if not pg.has_exists(it.goal):
                dd["g"] = ("goal", pg.goal_model(it.goal, it.prog.symtab()))
                ee.append((["P", "g"], logic.bb("f7q_class 150 P g")))
            else:
                from checks import c01
                st = it.prog.symtab()
                pre = it.answers["rec"][0] or it.answers["slg"][0]
                phmap, _, _ = pg.prefix_phmap(pre)
                cands = c01.candidates(it, ctx.rng, 24, q[1], q[2])
                dd["c"] = ("list (list ty)", [[c01._cm_ph(t, st, phmap) for t in c] for c in cands])
                ee.append((["P", "q", "c"], logic.bb("f7q_query 150 P q c")))
            cc, fl = logic.coq_codes(ctx.work, "cls%d" % k, dd, ee)
            if strict and not fl:
                strict = cc[1] == 1
                cc = [cc[0]] + cc[2:]
            if not fl and (cc[0] & 4) and strict:
                classes.append("F14b")
            k1 = logic.answer_kind(it.answers["slg"][1])
            k2 = logic.answer_kind(it.answers["rec"][1])
            if not fl and (cc[0] & 1) and k1 == "Unique":
                classes.append("F14")
            if not fl and (cc[0] & 2) and k1 == "AmbigDefinite" and k2 == "Unique" and sc.guidance_repeats(it.answers["slg"][1]):
                classes.append("F1")
            if not fl and len(cc) > 1 and cc[1] == 1 and k1 == "NoSolution":
                classes.append("F7q")
        f = classify(ctx, it, "incompatible", classes)
        if f:
            ctx.known_finding(f, it.goal_text)
            ctx.cov.setdefault("known_class_hits", 0)
            ctx.cov["known_class_hits"] += 1
            continue
        d = it.describe()
        d.update({"kind": "incompatible-answers", "relation": "Contract.compatible = false (computed in Coq on the two real answers)"})
        ctx.violation(d)

    ctx.cov["rule"] = "evaluations = (program, goal) pairs on which both solvers returned an answer and `compatible` was computed in Coq; non-trivial = neither answer is Ambig(Unknown|Suggested); distinct by (program text, goal text)"
    ctx.cov["input_distribution"] = {
        "programs_fragment": len(progs), "shapes": sc.shape_histogram(items),
        "goal_kinds": dict(collections.Counter(it.kind for it in items)),
        "answer_pairs": dict(pair_hist), "not_compared": dict(not_compared),
        "corpus_programs_not_lowering": len([e for e in perr if e[0] >= 100000]) // 2,
    }
    # share of the compared fragment items whose INPUT lies in the F1 class (narrow and previous wide definition)
    fr = [k for k in idx if items[k].prog is not None and pg.has_exists(items[k].goal)]
    dd, ee = {}, []
    for k in fr:
        it = items[k]
        pn, qn = "P%d" % it.pidx, "q%d" % k
        if pn not in dd:
            dd[pn] = ("program", pg.to_model(it.prog))
        dd[qn] = ("query", pg.query_model(it.goal, it.prog.symtab())[0])
        ee.append(([pn, qn], "((if f1_class %s %s then 1 else 0) + (if f1_class_wide %s %s then 2 else 0) + (if f14_class %s %s then 4 else 0) + (if f14b_class %s %s then 8 else 0))%%N" % (pn, qn, pn, qn, pn, qn, pn, qn)))
    cc, fl = logic.coq_codes(ctx.work, "shares", dd, ee, shard=max(20, len(ee) // 16 + 1))
    if fl:
        raise core.CheckFailure("coq evaluation failed: %s" % (fl[0],))
    n = max(1, len(exprs))
    ctx.cov["known_class_shares"] = {"F1": round(sum(1 for c in cc if c & 1) / n, 4),
                                     "F1-previous-wide-definition": round(sum(1 for c in cc if c & 2) / n, 4),
                                     "F14": round(sum(1 for c in cc if c & 4) / n, 4),
                                     "F14b": round(sum(1 for c in cc if c & 8) / n, 4)}
    ctx.cov["known_class_forgiven_alarms"] = ctx.cov.get("known_class_hits", 0)
    ctx.cov["known_class_share"] = round(sum(1 for c in cc if c & 5) / n, 4)
    ctx.cov["inconclusive"] = sum(not_compared.values())
    # lifetime stage: substitutions with structural lifetimes (answers without region constraints)
    from checks import c04_lt
    c04_lt.stage(ctx)


def replay(ctx, obj):
    core.build_harness(bins=["solve"])
    if obj.get("kind") == "incompatible-answers-lifetimes":
        from checks import c04_lt
        return c04_lt.replay(ctx, obj)
    it = sc.Item(0, None, obj["program"], None, obj["goal"], obj.get("shape", "replay"), "replay")
    sc.run_items([it], cpu=10, dump_check=False)
    a1, a2 = it.answers["slg"][1], it.answers["rec"][1]
    print("slg:", sx.to_sexp(a1))
    print("rec:", sx.to_sexp(a2))
    if not (sc.is_real(a1) and sc.is_real(a2)):
        print("not comparable")
        return 0
    labels, st = {}, sc.SymAlloc()
    m1, m2 = sc.model_answer(it, "slg", labels, st), sc.model_answer(it, "rec", labels, st)
    codes, fl = logic.coq_codes(ctx.work, "replay", {}, [([], logic.bb("compatible %s %s" % (sx.to_coq(m1), sx.to_coq(m2))))])
    print("compatible:", codes[0])
    return 0 if codes[0] == 1 else 1
