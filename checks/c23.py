"""C23 — the program printed by the recording database wrapper reproduces the solvers' answers."""
import collections
import hashlib
import re

from vlib import core, logic, sx
from vlib import assocgen as ag
from vlib import proggen as pg

META = {
    "id": "C23", "level": "proof",
    "technique": "Coq theorems eval_atom_restrict / eval_restrict (a restriction that keeps every clause matching an atom of the "
                 "goal's reach set gives the same result of the verified evaluator), covers_reach_sound, recorded_superset "
                 "(recorded-id model of the wrapper) + differential correspondence: goal sequences solved through the real "
                 "LoggingRustIrDatabase, printed text re-parsed and re-lowered by the real front end, same goals on the "
                 "re-lowered program with both solvers, verified evaluator on the models of both programs",
    "level_text": "The dependence of a goal's meaning on the program is proved to be confined to the clauses matching its reach "
                  "set (all programs, all goals of the fragment); that the real wrapper prints at least those items, in a text "
                  "the real parser accepts, is checked on every run by comparing the real answers (and the verified "
                  "evaluator's verdicts) on the original and on the re-lowered program.",
    "level_note": "The recorded-id model states the per-callback obligation (record what the result depends on); which ids a "
                  "solver asks for is not modelled (the solvers short-circuit, so the recorded set need not contain the full "
                  "reach set: the share of goals where it does — then eval_restrict applies — is measured and reported). "
                  "The implementation side is a finite seeded case stream over the C01/C05 fragment (proggen) and the C07 "
                  "fragment (assocgen).",
    "design_ref": "DESIGN.md §4 C23",
    "assumptions": [
        "answers on the original and on the re-lowered program are compared as harness S-expressions rendered with item names",
        "SLG answers that differ only inside the known order-dependence classes F16 / F1 (decided in Coq on the input) are attributed to those findings: the printed program lists items in recording order",
    ],
    "bins": ["logdb", "solve"],
    "quick_s": 70, "thorough_s": 700,
}

IMPORTS = ("Logic.Restrict", "Logic.Perm", "Logic.Contract")
FUEL = 1500

# hand-written witnesses (DESIGN §5 F10, F11) and neighbours, in the abstract syntax of proggen
def corpus():
    out = []
    # F10: a negative impl for one instance suppresses the auto impl for every instance
    p = pg.Prog([pg.Adt("Z"), pg.Adt("N"), pg.Adt("W", 1, "struct", [[pg.var(0)]])], [pg.Trait("Send", 0, ("auto",))],
                [pg.Impl(0, ("Send", (pg.adt("W", pg.adt("N")),)), [], positive=False)], "corpus-F10")
    out.append((p, [("atom", ("Send", (pg.adt("W", pg.adt("Z")),)))]))
    out.append((p, [("atom", ("Send", (pg.adt("W", pg.adt("Z")),))), ("atom", ("Send", (pg.adt("W", pg.adt("N")),))),
                    ("atom", ("Send", (pg.adt("Z"),)))]))
    p = pg.Prog([pg.Adt("Z"), pg.Adt("N"), pg.Adt("W", 1, "struct", [[pg.var(0)]])], [pg.Trait("Send", 0, ("auto",))],
                [pg.Impl(0, ("Send", (pg.adt("W", pg.adt("N")),)), [("Send", (pg.adt("Z"),))], positive=True)], "corpus-F10-pos")
    out.append((p, [("atom", ("Send", (pg.adt("W", pg.adt("Z")),)))]))
    out.append((p, [("atom", ("Send", (pg.adt("W", pg.adt("Z")),))), ("atom", ("Send", (pg.adt("W", pg.adt("N")),)))]))
    # F11: an item that only occurs in the goal's arguments
    p = pg.Prog([pg.Adt("Foo", 1), pg.Adt("Baz"), pg.Adt("Qux")], [pg.Trait("Bar")],
                [pg.Impl(1, ("Bar", (pg.adt("Foo", pg.var(0)),)))], "corpus-F11")
    out.append((p, [("atom", ("Bar", (pg.adt("Foo", pg.adt("Baz")),))), ("atom", ("Bar", (pg.adt("Qux"),))),
                    ("exists", (1,), ("atom", ("Bar", (pg.adt("Foo", pg.var(1)),))))]))
    # a trait / type that only occurs in a hypothesis of the goal
    p = pg.Prog([pg.Adt("S"), pg.Adt("Q")], [pg.Trait("Parent"), pg.Trait("Child")], [pg.Impl(0, ("Parent", (pg.adt("S"),)))], "corpus-hyp-only")
    out.append((p, [("forall", (1,), ("if", (((), ("Child", (pg.var(1),)), ()),), ("atom", ("Parent", (pg.var(1),))))),
                    ("if", (((), ("Child", (pg.adt("Q"),)), ()),), ("atom", ("Parent", (pg.adt("S"),))))]))
    return out


def shape_auto_neg(rng):
    """auto trait, generic structs with negative (or conditional positive) impls for SOME instances,
    wrapper structs whose fields lead to them; goal sequences that ask the auto trait about an
    unsuppressed type before the suppressed one (in one sequence, or inside one goal through a wrapper)"""
    cs = ["A", "B", "C"]
    adts = [pg.Adt(c) for c in cs]
    foo_field = rng.random() < 0.5
    adts.append(pg.Adt("Foo", 1, "struct", [[pg.var(0)] if foo_field else []]))
    adts.append(pg.Adt("Wrapper", 1, "struct", [[pg.var(0)]]))
    adts.append(pg.Adt("Pair", 2, "struct", [[pg.var(0), pg.var(1)]]))
    two = rng.random() < 0.4
    traits = [pg.Trait("Send", 0, ("auto",))] + ([pg.Trait("Sync", 0, ("auto",))] if two else [])
    impls = []
    neg_at = rng.sample(cs, rng.choice([1, 1, 2]))
    for c in neg_at:
        impls.append(pg.Impl(0, ("Send", (pg.adt("Foo", pg.adt(c)),)), [], positive=False))
    if rng.random() < 0.3:
        impls.append(pg.Impl(0, ("Send", (pg.adt("Foo", pg.adt("Wrapper", pg.adt(rng.choice(cs)))),)), [], positive=False))
    if two:
        if rng.random() < 0.5:
            impls.append(pg.Impl(0, ("Sync", (pg.adt("Wrapper", pg.adt(rng.choice(cs))),)), [], positive=False))
        else:
            impls.append(pg.Impl(1, ("Sync", (pg.adt("Pair", pg.var(0), pg.adt("A")),)), [("Sync", (pg.var(0),))], positive=True))
    rng.shuffle(impls)
    p = pg.Prog(adts, traits, impls, "auto-neg")
    if rng.random() < 0.5:
        p = pg.permute(p, rng)
    other = [c for c in cs if c not in neg_at] or cs

    def at(tr, t):
        return ("atom", (tr, (t,)))
    plain = pg.adt(rng.choice(other))
    supp = pg.adt("Foo", pg.adt(rng.choice(other)))          # suppressed only by an impl for ANOTHER instance
    seqs = [
        [at("Send", plain), at("Send", supp)],
        [at("Send", pg.adt("Wrapper", supp))],
        [at("Send", pg.adt("Pair", plain, supp))],
        [at("Send", pg.adt("Wrapper", plain)), at("Send", pg.adt("Foo", pg.adt(neg_at[0]))), at("Send", supp)],
        [at("Send", supp)],
        [("exists", (1,), at("Send", pg.adt("Wrapper", pg.var(1)))), at("Send", pg.adt("Wrapper", pg.adt("Wrapper", supp)))],
    ]
    if two:
        seqs.append([at("Sync", plain), at("Sync", pg.adt("Wrapper", plain)), at("Sync", pg.adt("Pair", supp, pg.adt("A"))), at("Send", supp)])
    return p, seqs


def shape_supertraits(rng):
    """raw-text programs with implied bounds: traits with supertraits / where clauses (some of them
    without any impl, so that they are reached only through hypotheses), a struct with a where clause;
    goals whose hypotheses mention such traits and whose conclusion needs their where clauses"""
    n = rng.randint(3, 5)
    sup = {i: sorted(rng.sample(range(i), rng.choice([0, 1, 1, 2]) if i >= 2 else min(i, rng.choice([0, 1])))) for i in range(n)}
    if not any(sup.values()):
        sup[n - 1] = [0]
    items = ["struct S0 { }", "struct S1 { }", "struct W<T> { }"]
    for i in range(n):
        wc = (" where " + ", ".join("Self: T%d" % j for j in sup[i])) if sup[i] else ""
        items.append("trait T%d%s { }" % (i, wc))
    conv = rng.random() < 0.6
    if conv:
        a, b = rng.randrange(n), rng.randrange(n)
        items.append("trait Conv<P> where Self: T%d, P: T%d { }" % (a, b))
    ordt = rng.randrange(n)
    items.append("struct Ord<T> where T: T%d { }" % ordt)
    with_impls = [i for i in range(n) if rng.random() < 0.6]
    for i in with_impls:
        items.append("impl T%d for S%d { }" % (i, rng.randrange(2)))
        if rng.random() < 0.5:
            items.append("impl<T> T%d for W<T> where T: T%d { }" % (i, rng.randrange(n)))
    rng.shuffle(items)

    def up(i):
        seen, todo = set(), [i]
        while todo:
            x = todo.pop()
            for j in sup[x]:
                if j not in seen:
                    seen.add(j)
                    todo.append(j)
        return sorted(seen)
    goals = []
    for _ in range(8):
        i = rng.randrange(n)
        js = up(i)
        j = rng.choice(js) if js and rng.random() < 0.7 else rng.randrange(n)
        r = rng.random()
        if r < 0.4:
            goals.append("forall<T> { if (T: T%d) { T: T%d } }" % (i, j))
        elif r < 0.55:
            goals.append("if (S%d: T%d) { S%d: T%d }" % (rng.randrange(2), i, rng.randrange(2), j))
        elif r < 0.7:
            goals.append("forall<T> { if (T: T%d) { W<T>: T%d } }" % (i, j))
        elif r < 0.8 and conv:
            goals.append(rng.choice(["forall<T> { if (T: Conv<S0>) { T: T%d } }" % j, "forall<T, U> { if (T: Conv<U>) { U: T%d } }" % j]))
        elif r < 0.9:
            goals.append("forall<T> { if (FromEnv(Ord<T>)) { T: T%d } }" % j)
        else:
            goals.append(rng.choice(["S%d: T%d" % (rng.randrange(2), i), "exists<T> { T: T%d }" % i]))
    goals = list(dict.fromkeys(goals))
    return "\n".join(items), goals


# ---------------------------------------------------------------------------------------
# dump -> abstract program (C01/C05 fragment only)
# ---------------------------------------------------------------------------------------

def _dty(t):
    h = sx.head(t)
    if h == "BV":
        return ("var", t[1])
    if h == "App" and str(t[1]).startswith("adt:"):
        return ("adt", str(t[1])[4:], tuple(_dty(x) for x in t[2]))
    raise ValueError("outside the fragment: %s" % sx.to_sexp(t))


def prog_from_dump(d):
    """parsed (Program [adts] [traits] [impls] extra) -> pg.Prog, or None when outside the fragment"""
    try:
        _, adts, traits, impls, extra = d
        if tuple(extra[1:]) != (0, 0, 0):
            return None
        A = []
        for a in adts:
            if a[5]:
                return None
            A.append(pg.Adt(str(a[1]), a[2], str(a[3]).lower(), [[_dty(f) for f in v] for v in a[4]]))
        T = []
        for t in traits:
            if t[4] or str(t[5]) or t[6]:
                return None
            T.append(pg.Trait(str(t[1]), t[2] - 1, [f for f in t[3] if f in ("auto", "coinductive")]))
        I = []
        for im in impls:
            tr = im[3]
            wcs = []
            for w in im[4]:
                if sx.head(w) != "Implemented":
                    return None
                wcs.append((str(w[1]), tuple(_dty(x) for x in w[2])))
            I.append(pg.Impl(im[1], (str(tr[1]), tuple(_dty(x) for x in tr[2])), wcs, positive=(im[2] is True)))
        return pg.Prog(A, T, I, "dump")
    except (ValueError, IndexError, TypeError):
        return None


def model_with_symtab(p2, st):
    ident = lambda k: k
    cls = [("mkClause", pg.atom_model(c.head, st, ident), [pg.atom_model(w, st, ident) for w in c.wcs]) for c in pg.clauses(p2)]
    co = [st["trait:" + t.name] for t in p2.traits if t.coinductive]
    return ("mkProg", cls, co)


def impl_key(im):
    return sx.to_sexp(("Impl", im.nvars, im.positive, ("TraitRef", sx.Str(im.head[0]), [pg._dump_ty(x) for x in im.head[1]]),
                       [("Implemented", sx.Str(w[0]), [pg._dump_ty(x) for x in w[1]]) for w in im.wcs], 0))


def first_atom(g):
    """the trait atom of a goal that is a single (possibly quantified / negated) trait atom, else None:
    only such an atom is certain to be handed to the database (a conjunction may fail on another
    conjunct first, the solvers differ in the order; `if` elaborates the hypotheses first)"""
    k = g[0]
    if k == "atom":
        return g[1]
    if k in ("forall", "exists"):
        return first_atom(g[2])
    if k == "not":
        return first_atom(g[1])
    return None


def hyp_mentions_unknown(g, evars=frozenset()):
    """an `if` hypothesis mentions an existential variable of the goal: resolving the goal with such a
    hypothesis yields answers that subsume / are subsumed by the answers of the impls (the F16 situation)"""
    k = g[0]
    if k == "exists":
        return hyp_mentions_unknown(g[2], evars | set(g[1]))
    if k == "forall":
        return hyp_mentions_unknown(g[2], evars)
    if k == "and":
        return any(hyp_mentions_unknown(x, evars) for x in g[1])
    if k == "not":
        return hyp_mentions_unknown(g[1], evars)
    if k == "if":
        for vs, h, body in g[1]:
            if (pg.atom_vars(h) | set().union(*[pg.atom_vars(b) for b in body])) & evars:
                return True
        return hyp_mentions_unknown(g[2], evars)
    return False


def goal_names(text):
    return set(re.findall(r"\b[A-Z][A-Za-z0-9_]*\b", text)) - {"Normalize", "WellFormed", "FromEnv"}


def _ground_first(g):
    a = first_atom(g)
    if a is None:
        return None
    # variables of the goal (forall / exists) are treated as constants that match only impl variables
    def fz(t):
        if t[0] == "var":
            return ("adt", "?v%d" % t[1], ())
        return ("adt", t[1], tuple(fz(x) for x in t[2]))
    return (a[0], tuple(fz(t) for t in a[1]))


# ---------------------------------------------------------------------------------------

class Case:
    def __init__(self, kind, prog, text, goals, goal_texts, solver, mode):
        self.kind, self.prog, self.text, self.goals, self.goal_texts, self.solver, self.mode = kind, prog, text, goals, goal_texts, solver, mode
        self.res = None


def build_cases(ctx, rng):
    cases = []
    for p, goals in corpus() + [(q, gs) for q, gs in pg.corpus()]:
        goals = [g for g in goals if not pg.is_floundering_prone(g)]
        for sv in (pg.SLG, pg.REC):
            cases.append(Case("frag", p, pg.to_text(p), goals, [pg.goal_text(g) for g in goals], sv, "Fresh"))
    for _ in range(ctx.n(40, 500)):
        p = pg.gen_program(rng)
        gg = pg.GoalGen(rng, p)
        goals = [g for g in gg.goals(2, 2, 2) if not pg.is_floundering_prone(g)]
        rng.shuffle(goals)
        sv = rng.choice([pg.SLG, pg.REC])
        mode = "History" if rng.random() < 0.3 else "Fresh"
        cases.append(Case("frag", p, pg.to_text(p), goals, [pg.goal_text(g) for g in goals], sv, mode))
    for _ in range(ctx.n(4, 40)):
        p, seqs = shape_auto_neg(rng)
        text = pg.to_text(p)
        for goals in rng.sample(seqs, min(len(seqs), ctx.n(4, 6))):
            sv = rng.choice([pg.SLG, pg.REC])
            mode = rng.choice(["History", "Fresh"])
            cases.append(Case("frag", p, text, goals, [pg.goal_text(g) for g in goals], sv, mode))
    # the DESIGN-style witness: a trait that occurs only in the hypothesis and whose supertrait the conclusion needs
    wit = "trait Parent { }\ntrait Child where Self: Parent { }\nstruct S { }\nimpl Parent for S { }"
    for sv in (pg.SLG, pg.REC):
        gs = ["forall<T> { if (T: Child) { T: Parent } }"]
        cases.append(Case("wide", None, wit, gs, gs, sv, "Fresh"))
    for _ in range(ctx.n(8, 80)):
        text, goals = shape_supertraits(rng)
        for _k in range(2):
            gs = rng.sample(goals, min(len(goals), rng.choice([1, 2, 4])))
            cases.append(Case("wide", None, text, gs, gs, rng.choice([pg.SLG, pg.REC]), rng.choice(["History", "Fresh"])))
    from checks import c07
    for _ in range(ctx.n(10, 120)):
        p = ag.gen_program(rng)
        gs = c07.make_goals(rng, p, 5)
        sv = rng.choice([pg.SLG, pg.REC])
        cases.append(Case("assoc", p, ag.to_text(p), gs, [g.text for g in gs], sv, "Fresh"))
    return cases


def same(a, b):
    return sx.to_sexp(a) == sx.to_sexp(b)


def comparable(a):
    return sx.head(a) in ("Unique", "NoSolution", "AmbigDefinite", "AmbigSuggested", "AmbigUnknown")


def run(ctx):
    thms = ["eval_atom_restrict", "eval_restrict", "covers_reach_sound", "recorded_superset", "f10_refuted", "f11_refuted"]
    ok, why = ctx.proof_stage("Props.C23", thms, extra_targets=["Logic/Perm.vo"])
    proof_broken = None if ok else why
    core.build_harness(bins=["logdb"])
    rng = ctx.rng
    cases = build_cases(ctx, rng)
    lines = [pg.case(c.text, c.goal_texts, c.solver, c.mode, [("Cpu", ctx.n(4, 6))]) for c in cases]
    outs = core.run_harness("logdb", lines, timeout=ctx.n(900, 3000))
    stats = collections.Counter()
    defs, exprs, emeta = {}, [], []
    pending = []        # (case index, goal index, solver name, original answer, new answer) SLG differences to classify
    for ci, (c, o) in enumerate(zip(cases, outs)):
        try:
            r = sx.parse_sexp(o) if o else ("Abort", sx.Str("no output"))
        except ValueError as e:
            r = ("Abort", sx.Str("unparsable harness output: %s" % e))
        desc = {"family": c.kind, "program": c.text, "goals": c.goal_texts, "wrapper_solver": sx.to_sexp(c.solver), "mode": c.mode}
        h = sx.head(r)
        if h == "ProgramError":
            ctx.violation(dict(desc, kind="infrastructure", broken="a generated program failed to lower", detail=sx.to_sexp(r)[:1500]), no_input=True)
            return
        if h != "Result":
            stats["case-died:%s" % h] += 1
            continue
        _, printed, dump0, through, o_slg, o_rec, rep = r
        desc["printed"] = str(printed)
        if sx.head(rep) == "ReparseError":
            ctx.violation(dict(desc, kind="printed-program-does-not-lower", error=str(rep[1])[:1500]))
            continue
        _, dump2, n_slg, n_rec = rep
        key = hashlib.sha1((c.text + "##" + "|".join(c.goal_texts) + sx.to_sexp(c.solver) + c.mode).encode()).hexdigest()[:16]
        orig_of_wrapper = o_slg if sx.head(c.solver) in ("Slg", "SlgWith") else o_rec
        for gi, gt in enumerate(c.goal_texts):
            gdesc = dict(desc, goal=gt)
            # the wrapper must be transparent
            tw, ow = through[gi], orig_of_wrapper[gi]
            if sx.head(tw) == "R" and sx.head(ow) == "R" and comparable(tw[2]) and comparable(ow[2]) and not same(tw, ow):
                ctx.violation(dict(gdesc, kind="wrapper-not-transparent", through=sx.to_sexp(tw), direct=sx.to_sexp(ow)))
                continue
            for sname, olist, nlist in (("slg", o_slg, n_slg), ("rec", o_rec, n_rec)):
                oa, na = olist[gi], nlist[gi]
                if sx.head(oa) != "R":
                    stats["goal-does-not-lower-on-original"] += 1
                    continue
                if sx.head(na) != "R":
                    # the goal cannot be expressed against the printed program
                    missing = re.findall(r"invalid (?:parameter|type|trait) name `(\w+)`", sx.to_sexp(na)) + re.findall(r"`(\w+)`", sx.to_sexp(na))
                    fa = first_atom(c.goals[gi]) if c.kind == "frag" else None
                    in_first = set(re.findall(r"\b[A-Z]\w*", pg.atom_text(fa, pg._gvar))) if fa else None
                    f = None
                    if missing and (in_first is None or missing[0] not in in_first):
                        f = ctx.match_known(None, "F11-name-outside-single-atom")
                    if f:
                        ctx.known_finding(f, gt)
                        stats["known:F11-rest"] += 1
                    else:
                        ctx.violation(dict(gdesc, kind="goal-does-not-lower-on-printed-program", solver=sname, error=sx.to_sexp(na)[:600]))
                    break
                if not (comparable(oa[2]) and comparable(na[2])):
                    stats["not-comparable(limits/panic)"] += 1
                    continue
                stats["%s:compared" % sname] += 1
                nontrivial = sx.head(oa[2]) != "NoSolution"
                ctx.count(c.kind, (key, gi, sname), nontrivial=nontrivial)
                if same(oa, na):
                    if nontrivial:
                        ctx.sample({"program": c.text[:300], "printed": str(printed)[:300], "goal": gt, "solver": sname, "answer": sx.to_sexp(oa[2])[:120]})
                    continue
                wrapper_name = "slg" if sx.head(c.solver) in ("Slg", "SlgWith") else "rec"
                fx = ctx.match_known(None, "replay-solver-differs-from-recording-solver") if sname != wrapper_name else None
                if fx:
                    # the wrapper records what the solver that ran through it asked for; another solver may ask for more
                    ctx.known_finding(fx, gt)
                    stats["known:cross-solver"] += 1
                elif sname == "slg" and c.kind == "frag":
                    pending.append((ci, gi, oa, na, gdesc))
                else:
                    ctx.violation(dict(gdesc, kind="answer-differs-on-printed-program", solver=sname, original=sx.to_sexp(oa), printed_answer=sx.to_sexp(na)))
        # the verified evaluator on both programs (fragment programs, closed goals) and the reach statistics
        if c.kind == "frag":
            p2 = prog_from_dump(dump2)
            st = c.prog.symtab()
            if p2 is None:
                stats["printed-program-outside-model"] += 1
            else:
                try:
                    m2 = model_with_symtab(p2, st)
                except KeyError:
                    m2 = None
                if m2 is not None:
                    defs["P%d" % ci] = ("program", pg.to_model(c.prog))
                    defs["Q%d" % ci] = ("program", m2)
                    for gi, g in enumerate(c.goals):
                        if pg.has_exists(g):
                            continue
                        gm = sx.to_coq(pg.goal_model(g, st))
                        exprs.append((["P%d" % ci, "Q%d" % ci],
                                      "match eval_goal %d P%d [] [] %s, eval_goal %d Q%d [] [] %s with Some a, Some b => if Bool.eqb a b then 1%%N else 0%%N | _, _ => 2%%N end"
                                      % (FUEL, ci, gm, FUEL, ci, gm)))
                        emeta.append(("eval", ci, gi))
                        if g[0] == "atom":
                            am = sx.to_coq(pg.atom_model(g[1], st, None))
                            exprs.append((["P%d" % ci, "Q%d" % ci], logic.ob("covers_reach %d (pclauses P%d) (pclauses Q%d) %s" % (FUEL, ci, ci, am))))
                            emeta.append(("covers", ci, gi))
                # root reach: the impls whose header matches the first atom must be printed
                printed_impls = set(pg.normalize_dump(dump2)[0][2])
                for gi, g in enumerate(c.goals):
                    if sx.head(n_slg[gi]) != "R":
                        continue
                    fa = _ground_first(g)
                    if fa is None:
                        continue
                    for im in c.prog.impls:
                        if im.head[0] != fa[0]:
                            continue
                        s = {}
                        for pat, t in zip(im.head[1], fa[1]):
                            s = ag.match(pat, t, s) if s is not None else None
                        if s is not None:
                            stats["root-impls-checked"] += 1
                            if impl_key(im) not in printed_impls:
                                ctx.violation(dict(desc, goal=c.goal_texts[gi], kind="served-impl-not-printed", impl=impl_key(im)))

    # ---- Coq: evaluator on both programs, reach coverage, classes of the SLG differences ------
    for k, (ci, gi, oa, na, gdesc) in enumerate(pending):
        c = cases[ci]
        q, _ = pg.query_model(c.goals[gi], c.prog.symtab())
        defs.setdefault("P%d" % ci, ("program", pg.to_model(c.prog)))
        g = c.goals[gi]
        if pg.has_exists(g):
            from checks import c03
            cands = [[pg.ty_model(t, c.prog.symtab(), None) for t in tup] for tup in c03.cand_tuples(rng, c.prog, g, 40)]
            f7 = "(if f7q_query %d P%d %s %s then 4%%N else 0%%N)" % (FUEL, ci, sx.to_coq(q), ("(%s : list (list ty))" % sx.to_coq(cands)) if cands else "[]")
        else:
            f7 = "(if f7q_class %d P%d %s then 4%%N else 0%%N)" % (FUEL, ci, sx.to_coq(pg.goal_model(g, c.prog.symtab())))
        exprs.append((["P%d" % ci], "N.add (N.add (if f16_class P%d %s then 1%%N else 0%%N) (if f1_class P%d %s then 2%%N else 0%%N)) %s" % (ci, sx.to_coq(q), ci, sx.to_coq(q), f7)))
        emeta.append(("class", k, None))
    codes, fail = logic.coq_codes(ctx.work, "c23", defs, exprs, shard=max(16, len(exprs) // 8 + 1), imports=IMPORTS, timeout=1200)
    if fail:
        raise core.CheckFailure("coq evaluation failed: %s" % (fail[0],))
    for (what, a, b), code in zip(emeta, codes):
        if what == "eval":
            stats["oracle:%s" % {0: "differs", 1: "same", 2: "inconclusive"}[code]] += 1
            if code == 0:
                c = cases[a]
                ctx.violation({"kind": "meaning-differs-on-printed-program", "program": c.text, "goal": c.goal_texts[b],
                               "relation": "eval_goal (verified evaluator) gives different verdicts on the models of the original and of the re-lowered program"})
        elif what == "covers":
            stats["reach:%s" % {0: "not-all-printed (short-circuit)", 1: "all-printed (eval_restrict applies)", 2: "inconclusive"}[code]] += 1
        else:
            ci, gi, oa, na, gdesc = pending[a]
            f = None
            kinds = {sx.head(oa[2]), sx.head(na[2])}
            if code % 2 == 1:
                f = ctx.match_known(None, "F16")
            if f is None and (code // 2) % 2 == 1 and sx.head(oa[2]).startswith("Ambig") and sx.head(na[2]).startswith("Ambig"):
                f = ctx.match_known(None, "F1")
            if f is None and code >= 4 and "NoSolution" in kinds:
                f = ctx.match_known(None, "F7q")
            if f is None and hyp_mentions_unknown(cases[ci].goals[gi]) and "Unique" in kinds and any(k.startswith("Ambig") for k in kinds):
                f = ctx.match_known(None, "F16-hypothesis-mentions-unknown")
            if f:
                ctx.known_finding(f, gdesc["goal"])
                stats["known:%s" % f["id"]] += 1
            else:
                ctx.violation(dict(gdesc, kind="answer-differs-on-printed-program", solver="slg", original=sx.to_sexp(oa), printed_answer=sx.to_sexp(na),
                                   f16_class=bool(code % 2), f1_class=bool(code >= 2)))

    if proof_broken and not ctx.violations:
        ctx.violation({"kind": "proof", "broken": proof_broken}, no_input=True)
    ctx.cov["rule"] = ("evaluations = (goal sequence, goal, solver) triples whose answers on the original and on the re-lowered printed "
                       "program were compared; non-trivial = the original answer is not NoSolution; distinct by (program, sequence, wrapper solver, mode, goal, solver)")
    ctx.cov["input_distribution"] = {"cases": len(cases), "families": dict(collections.Counter(c.kind for c in cases)),
                                     "modes": dict(collections.Counter(c.mode for c in cases)), "outcomes": dict(stats)}
    ctx.cov["known_class_share"] = round((stats.get("known:F16", 0) + stats.get("known:F1", 0) + stats.get("known:F11-rest", 0) + stats.get("known:cross-solver", 0)) / max(1, stats["slg:compared"] + stats["rec:compared"]), 4)
    ctx.cov["inconclusive"] = stats.get("oracle:inconclusive", 0) + stats.get("not-comparable(limits/panic)", 0)


def replay(ctx, obj):
    core.build_harness(bins=["logdb"])
    sv = sx.parse_sexp(obj.get("wrapper_solver", "Slg"))
    goals = obj.get("goals") or [obj["goal"]]
    outs = core.run_harness("logdb", [pg.case(obj["program"], goals, sv, obj.get("mode", "Fresh"), [("Cpu", 10)])], timeout=300)
    print(outs[0][:6000])
    r = sx.parse_sexp(outs[0])
    if sx.head(r) != "Result":
        return 1
    _, printed, dump0, through, o_slg, o_rec, rep = r
    if sx.head(rep) != "Reparsed":
        return 1
    bad = 0
    for a, b in list(zip(o_slg, rep[2])) + list(zip(o_rec, rep[3])):
        if not same(a, b):
            bad = 1
    return bad
