"""C16 — canonical forms identify queries up to renaming."""
import os

from vlib import core, irgen, sx
from vlib.sx import Pair

META = {
    "id": "C16",
    "level": "proof",
    "technique": "Coq theorems (canon_first_occurrence, canon_iff_renaming, canon_instantiate_canon, ucanon_order_preserving, ucanon_roundtrip, ucanon_roundtrip_refuted, invert_gives_up, invert_no_placeholders) over Gallina models of Canonicalizer / instantiate_canonical / u_canonicalize / UniverseMap / invert + differential correspondence on scripted real InferenceTables, and the property itself evaluated on the implementation's outputs (renamed copies, merged classes, changed universes, round trips)",
    "level_text": "Machine-checked proofs (Coq 8.16, axiom-free) for all terms and all tables of the Gallina model: canonicalization = resolve through the table, number the unbound classes by first occurrence, replace; equal canonical forms iff universe/kind-preserving injective renaming; instantiate-then-canonicalize is the identity on canonical forms; the universe map is strictly monotone in both directions and map_from_canonical undoes u_canonicalize for all three placeholder kinds. The model is tied to /repo on every run: a script builds a real InferenceTable (universes, variables, prior relate calls), the table is dumped through read-only probes, and canonicalize / u_canonicalize / map_from_canonical / instantiate_canonical+canonicalize / the universe map are compared with the model evaluated in Coq; independently the property is evaluated on the implementation alone.",
    "level_note": "Trusted: Coq kernel; hand-written models coq/Infer/{Canon,UCanon,Invert}.v (tied by correspondence on generated cases of bounded size only); harness conversion sexp<->chalk_ir and the table dump (hook H5 verif_universe_of_var + public probe_var / inference_var_root). Const types are opaque in the model (usize in ChalkIr). Fuel: statements are about runs that do not exhaust it (the check uses fuel 64 >> number of variables). canon_iff_renaming '=>' needs inference nodes used at one kind each (well_kinded_infer); the generator guarantees it.",
    "design_ref": "DESIGN.md section 4 C16",
    "bins": ["canon"],
    "assumptions": ["const types are closed (usize), as produced by ChalkIr lowering; the model does not fold them",
                    "panics are compared as panic/no-panic only",
                    "fresh-variable numbering is never compared: instantiate_canonical is observed only through the re-canonicalized value"],
    "quick_s": 60, "thorough_s": 500,
}

N = irgen.node
FUEL = 64
BINDS = ("HBinders", "HFnPtr")

# ---------------------------------------------------------------------------------------------
# generators
# ---------------------------------------------------------------------------------------------


class CGen(irgen.IrGen):
    """Terms whose inference variables respect a kind table: kinds[v] = ('T', tvk) | ('L',) | ('C',)."""

    def __init__(self, rng, kinds, pvar=0.45, **kw):
        kw.setdefault("free_levels", 0)
        kw.setdefault("nuniv", 7)
        super().__init__(rng, **kw)
        self.kinds = kinds
        self.pvar = pvar

    def var_of(self, tag):
        c = [i for i, k in enumerate(self.kinds) if k[0] == tag]
        return self.r.choice(c) if c else None

    def var_term(self, v):
        k = self.kinds[v]
        if k[0] == "T":
            return N(("HInfer", v, k[1]))
        if k[0] == "L":
            return N(("HLInfer", v))
        return N(("HCInfer", v), [irgen.USIZE])

    def _noinfer(self, f, *a):
        saved = self.infer
        self.infer = False
        try:
            return f(*a)
        finally:
            self.infer = saved

    def ty_leaf(self, binders):
        v = self.var_of("T")
        if v is not None and self.r.random() < self.pvar:
            return self.var_term(v)
        return self._noinfer(super().ty_leaf, binders)

    def lifetime(self, binders=0):
        v = self.var_of("L")
        if v is not None and self.r.random() < self.pvar:
            return self.var_term(v)
        return self._noinfer(super().lifetime, binders)

    def const(self, binders=0):
        v = self.var_of("C")
        if v is not None and self.r.random() < self.pvar:
            return self.var_term(v)
        return self._noinfer(super().const, binders)


KIND_CHOICES = [("T", "General")] * 6 + [("T", "Integer"), ("T", "FloatVar"), ("L",), ("L",), ("L",), ("C",), ("C",)]


def gen_case(r, depth, free_bound=False):
    """-> dict(nu, kinds, univ, rels [(a, b)], term)"""
    nu = r.randrange(4)
    nv = r.choice([0, 1, 2, 3, 4, 4, 5, 5, 6, 7])
    kinds = [r.choice(KIND_CHOICES) for _ in range(nv)]
    univ = [r.randrange(nu + 3) if r.random() < 0.15 else r.randrange(nu + 1) for _ in range(nv)]
    g = CGen(r, kinds, pvar=0.6, max_depth=depth, free_levels=1 if free_bound else 0)
    small = CGen(r, kinds, max_depth=2, pvar=0.6, aliases=False, dyn=False, fnptr=r.random() < 0.2)
    rels = []
    for _ in range(r.choice([0, 0, 0, 1, 1, 2, 3]) if nv else 0):
        v = r.randrange(nv)
        tag = kinds[v][0]
        a = g.var_term(v)
        w = small.var_of(tag)
        if w is not None and r.random() < 0.45:
            b = small.var_term(w)
        elif tag == "T":
            b = small.ty(2)
        elif tag == "L":
            b = small.lifetime()
        else:
            b = small.const()
        rels.append((a, b) if r.random() < 0.5 else (b, a))
    # variable-variable unions of every kind (consts and lifetimes as often as types), including chains
    if nv >= 2 and r.random() < 0.5:
        for tag in r.sample(["T", "L", "C"], 3):
            vs = [i for i, kd in enumerate(kinds) if kd[0] == tag and (tag != "T" or kd == kinds[[j for j, k2 in enumerate(kinds) if k2[0] == "T"][0]])]
            if len(vs) >= 2 and r.random() < 0.7:
                r.shuffle(vs)
                chain = vs[:r.choice([2, 2, 3])]
                for x, y in zip(chain, chain[1:]):
                    rels.insert(r.randrange(len(rels) + 1), (g.var_term(x), g.var_term(y)))
    k = r.random()
    if k < 0.5:
        term = g.ty(depth)
    elif k < 0.7:
        term = g.goal(depth)
    elif k < 0.9:
        term = N("HList", [g.garg(depth - 1) for _ in range(r.randint(0, 4))])
    else:
        term = r.choice([g.clause, g.domain_goal, g.wc])(depth) if r.random() < 0.7 else r.choice([g.lifetime, g.const])()
    return {"nu": nu, "kinds": kinds, "univ": univ, "rels": rels, "term": term}


def gen_union_case(r):
    """Small cases centred on classes built by variable-variable unification: 2-4 variables of ONE kind
    (type / lifetime / const), unified pairwise or in a chain, all mentioned directly by the value."""
    nu = r.randrange(3)
    tag = r.choice(["T", "L", "C", "L", "C"])
    kd = (tag, r.choice(["General", "General", "Integer", "FloatVar"])) if tag == "T" else (tag,)
    nv = r.choice([2, 2, 3, 3, 4])
    kinds = [kd] * nv
    extra = r.randrange(3)
    kinds += [r.choice(KIND_CHOICES) for _ in range(extra)]
    univ = [r.randrange(nu + 1) for _ in range(nv + extra)]
    g = CGen(r, kinds, pvar=0.7, max_depth=2)
    order = list(range(nv))
    r.shuffle(order)
    nlinks = r.randrange(nv)           # 0 .. nv-1 links: several classes possible
    rels = []
    for x, y in list(zip(order, order[1:]))[:nlinks]:
        rels.append((g.var_term(x), g.var_term(y)) if r.random() < 0.5 else (g.var_term(y), g.var_term(x)))
    r.shuffle(rels)
    items = [g.var_term(v) for v in range(nv)]
    for _ in range(r.randrange(3)):
        items.append(g.garg(1))
        items.append(g.var_term(r.randrange(nv)))
    r.shuffle(items)
    if r.random() < 0.5:
        term = N("HList", items)
    else:
        term = N(("HAdt", 1), items)
    return {"nu": nu, "kinds": kinds, "univ": univ, "rels": rels, "term": term}


def case_sx(c):
    ops = ["NewUniverse"] * c["nu"] + [("NewVar", u) for u in c["univ"]] + [("Relate", a, b) for a, b in c["rels"]]
    return ("Case", ops, c["term"])


# ---------------------------------------------------------------------------------------------
# term helpers (property predicates evaluated on the implementation's outputs)
# ---------------------------------------------------------------------------------------------

def infer_var(t):
    if t[0] == "Node":
        h = t[1]
        if isinstance(h, tuple) and h[0] in ("HInfer", "HLInfer", "HCInfer"):
            return h[1]
    return None


def rename_term(t, f):
    """apply f to the variable of every inference node"""
    if t[0] != "Node":
        return t
    h = t[1]
    if isinstance(h, tuple) and h[0] in ("HInfer", "HLInfer", "HCInfer"):
        return ("Node", (h[0], f(h[1])) + tuple(h[2:]), t[2])
    if isinstance(h, tuple) and h[0] in ("HCPlaceholder", "HCConcrete"):
        return t
    return ("Node", h, [rename_term(c, f) for c in t[2]])


def rename_occurrences(t, f):
    """like rename_term, but f is called once per occurrence (may answer differently each time)"""
    return rename_term(t, f)


def minimal_union_case(kd):
    """Smallest script showing that two unified variables of kind kd get two binders:
    two variables, one relate, value [a, b] (tried in both orders)."""
    g = CGen(None, [kd, kd])
    cands = []
    for rel in ((0, 1), (1, 0)):
        for items in ((0, 1), (1, 0)):
            cands.append({"nu": 0, "kinds": [kd, kd], "univ": [0, 0], "rels": [(g.var_term(rel[0]), g.var_term(rel[1]))],
                          "term": N("HList", [g.var_term(items[0]), g.var_term(items[1])])})
    outs = core.run_harness("canon", [case_sx(x) for x in cands], args=["canon"], shards=1)
    for x, o in zip(cands, outs):
        res = parse_result(o)
        if res and not is_panic(res["canon"]) and "Ok" in res["opres"] and len(res["canon"][1]) != 1:
            return {"case": sx.to_sexp(case_sx(x)), "canonical": sx.to_sexp(Pair(res["canon"][1], res["canon"][2])),
                    "expected": "one binder: the two variables were unified, the value is [^0.0, ^0.0]"}
    return None


def minimize_class_case(c, table):
    for a in range(min(len(c["kinds"]), len(table))):
        for b in range(a + 1, min(len(c["kinds"]), len(table))):
            if table[a][0] == table[b][0] and c["kinds"][a] == c["kinds"][b] and table[a][1][0] == "Unbound":
                m = minimal_union_case(c["kinds"][a])
                if m:
                    return m
    return None


def syntactic_vars(t, acc=None):
    acc = [] if acc is None else acc
    if t[0] == "Node":
        v = infer_var(t)
        if v is not None:
            acc.append(v)
        elif not (isinstance(t[1], tuple) and t[1][0] in ("HCPlaceholder", "HCConcrete")):
            for c in t[2]:
                syntactic_vars(c, acc)
    return acc


def canon_var_seq(t, depth=0, acc=None):
    """indices of the variables bound by the canonical binder (de Bruijn depth == current depth), in traversal order"""
    acc = [] if acc is None else acc
    if t[0] == "Var":
        if t[2] == depth:
            acc.append((t[3], "T" if t[1] == "STy" else "L"))
    elif t[0] == "CVar":
        if t[1] == depth:
            acc.append((t[2], "C"))
    else:
        h = irgen.head_name(t)
        if h in ("HCInfer", "HCPlaceholder", "HCConcrete"):
            return acc
        d = depth + 1 if h in BINDS else depth
        for c in t[2]:
            canon_var_seq(c, d, acc)
    return acc


def placeholder_universes(t, acc=None):
    acc = [] if acc is None else acc
    if t[0] == "Node":
        h = t[1]
        if isinstance(h, tuple) and h[0] in ("HPlaceholder", "HLPlaceholder", "HCPlaceholder"):
            acc.append(h[1])
            return acc
        if isinstance(h, tuple) and h[0] in ("HCInfer", "HCConcrete"):
            return acc
        for c in t[2]:
            placeholder_universes(c, acc)
    return acc


def classes_in(t, table, acc=None, depth=0):
    """Resolve the value through the dumped table (independently of the Coq model): the distinct unbound
    classes it reaches, in order of first occurrence, as (root, kind at that occurrence, universe)."""
    acc = [] if acc is None else acc
    if t[0] != "Node" or depth > 64:
        return acc
    h = t[1]
    if isinstance(h, tuple) and h[0] in ("HInfer", "HLInfer", "HCInfer"):
        v = h[1]
        if v >= len(table):
            return acc
        root, val = table[v][0], table[v][1]
        if val[0] == "Bound":
            classes_in(val[1], table, acc, depth + 1)
        elif root not in [c[0] for c in acc]:
            kind = ("VTy", h[2]) if h[0] == "HInfer" else ("VLt" if h[0] == "HLInfer" else "VConst")
            acc.append((root, kind, val[1]))
        return acc
    if isinstance(h, tuple) and h[0] in ("HCPlaceholder", "HCConcrete"):
        return acc
    for c in t[2]:
        classes_in(c, table, acc, depth)
    return acc


def vk_tag(vk):
    return "T" if isinstance(vk, tuple) else ("L" if vk == "VLt" else "C")


def is_panic(x):
    return isinstance(x, tuple) and not isinstance(x, Pair) and x[0] == "Panic"


def parse_result(line):
    v = sx.parse_sexp(line)
    if not (isinstance(v, tuple) and v[0] == "R"):
        return None
    tbl = v[1]
    return {"maxu": tbl[1], "table": tbl[2] if len(tbl) > 2 else [], "opres": v[2], "canon": v[3], "ucanon": v[4], "back": v[5],
            "recanon": v[6], "invert": v[7]}


def canon_of(res):
    """(binders, value) or 'panic'"""
    c = res["canon"]
    if is_panic(c):
        return "panic"
    return (c[1], c[2])


# ---------------------------------------------------------------------------------------------
# the check
# ---------------------------------------------------------------------------------------------

def coq_mismatches(*a, **kw):
    """core.coq_mismatches, retried once after rebuilding our .vo files when the shared Coq tree was
    rebuilt underneath us by a concurrent make ("inconsistent assumptions")."""
    try:
        return core.coq_mismatches(*a, **kw)
    except core.CheckFailure as e:
        if "inconsistent assumptions" not in str(e):
            raise
        core.coq_make(["Props/C16.vo", "Infer/Exec.vo"])
        return core.coq_mismatches(*a, **kw)


def load_corpus():
    out = []
    d = os.path.join(core.VERIF, "corpus", "C16")
    if os.path.isdir(d):
        for f in sorted(os.listdir(d)):
            if f.endswith(".sx"):
                for line in open(os.path.join(d, f)):
                    line = line.strip()
                    if line and not line.startswith(";"):
                        out.append(sx.parse_sexp(line))
    return out


def property_on_impl(ctx, tag, csx, res, viol):
    """Properties that involve a single case, evaluated on the implementation's outputs alone."""
    def bad(what, **kw):
        if viol[0] < 4:
            d = {"kind": "property", "what": what, "case": sx.to_sexp(csx), "family": tag}
            d.update({k: (sx.to_sexp(v) if not isinstance(v, str) else v) for k, v in kw.items()})
            ctx.violation(d)
        viol[0] += 1

    c = res["canon"]
    if is_panic(c):
        return
    bs, val, frees = c[1], c[2], c[3]
    # first-occurrence numbering: scanning the value, new binder indices appear as 0, 1, 2, ...
    seq = canon_var_seq(val)
    seen = []
    for idx, ktag in seq:
        if idx not in seen:
            if idx != len(seen):
                bad("canonical variables are not numbered by first occurrence", canonical=val)
                break
            seen.append(idx)
        if idx < len(bs) and vk_tag(bs[idx][0]) != ktag:
            bad("a canonical variable is used at a kind different from its binder's", canonical=val, binders=bs)
            break
    else:
        if not (len(seen) == len(bs) == len(frees)):
            bad("number of binders differs from the number of distinct canonical variables", canonical=val, binders=bs)
    if len(set(f[1] for f in frees)) != len(frees):
        bad("free_vars lists a class twice", frees=frees)
    table = res["table"]
    term = csx[2]
    cls = classes_in(term, table)
    roots = [table[f[1]][0] if f[1] < len(table) else f[1] for f in frees]
    if len(set(roots)) != len(roots):
        dup = [f for f, rt in zip(frees, roots) if roots.count(rt) > 1]
        vk = dup[0][0]
        kd = ("T", vk[1]) if isinstance(vk, tuple) else (("L",) if vk == "VLt" else ("C",))
        small = minimal_union_case(kd) if viol[0] < 4 else None
        bad("free_vars lists the same unification class twice (two variables unified before canonicalization got two binders)",
            frees=frees, classes_of_free_vars=roots, canonical=Pair(bs, val), minimal_case=small["case"] if small else "(not reduced)",
            minimal_canonical=small["canonical"] if small else "")
    elif len(bs) != len(cls):
        bad("the number of canonical binders differs from the number of distinct unbound classes occurring in the value",
            binders=bs, classes=[c[0] for c in cls], canonical=Pair(bs, val))
    elif roots != [c[0] for c in cls] or list(bs) != [Pair(c[1], c[2]) for c in cls]:
        bad("binders are not the unbound classes of the value in order of first occurrence with the kind of that occurrence and the universe of the class",
            binders=bs, expected=[Pair(c[1], c[2]) for c in cls], frees=frees)
    # round trip: instantiate + canonicalize
    rc = res["recanon"]
    if is_panic(rc) or (rc[1], rc[2]) != (bs, val):
        bad("instantiate_canonical followed by canonicalize does not give the canonical form back", canonical=Pair(bs, val), recanonical=rc if is_panic(rc) else Pair(rc[1], rc[2]))
    # u-canonicalization
    uc = res["ucanon"]
    if is_panic(uc):
        bad("u_canonicalize panicked on a canonical value", canonical=Pair(bs, val))
        return
    n, ubs, uval, umap, to, frm = uc[1], uc[2], uc[3], uc[4], uc[5], uc[6]
    used = sorted(set([0] + [b[1] for b in bs] + placeholder_universes(val)))
    if umap != used or n != len(used):
        bad("the universe map is not the sorted set of universes of the value", umap=umap, canonical=Pair(bs, val))
    # order preservation and compression
    ranks = [(u, t[1]) for u, t in enumerate(to) if t != "None"]
    if [u for u, _ in ranks] != used or [c_ for _, c_ in ranks] != list(range(len(used))):
        bad("map_universe_to_canonical is not the order-preserving compression onto 0..n-1", umap=umap, to=to)
    if any(frm[i] >= frm[i + 1] for i in range(len(frm) - 1)) or frm[:len(used)] != used:
        bad("map_universe_from_canonical is not strictly monotone / does not invert the compression", umap=umap, frm=frm)
    cu = [b[1] for b in ubs] + placeholder_universes(uval)
    if any(u >= n for u in cu):
        bad("u-canonical value mentions a universe >= its universe count", ucanonical=Pair(ubs, uval))
    iv = res["invert"]
    if not is_panic(iv):
        gave_up = iv[1] == "None"
        if gave_up != (len(frees) > 0):
            bad("invert must refuse exactly the values with unbound inference variables", invert=iv, frees=frees)
        if not gave_up:
            ib, ival = iv[1][1][0], iv[1][1][1]
            if any(isinstance(t, tuple) and t[0] == "Node" and isinstance(t[1], tuple) and t[1][0] in ("HPlaceholder", "HLPlaceholder") for t in irgen.subterms(ival)):
                bad("invert left a type / lifetime placeholder in the value", invert=iv)
    bk = res["back"]
    if is_panic(bk) or (bk[1], bk[2]) != (bs, val):
        bad("map_from_canonical(u_canonicalize(c)) differs from c", canonical=Pair(bs, val), mapped_back=bk if is_panic(bk) else Pair(bk[1], bk[2]))


def run(ctx):
    ok, why = ctx.proof_stage("Props.C16", ["canon_first_occurrence", "canon_iff_renaming", "canon_instantiate_canon",
                                             "ucanon_order_preserving", "ucanon_roundtrip", "ucanon_roundtrip_refuted",
                                             "invert_gives_up", "invert_no_placeholders"],
                              extra_targets=["Infer/Exec.vo"])
    core.build_harness(bins=["canon"])
    r = ctx.rng
    nbase = ctx.n(260, 6000)
    depth = ctx.n(3, 4)
    corpus = load_corpus()
    base = [gen_case(r, depth) for _ in range(nbase)]
    malformed = [gen_case(r, 3, free_bound=True) for _ in range(ctx.n(40, 600))]   # free bound variables: canonicalize panics
    base += [gen_union_case(r) for _ in range(ctx.n(120, 2000))]                     # classes built by var-var unification

    cases = []   # (tag, case sexp value, meta)
    for c in corpus:
        cases.append(("corpus", c, None))
    for i, c in enumerate(base):
        cases.append(("base", case_sx(c), i))
    for i, c in enumerate(malformed):
        cases.append(("malformed", case_sx(c), i))
    # renamed copies: a permutation of the variable ids applied to the script and the term
    for i, c in enumerate(base):
        nv = len(c["kinds"])
        if nv < 2:
            continue
        perm = list(range(nv))
        r.shuffle(perm)
        f = lambda v, perm=perm: perm[v] if v < len(perm) else v
        inv = [0] * nv
        for a, b in enumerate(perm):
            inv[b] = a
        c2 = {"nu": c["nu"], "kinds": [c["kinds"][inv[j]] for j in range(nv)], "univ": [c["univ"][inv[j]] for j in range(nv)],
              "rels": [(rename_term(a, f), rename_term(b, f)) for a, b in c["rels"]], "term": rename_term(c["term"], f)}
        cases.append(("renamed", case_sx(c2), i))
    outs = core.run_harness("canon", [c[1] for c in cases], args=["canon"])
    results = []
    for (tag, csx, meta), o in zip(cases, outs):
        res = parse_result(o) if o else None
        if res is None:
            raise core.CheckFailure("harness could not run case %s: %s" % (sx.to_sexp(csx)[:300], o))
        results.append(res)
    by_base = {}
    for (tag, csx, meta), res in zip(cases, results):
        if tag == "base":
            by_base[meta] = (csx, res)

    viol = [0]
    # ---- stage A: the property on the implementation alone -----------------------------------
    for (tag, csx, meta), res in zip(cases, results):
        nontrivial = not is_panic(res["canon"]) and len(res["canon"][1]) >= 1
        ctx.count(tag, tag + sx.to_sexp(csx), nontrivial=nontrivial or tag in ("corpus", "malformed"))
        if "Panicked" in res["opres"]:
            continue
        property_on_impl(ctx, tag, csx, res, viol)
        if tag == "renamed":
            bsx, bres = by_base[meta]
            if "Panicked" in bres["opres"]:
                continue
            if canon_of(res) != canon_of(bres):
                if viol[0] < 4:
                    ctx.violation({"kind": "property", "what": "a renamed copy of a value (variables permuted consistently, kinds and universes kept) has a different canonical form",
                                   "case": sx.to_sexp(bsx), "renamed_case": sx.to_sexp(csx)})
                viol[0] += 1
    # first occurrence against the input itself (no table involved): without prior relates the
    # distinct variables of the term in order of first occurrence, with their creation universes
    for i, c in enumerate(base):
        csx, res = by_base[i]
        if c["rels"] or is_panic(res["canon"]):
            continue
        order = []
        for v in syntactic_vars(c["term"]):
            if v not in order:
                order.append(v)
        frees = [f[1] for f in res["canon"][3]]
        bs = res["canon"][1]
        def vk_of(k):
            return ("VTy", k[1]) if k[0] == "T" else ("VLt" if k[0] == "L" else "VConst")
        exp_bs = [Pair(vk_of(c["kinds"][v]), c["univ"][v]) for v in order]
        if frees != order or list(bs) != exp_bs:
            if viol[0] < 4:
                ctx.violation({"kind": "property", "what": "free variables are not listed in order of first occurrence with their kinds and universes",
                               "case": sx.to_sexp(csx), "expected_order": order, "free_vars": frees, "binders": sx.to_sexp(bs)})
            viol[0] += 1
        ctx.count("first-occurrence-direct", "fod" + sx.to_sexp(csx), nontrivial=len(order) >= 2)

    # non-renamings: merge two distinct unbound classes / move a variable to another universe
    neg = []
    for i, c in enumerate(base):
        csx, res = by_base[i]
        if is_panic(res["canon"]) or "Panicked" in res["opres"]:
            continue
        frees = res["canon"][3]
        synt = set(syntactic_vars(c["term"]))
        cand = [(f[0], f[1]) for f in frees if f[1] in synt]
        r.shuffle(cand)
        done = False
        for vk, a in cand:
            others = [f[1] for f in frees if f[1] != a and f[0] == vk]
            if others:
                b = r.choice(others)
                c2 = dict(c)
                c2["term"] = rename_term(c["term"], lambda v, a=a, b=b: b if v == a else v)
                neg.append(("merged", case_sx(c2), i))
                done = True
                break
        if not c["rels"] and cand and (not done or r.random() < 0.5):
            vk, a = cand[0]
            c2 = dict(c)
            c2["univ"] = list(c["univ"])
            c2["univ"][a] = c["univ"][a] + 1 + r.randrange(2)
            neg.append(("universe-changed", case_sx(c2), i))
    # same value written with other members of the classes: every variable that was unified with other
    # variables before canonicalization is replaced by a random member of its class -> SAME canonical form
    for i, c in enumerate(base):
        csx, res = by_base[i]
        if is_panic(res["canon"]) or "Panicked" in res["opres"]:
            continue
        table = res["table"]
        members = {}
        for v, e in enumerate(table[:len(c["kinds"])]):
            members.setdefault((e[0], c["kinds"][v]), []).append(v)
        groups = {v: ms for ms in members.values() if len(ms) >= 2 for v in ms}
        synt = set(syntactic_vars(c["term"]))
        if not (synt & set(groups)):
            continue
        for _ in range(2):
            choice = {}
            c2 = dict(c)
            c2["term"] = rename_occurrences(c["term"], lambda v: r.choice(groups[v]) if v in groups else v)
            if c2["term"] != c["term"]:
                neg.append(("class-swapped", case_sx(c2), i))
    nouts = core.run_harness("canon", [c[1] for c in neg], args=["canon"])
    for (tag, csx, i), o in zip(neg, nouts):
        res = parse_result(o)
        if res is None:
            raise core.CheckFailure("harness could not run case %s: %s" % (sx.to_sexp(csx)[:300], o))
        bsx, bres = by_base[i]
        ctx.count(tag, tag + sx.to_sexp(csx), nontrivial=True)
        if tag == "class-swapped":
            if canon_of(res) != canon_of(bres):
                if viol[0] < 4:
                    small = minimize_class_case(base[i], bres["table"])
                    ctx.violation({"kind": "property", "what": "replacing a variable by another member of its unification class (variables unified with each other before canonicalization) changes the canonical form",
                                   "case": sx.to_sexp(bsx), "other_case": sx.to_sexp(csx),
                                   "canonical": sx.to_sexp(Pair(*canon_of(bres))) if canon_of(bres) != "panic" else "panic",
                                   "other_canonical": sx.to_sexp(Pair(*canon_of(res))) if canon_of(res) != "panic" else "panic",
                                   "minimal_case": small})
                viol[0] += 1
            continue
        if canon_of(res) == canon_of(bres):
            if viol[0] < 4:
                ctx.violation({"kind": "property", "what": "two values that do not differ by a kind/universe-preserving renaming (%s) have the same canonical form" % tag,
                               "case": sx.to_sexp(bsx), "other_case": sx.to_sexp(csx)})
            viol[0] += 1
    for c in cases[:1] + cases[len(corpus):len(corpus) + 3]:
        ctx.sample({"family": c[0], "case": sx.to_sexp(c[1])[:700]})

    # ---- stage B: model == implementation ------------------------------------------------------
    imports = ["Ir.Syntax", "Ir.Fold", "Infer.Canon", "Infer.UCanon", "Infer.Answer", "Infer.Invert", "Infer.Exec"]
    sel = [(csx, res) for (tag, csx, meta), res in zip(cases, results) if tag in ("corpus", "base", "malformed") and "Panicked" not in res["opres"]]
    canon_pairs, uc_pairs, back_pairs, probe_pairs, rec_pairs, inv_pairs = [], [], [], [], [], []
    tstats = {"tables_with_bound_variables": 0, "tables_with_merged_classes": 0, "relates_ok": 0, "relates_failed": 0}
    for csx, res in sel:
        if any(e[1][0] == "Bound" for e in res["table"]):
            tstats["tables_with_bound_variables"] += 1
        if any(e[0] != i and e[1][0] == "Unbound" for i, e in enumerate(res["table"])):
            tstats["tables_with_merged_classes"] += 1
        tstats["relates_ok"] += sum(1 for o in res["opres"] if o == "Ok")
        tstats["relates_failed"] += sum(1 for o in res["opres"] if o == "Fail")
    ctx.cov.update(tstats)
    for csx, res in sel:
        T = res["table"]
        term = csx[2]
        c = res["canon"]
        canon_pairs.append((Pair(T, term), ("Panics", "OtherPanic") if is_panic(c) else ("Done", Pair(Pair(c[1], c[2]), c[3])), csx))
        iv = res["invert"]
        inv_pairs.append((Pair(T, term), ("Panics", "OtherPanic") if is_panic(iv) else ("Done", "None" if iv[1] == "None" else ("Some", iv[1][1])), csx))
        if is_panic(c):
            continue
        can = Pair(c[1], c[2])
        uc = res["ucanon"]
        if is_panic(uc):
            uc_pairs.append((can, ("Panic", "OtherPanic"), csx))
        else:
            uc_pairs.append((can, ("Ok", Pair(Pair(uc[1], Pair(uc[2], uc[3])), uc[4])), csx))
            bk = res["back"]
            back_pairs.append((Pair(uc[4], Pair(uc[2], uc[3])), ("Panic", "OtherPanic") if is_panic(bk) else ("Ok", Pair(bk[1], bk[2])), csx))
            probe_pairs.append((Pair(uc[4], Pair(sx.Nat(len(uc[5])), sx.Nat(len(uc[6])))),
                                Pair([t if t == "None" else ("Some", t[1]) for t in uc[5]], uc[6]), csx))
        rc = res["recanon"]
        rec_pairs.append((Pair(T, can), ("Panics", "OtherPanic") if is_panic(rc) else ("Done", Pair(rc[1], rc[2])), csx))
    specs = [
        ("invert_then_canonicalize", inv_pairs, "(fun p => run_invert %d (fst p) (snd p))" % FUEL, "(out_eqb (option_eqb canonical_eqb))", "table * tm", "out (option canonical)"),
        ("canonicalize", canon_pairs, "(fun p => run_canon %d (fst p) (snd p))" % FUEL, "(out_eqb canonicalized_eqb)", "table * tm", "out (canonical * fvs)"),
        ("u_canonicalize", uc_pairs, "u_canonicalize", "(res_any_eqb ucanonicalized_eqb)", "canonical", "res ucanonicalized"),
        ("map_from_canonical", back_pairs, "(fun p => map_from_canonical (fst p) (snd p))", "(res_any_eqb canonical_eqb)", "umap * canonical", "res canonical"),
        ("universe_map", probe_pairs, "(fun p => probe_umap (fst p) (fst (snd p)) (snd (snd p)))", "probe_eqb", "umap * (nat * nat)", "list (option N) * list N"),
        ("instantiate+canonicalize", rec_pairs, "(fun p => run_recanon %d (fst p) (snd p))" % FUEL, "(out_eqb canonical_eqb)", "table * canonical", "out canonical"),
    ]
    mism = 0
    for name, pairs, fn, eqb, ity, oty in specs:
        bad = coq_mismatches(ctx.work, name.replace("+", "_"), imports, fn=fn, eqb=eqb, in_ty=ity, out_ty=oty,
                                  pairs=[(a, b) for a, b, _ in pairs], shard=ctx.n(60, 400))
        ctx.cov["families"].setdefault("model==impl:" + name, {"cases": len(pairs), "nontrivial": len(pairs)})["mismatches"] = len(bad)
        for j in bad[:2]:
            mism += 1
            if viol[0] == 0:
                model = core.coq_eval(ctx.work, "m_" + name.replace("+", "_"), imports, ["(%s) %s" % (fn, sx.to_coq(pairs[j][0]))])[0]
                ctx.violation({"kind": "correspondence", "operation": name, "case": sx.to_sexp(pairs[j][2]), "input": sx.to_sexp(pairs[j][0]),
                               "implementation": sx.to_sexp(pairs[j][1]), "model": model[:3000],
                               "broken": "correspondence Infer.%s = real chalk-solve operation; the theorems of Props/C16.v are about the model. Every property instance evaluated on the implementation alone held." % name},
                              no_input=True)
    ctx.cov["model_mismatches"] = mism
    ctx.cov["property_violations"] = viol[0]
    ctx.cov["rule"] = ("scripts on a real InferenceTable: 0-3 extra universes, 0-6 variables of all kinds (general/integer/float types, lifetimes, consts) in arbitrary universes, 0-3 prior relate calls "
                       "(variable-variable and variable-term, so classes get merged and bound); then a random term (type / goal / substitution / clause / domain goal / where clause, depth <= %d, placeholders from universes 0..6, "
                       "repeated variables, binders) is canonicalized, u-canonicalized, mapped back, instantiated and re-canonicalized. Renamed copies (random permutation of variable ids applied to script and term), "
                       "merged-class and changed-universe variants are run for the iff; a malformed stream has free bound variables (panic correspondence). non-trivial = at least one canonical binder." % depth)
    if not ok:
        ctx.violation({"kind": "proof", "broken": why}, no_input=True)


def replay(ctx, obj):
    core.build_harness(bins=["canon"])
    for k in ("case", "renamed_case", "other_case"):
        if obj.get(k):
            out = core.run_harness("canon", [obj[k]], args=["canon"])
            print("replay %s: %s\n  -> %s" % (k, obj[k][:2000], (out[0] or "")[:4000]))
    print("what:", obj.get("what") or obj.get("broken"))
    return 1
