"""C24 — parsing and lowering never crash.

proof:  Props/C24.v  (lower_no_panic, lower_goal_no_panic over Text/LowerFail.v: every
        unwrap/index/panic!/assert! site of lowering.rs, lowering/env.rs, program_lowerer.rs is a
        guarded Panic outcome; the guards are shown to hold for every AST).
tie:    (c) generated ASTs with semantic errors: error CLASS of the model == error class of the
            real lowering (program and goals), no panic;
        (a) byte-level / token-level mutations of every program/goal snippet of the pinned tests;
        (b) random token sequences over the grammar's vocabulary;
        any panic is a VIOLATION with a delta-debugged text as replay.
        static monitor: inventory of panic-capable tokens in the three lowering files; a site the
        model map does not know only escalates the fuzz budget."""
from __future__ import annotations

import os
import re

from vlib import core, sx
from . import text_ast, text_common as tc

META = {
    "id": "C24", "level": "proof",
    "technique": "Coq theorem lower_no_panic over a Gallina model of the failure sites of AST->IR lowering (guarded Panic outcomes at every unwrap/index/panic! site) + differential correspondence of error classes on generated ASTs + byte/token fuzzing of parse_program/parse_goal/program_ir/lower_goal under catch_unwind",
    "level_text": "Lowering: machine-checked for all ASTs of the model (all item kinds, types, where-clauses, goals, clauses): the model's Panic outcomes are unreachable; the model is tied to the code by comparing the error class on generated programs with semantic errors. Parser (LALRPOP automaton + lexer): exploration only (fuzzing), stated as such.",
    "level_note": "Partial by construction: the parser is modelled as 'returns an arbitrary AST or an error' and only fuzzed; native stack exhaustion on inputs nested thousands of levels deep is outside the model (recorded class finding); the AST type builds in that a TraitRef's first argument is a type (established by the three grammar productions that construct TraitRef, monitored statically).",
    "design_ref": "DESIGN.md §4 C24",
    "bins": ["text"],
    "assumptions": [
        "the hand-written model of lowering.rs/env.rs/program_lowerer.rs is faithful (checked per run: error-class equality on generated ASTs)",
        "parser totality is not proved; only exercised by streams (a)/(b)",
        "inputs are &str (valid UTF-8): the API cannot be called with other byte strings; non-UTF-8 byte strings are counted, not fed",
    ],
    "quick_s": 60, "thorough_s": 600,
}

THEOREMS = ["lower_no_panic", "lower_goal_no_panic", "lower_panics_F9_refuted", "lower_panics_apply_refuted",
            "introduce_class", "lookup_trait_class", "lookup_generic_arg_unknown", "lower_auto_assoc"]

ERR_CODES = {n: i + 1 for i, n in enumerate([
    "InvalidParameterName", "InvalidTraitName", "NotTrait", "NotStruct", "DuplicateOrShadowedParameters",
    "AutoTraitAssociatedTypes", "AutoTraitParameters", "AutoTraitWhereClauses", "InvalidFundamentalTypesParameters",
    "NegativeImplAssociatedValues", "MissingAssociatedType", "IncorrectNumberOfVarianceParameters",
    "IncorrectNumberOfTypeParameters", "IncorrectNumberOfAssociatedTypeParameters", "IncorrectParameterKind",
    "IncorrectTraitParameterKind", "IncorrectAssociatedTypeParameterKind", "CannotApplyTypeParameter", "InvalidExternAbi"])}
CODE_ERR = {v: k for k, v in ERR_CODES.items()}

# panic-capable sites known to the model: (file, regex on the source line) -> model site
MODEL_MAP = [
    ("lowering/program_lowerer.rs", r"associated_ty_lookups\s*$|\[&\(trait_id, assoc_ty_defn\.name", "S_assoc_lookup_trait"),
    ("lowering/program_lowerer.rs", r"associated_ty_value_ids\[&\(impl_id, atv\.name", "S_atv_id"),
    ("lowering/program_lowerer.rs", r"self\.coroutine_ids\[&defn\.name", "S_coroutine_id"),
    ("lowering.rs", r"self\.args\[0\]", "parser-established (TraitRef self)"),
    ("lowering.rs", r"assert_ty_ref", "parser-established (TraitRef self)"),
    ("lowering.rs", r"associated_ty_value_ids\[&\(\*impl_id", "S_impl_atv_ids"),
    ("lowering.rs", r"lookup_associated_ty\(\*trait_id, &defn\.name\)\.unwrap\(\)", "S_trait_assoc_unwrap"),
    ("lowering.rs", r"program\.trait_data\[&datum\.trait_id\]", "S_goal_trait_data"),
    ("lowering.rs", r"\[num_trait_params\.\.\]", "S_goal_binders_slice"),
    ("lowering/env.rs", r"self\.auto_traits\[&id\]", "S_auto_trait"),
    ("lowering/env.rs", r"self\.trait_kinds\[&id\]", "S_trait_kind"),
    ("lowering/env.rs", r"self\.adt_kinds\[&id\]", "S_adt_kind"),
    ("lowering/env.rs", r"self\.fn_def_kinds\[&id\]", "S_fn_def_kind"),
    ("lowering/env.rs", r"self\.closure_kinds\[&id\]", "S_closure_kind"),
    ("lowering/env.rs", r"self\.opaque_ty_kinds\[&id\]", "S_opaque_kind"),
    ("lowering/env.rs", r"self\.coroutine_kinds\[&id\]", "S_coroutine_kind"),
]
PANIC_TOKEN = re.compile(r"\.unwrap\(|\.expect\(|panic!|unreachable!|unimplemented!|todo!|\bassert(_eq|_ne)?!|debug_assert|\bassert_\w+\("
                         r"|(?:[A-Za-z_)\]]|^\s*)\[(?:&|\d|[a-z_]+\.\.)")   # map/slice indexing: x[&key], x[0], x[n..]
DEEP_CLASS = "nesting-depth>=3000"


def static_monitor(ctx):
    base = os.path.join(core.REPO, "chalk-integration", "src")
    inv, unknown = [], []
    for rel in ("lowering.rs", "lowering/env.rs", "lowering/program_lowerer.rs"):
        try:
            lines = open(os.path.join(base, rel), encoding="utf8").read().split("\n")
        except OSError as e:
            unknown.append("%s: unreadable (%s)" % (rel, e))
            continue
        for ln, line in enumerate(lines, 1):
            code = line.split("//")[0]
            if code.lstrip().startswith(("#[", "use ", "///")):
                continue
            for m in PANIC_TOKEN.finditer(code):
                tok = m.group(0)
                site = next((s for f, rx, s in MODEL_MAP if f == rel and re.search(rx, code)), None)
                # the two-line index expression at program_lowerer.rs `associated_ty_lookups\n [&(..)]`
                if site is None and rel.endswith("program_lowerer.rs") and "[&(trait_id, assoc_ty_defn" in code:
                    site = "S_assoc_lookup_trait"
                inv.append({"file": rel, "line": ln, "token": tok.strip()[:40], "site": site})
                if site is None:
                    unknown.append("%s:%d %s" % (rel, ln, code.strip()[:80]))
    # the parser must build every TraitRef with the self type first
    gram = open(os.path.join(core.REPO, "chalk-parse", "src", "parser.lalrpop"), encoding="utf8").read()
    n_tr = len(re.findall(r"TraitRef\s*\{", gram))
    n_self_first = len(re.findall(r"let mut args = vec!\[GenericArg::Ty\(s\)\];", gram))
    shape_ok = n_tr <= n_self_first + 1   # +1: the `TraitRef<S>: TraitRef = {` non-terminal header
    if not shape_ok:
        unknown.append("parser.lalrpop: a TraitRef construction without `vec![GenericArg::Ty(s)]` first (%d vs %d)" % (n_tr, n_self_first))
    ctx.cov["static_sites"] = {"inventory": inv, "unknown": unknown, "count": len(inv)}
    return unknown


# ---------------------------------------------------------------------------------------
# running the real code
# ---------------------------------------------------------------------------------------

def run_lower(cases, timeout=300):
    """cases: list of (text_bytes_or_str, [goal texts]) -> parsed harness results."""
    lines = [sx.to_sexp(("L", tc.S(t), [tc.S(g) for g in gs])) for t, gs in cases]
    outs = core.run_harness("text", lines, args=["lower"], timeout=timeout, stack_mb=8)
    res = []
    for o in outs:
        try:
            res.append(sx.parse_sexp(o) if o else ("Abort", sx.Str("no output")))
        except ValueError:
            res.append(("Garbled", sx.Str(o[:200])))
    return res


def outcome_kind(o):
    """Small enum of one outcome; panic messages are reduced to their file:line."""
    h = sx.head(o)
    if h == "Panic":
        msg = tc.unpct(o[1])
        m = re.search(r"@ (.*?):(\d+)$", msg)
        where = (os.path.basename(m.group(1)) + ":" + m.group(2)) if m else "?"
        return ("Panic", where, msg[:300])
    if h == "LowerError":
        return ("LowerError", o[1])
    if h in ("Ok", "OkChecked", "Parsed", "ParseError", "Err", "CheckError", "NotUtf8"):
        return (h,)
    return (h or "?",)


def panics_of(r):
    """All panic outcomes in one harness result."""
    out = []
    if sx.head(r) in ("Abort", "Timeout") or r == "Timeout":
        return out
    if sx.head(r) != "R":
        return out
    for part in (r[1], r[2]):
        k = outcome_kind(part)
        if k[0] == "Panic":
            out.append(k)
    for gpart in r[3]:
        k = outcome_kind(gpart)
        if k[0] == "Panic":
            out.append(k)
    return out


def shrink(text, goals, where):
    """Delta-debug a panicking (program, goals) pair: goals first, then lines, then tokens."""
    def fails_batch(cands):
        rs = run_lower(cands, timeout=120)
        return [any(p[1] == where for p in panics_of(r)) for r in rs]

    # which goal (if any) is needed
    if goals:
        alone = fails_batch([(text, [])] + [(text, [g]) for g in goals] + [("", [g]) for g in goals])
        if alone[0]:
            goals = []
        else:
            for i, g in enumerate(goals):
                if alone[1 + len(goals) + i]:
                    text, goals = "", [g]
                    break
                if alone[1 + i]:
                    goals = [g]
                    break
    target_is_goal = bool(goals)
    subject = goals[0] if target_is_goal else text

    def rebuild(units, sep):
        s = sep.join(units)
        return (text, [s]) if target_is_goal else (s, [])

    for sep, split in (("\n", lambda s: s.split("\n")), (" ", lambda s: tc.tokenize(s))):
        units = split(subject)
        if len(units) < 2:
            continue
        units = tc.ddmin(units, lambda cands: fails_batch([rebuild(c, sep) for c in cands]), budget=300)
        cand = sep.join(units)
        if fails_batch([rebuild(units, sep)])[0]:
            subject = cand
    return (text, [subject]) if target_is_goal else (subject, [])


# ---------------------------------------------------------------------------------------
# streams
# ---------------------------------------------------------------------------------------

WEIRD = ["é", "中", "\U0001f600", "\x00", "\t", "\r", " ", "'", '"', "\\", "/*", "//", "#", "@", "$", "`", "~", "?", "|", "^", "%"]
BIG_NUMBERS = ["4294967295", "4294967296", "99999999999999999999", "0000", "18446744073709551616"]


def mutate(rng, text, vocab, idents):
    b = text
    for _ in range(rng.choice([1, 1, 2, 3, 5])):
        op = rng.random()
        if not b:
            b = rng.choice(vocab)
            continue
        if op < 0.15:       # delete a slice of characters
            i = rng.randrange(len(b)); j = min(len(b), i + rng.choice([1, 1, 2, 5, 20]))
            b = b[:i] + b[j:]
        elif op < 0.30:     # insert a vocabulary token / identifier / weird character
            i = rng.randrange(len(b) + 1)
            b = b[:i] + " " + rng.choice(vocab + idents + WEIRD + BIG_NUMBERS) + " " + b[i:]
        elif op < 0.40:     # replace one character
            i = rng.randrange(len(b))
            b = b[:i] + rng.choice(WEIRD + list("<>(){}[];:,.&*!=+-'#")) + b[i + 1:]
        elif op < 0.60:     # token-level: delete / duplicate / swap / replace
            toks = tc.tokenize(b, keep_ws=True)
            if len(toks) > 2:
                i = rng.randrange(len(toks))
                c = rng.random()
                if c < 0.3:
                    del toks[i]
                elif c < 0.5:
                    toks.insert(i, toks[i])
                elif c < 0.7:
                    j = rng.randrange(len(toks)); toks[i], toks[j] = toks[j], toks[i]
                else:
                    toks[i] = rng.choice(vocab + idents + BIG_NUMBERS)
                b = "".join(toks)
        elif op < 0.72:     # rename an identifier consistently or inconsistently
            ids = [t for t in set(tc.tokenize(b)) if re.fullmatch(r"[A-Za-z_]\w*", t)]
            if ids:
                a = rng.choice(ids); c = rng.choice(ids + idents)
                if rng.random() < 0.5:
                    b = re.sub(r"\b%s\b" % re.escape(a), c, b)
                else:
                    b = re.sub(r"\b%s\b" % re.escape(a), c, b, count=1)
        elif op < 0.80:     # numbers -> big numbers
            b = re.sub(r"\b\d+\b", lambda m: rng.choice(BIG_NUMBERS) if rng.random() < 0.5 else m.group(0), b, count=2)
        elif op < 0.90:     # truncate
            b = b[:rng.randrange(len(b) + 1)]
        else:               # duplicate a line / item
            ls = b.split("\n")
            i = rng.randrange(len(ls))
            ls.insert(i, ls[i])
            b = "\n".join(ls)
    return b


def stream_fuzz(ctx, n_mut, n_tok, scale):
    rng = ctx.rng
    progs, goals = tc.harvest_seeds()
    vocab = tc.grammar_vocabulary()
    idents = ["Foo", "Bar", "T", "U", "Self", "__FIXME_SELF__", "'a", "'static", "'erased", "'_", "u8", "N", "X", "Item", "_1_0", "0", "7"]
    ctx.cov["seed_programs"] = len(progs)
    ctx.cov["seed_goals"] = len(goals)
    ctx.cov["vocabulary"] = len(vocab)
    if len(progs) < 50 or len(vocab) < 50:
        raise core.CheckFailure("seed harvest too small: %d programs, %d terminals" % (len(progs), len(vocab)))
    cases = []
    # (a0) every seed unchanged with a few goals: these must all be Ok / plain errors
    for p in progs:
        cases.append(("seed", p, [rng.choice(goals) for _ in range(2)]))
    # (a) mutations
    for _ in range(n_mut * scale):
        p = rng.choice(progs)
        if rng.random() < 0.15:
            q = rng.choice(progs)
            p = p[:rng.randrange(len(p) + 1)] + q[rng.randrange(len(q) + 1):]
        mp = mutate(rng, p, vocab, idents) if rng.random() < 0.85 else p
        gs = []
        for _ in range(rng.choice([0, 1, 2])):
            g = rng.choice(goals)
            gs.append(mutate(rng, g, vocab, idents) if rng.random() < 0.7 else g)
        cases.append(("mutated", mp, gs))
    # raw bytes (incl. invalid UTF-8)
    for _ in range(max(20, n_mut * scale // 20)):
        n = rng.choice([0, 1, 2, 5, 20, 80])
        raw = bytes(rng.randrange(256) for _ in range(n))
        cases.append(("bytes", raw, [bytes(rng.randrange(256) for _ in range(rng.choice([0, 3, 10])))]))
    # (b) token sequences over the grammar vocabulary
    for _ in range(n_tok * scale):
        n = rng.choice([1, 2, 3, 5, 8, 13, 21, 34])
        toks = [rng.choice(vocab) if rng.random() < 0.7 else rng.choice(idents) for _ in range(n)]
        gt = [rng.choice(vocab) if rng.random() < 0.7 else rng.choice(idents) for _ in range(rng.choice([1, 3, 8]))]
        cases.append(("tokens", " ".join(toks), [" ".join(gt)]))
    res = run_lower([(t, g) for _, t, g in cases])
    found = {}
    stats = {}
    for (fam, t, gs), r in zip(cases, res):
        h = sx.head(r) if not isinstance(r, str) else r
        if h != "R":
            key = "abort" if h == "Abort" else str(h)
            stats[(fam, key)] = stats.get((fam, key), 0) + 1
            ctx.count("fuzz-" + fam, ("x", key), nontrivial=False)
            text = t if isinstance(t, str) else t.decode("utf8", "replace")
            if h == "Abort":
                if tc.nesting_depth(text) >= 3000 or any(tc.nesting_depth(g if isinstance(g, str) else "") >= 3000 for g in gs):
                    f = ctx.match_known(None, DEEP_CLASS)
                    if f:
                        ctx.known_finding(f, "fuzz input nested %d deep" % tc.nesting_depth(text))
                        continue
                found.setdefault(("abort", "process died"), (t, gs, tc.unpct(r[1]) if len(r) > 1 else ""))
            continue
        k = outcome_kind(r[1])
        stats[(fam, k[0] + (":" + k[1] if k[0] == "LowerError" else ""))] = stats.get((fam, k[0] + (":" + k[1] if k[0] == "LowerError" else "")), 0) + 1
        gk = tuple(outcome_kind(g)[0] for g in r[3])
        ctx.count("fuzz-" + fam, (t, tuple(gs)), nontrivial=(k[0] not in ("ParseError", "NotUtf8")) or any(x not in ("ParseError", "NotUtf8") for x in gk))
        for p in panics_of(r):
            found.setdefault(("panic", p[1]), (t, gs, p[2]))
        if fam == "seed" and k[0] not in ("Ok", "LowerError", "ParseError"):
            found.setdefault(("seed-outcome", k[0]), (t, gs, str(k)))
    ctx.cov["fuzz_outcomes"] = {"%s/%s" % k: v for k, v in sorted(stats.items())}
    for (kind, where), (t, gs, msg) in found.items():
        text = t if isinstance(t, str) else t.decode("utf8", "replace")
        gs = [g if isinstance(g, str) else g.decode("utf8", "replace") for g in gs]
        if kind == "panic":
            text, gs = shrink(text, gs, where)
        ctx.violation({"kind": kind, "where": where, "message": msg, "program": text, "goals": gs,
                       "how": "text lower: parse_program/program_ir/parse_goal/lower_goal under catch_unwind"})


def stream_semantic(ctx, n):
    """(c) generated ASTs: model class == real class."""
    rng = ctx.rng
    cases = []
    for i in range(n):
        g = text_ast.Gen(rng, err=rng.choice([0.0, 0.05, 0.12, 0.25]))
        prog = g.program()
        goals = g.goals(rng.choice([1, 2, 3]))
        cases.append((prog, goals))
    texts = [(text_ast.p_program(p), [text_ast.p_goal(g) for g in gs]) for p, gs in cases]
    res = run_lower(texts)
    pairs, idx = [], []
    parse_err = 0
    sem_panics = {}
    for i, ((p, gs), (t, gts), r) in enumerate(zip(cases, texts, res)):
        if sx.head(r) != "R":
            ctx.violation({"kind": "abort", "program": t, "goals": gts, "result": str(r)[:300]})
            continue
        for pk in panics_of(r):
            cur = sem_panics.get(pk[1])
            if cur is None or len(t) + sum(map(len, gts)) < len(cur[0]) + sum(map(len, cur[1])):
                sem_panics[pk[1]] = (t, gts, pk[2], (cur[3] if cur else 0) + 1)
            else:
                sem_panics[pk[1]] = cur[:3] + (cur[3] + 1,)
        k = outcome_kind(r[1])
        if k[0] == "Panic":
            continue
        if k[0] == "ParseError" or any(outcome_kind(x)[0] in ("ParseError", "Panic") for x in r[3]):
            parse_err += 1
            ctx.count("semantic", ("unparsed",), nontrivial=False)
            if parse_err <= 3:
                ctx.cov.setdefault("semantic_unparsed_examples", []).append({"text": t[:400], "goals": gts, "result": sx.to_sexp(r)[:300]})
            continue
        exp = [0 if k[0] == "Ok" else ERR_CODES.get(k[1], 999)]
        if k[0] == "Ok":
            for x in r[3]:
                kk = outcome_kind(x)
                exp.append(0 if kk[0] == "Ok" else ERR_CODES.get(kk[1], 999))
        # the observation point LoweringDatabase::program_ir must agree with the direct call
        via = outcome_kind(r[2])[0]
        if (via == "Ok") != (k[0] == "Ok"):
            ctx.violation({"kind": "inconsistent", "program": t, "direct": str(k), "via_db": via}, no_input=False)
        pairs.append((sx.Pair(p, gs), exp))
        idx.append(i)
        ctx.count("semantic", (t, tuple(gts)), nontrivial=True)
    for where, (t, gts, msg, n_occ) in sem_panics.items():
        tt, gg = shrink(t, gts, where)
        ctx.violation({"kind": "panic", "where": where, "message": msg, "program": tt, "goals": gg, "occurrences": n_occ,
                       "how": "generated program with semantic errors"})
    ctx.cov["semantic_unparsed"] = parse_err
    ctx.cov["semantic_compared"] = len(pairs)
    if n and parse_err > 0.05 * n:
        raise core.CheckFailure("printer of generated ASTs is out of step with the grammar: %d of %d texts did not parse" % (parse_err, n))
    bad = core.coq_mismatches(ctx.work, "lower", ["Text.LowerFail", "Text.LowerFailRun"], fn="run_codes fixed",
                              eqb="codes_eqb", in_ty="program * list goal", out_ty="list N", pairs=pairs, shard=150)
    dist = {}
    for _, e in pairs:
        key = "Ok" if e[0] == 0 else CODE_ERR.get(e[0], "?")
        dist[key] = dist.get(key, 0) + 1
    ctx.cov["semantic_class_distribution"] = dist
    for s in range(min(4, len(pairs))):
        ctx.sample({"program": texts[idx[s]][0][:300], "goals": texts[idx[s]][1], "classes": [("Ok" if c == 0 else CODE_ERR.get(c, c)) for c in pairs[s][1]]})
    return [(idx[b], cases[idx[b]], texts[idx[b]], pairs[b][1]) for b in bad]


def deep_nesting(ctx):
    """Moderately deep inputs must work; absurdly deep ones crash the process (class finding)."""
    mk = {
        "tuple": lambda n: "struct S { x: " + "(" * n + "u8" + ",)" * n + " }",
        "ref": lambda n: "struct S { x: " + "&'static " * n + "u8 }",
        "slice": lambda n: "struct S { x: " + "[" * n + "u8" + "]" * n + " }",
    }
    cases, meta = [], []
    for shape, f in mk.items():
        for n in (64, 512, 2000):
            cases.append((f(n), [])); meta.append((shape, n))
    for n in (64, 512, 2000):
        cases.append(("trait T {} struct S {}", ["not { " * n + "S: T" + " }" * n])); meta.append(("goal", n))
    cases.append((mk["tuple"](60000), [])); meta.append(("tuple", 60000))
    res = run_lower(cases, timeout=200)
    for (shape, n), (t, gs), r in zip(meta, cases, res):
        died = sx.head(r) != "R"
        ctx.count("nesting", (shape, n, died), nontrivial=True)
        if died and n >= 3000:
            f = ctx.match_known(None, DEEP_CLASS)
            if f:
                ctx.known_finding(f, "%s nested %d deep: %s" % (shape, n, str(r)[:80]))
            else:
                ctx.violation({"kind": "abort", "shape": shape, "depth": n, "result": str(r)[:200], "program": t[:200] + "...", "goals": [g[:100] for g in gs]})
        elif died:
            ctx.violation({"kind": "abort", "shape": shape, "depth": n, "result": str(r)[:200],
                           "program": t if len(t) < 5000 else t[:5000], "goals": gs,
                           "note": "input nested only %d deep kills the process" % n})
        else:
            for pk in panics_of(r):
                ctx.violation({"kind": "panic", "where": pk[1], "message": pk[2], "program": t[:3000], "goals": gs})


def run(ctx):
    ok, why = ctx.proof_stage("Props.C24", THEOREMS, extra_targets=["Text/LowerFailRun.vo"])
    core.build_harness(bins=["text"])
    unknown = static_monitor(ctx)
    scale = 1
    if unknown:
        scale = 8
        ctx.cov["escalated"] = "x8: panic-capable site(s) unknown to the model map: " + "; ".join(unknown[:5])
        core.log("C24: unknown panic-capable sites, fuzz budget x8:", unknown[:5])
    # corpus first
    corpus = os.path.join(core.VERIF, "corpus", "C24")
    if os.path.isdir(corpus):
        import json
        for fn in sorted(os.listdir(corpus)):
            if fn.endswith(".json"):
                obj = json.load(open(os.path.join(corpus, fn)))
                r = run_lower([(obj["program"], obj.get("goals", []))])[0]
                ctx.count("corpus", fn, nontrivial=True)
                if sx.head(r) != "R" or panics_of(r):
                    ctx.violation({"kind": "corpus", "file": fn, "program": obj["program"], "goals": obj.get("goals", []), "result": sx.to_sexp(r)[:400] if not isinstance(r, str) else r})
    nviol = len(ctx.violations)
    mism = stream_semantic(ctx, ctx.n(1500, 20000) * scale)
    stream_fuzz(ctx, ctx.n(5000, 150000), ctx.n(2500, 60000), scale)
    deep_nesting(ctx)
    if not ok:
        if len(ctx.violations) == nviol:
            ctx.violation({"kind": "proof", "broken": why, "theorems": THEOREMS}, no_input=True)
        return
    # model and implementation disagree on an error class: the property itself (no panic) is
    # evaluated on the implementation around those inputs; a panic would have been reported above.
    if mism:
        extra = []
        rng = ctx.rng
        vocab = tc.grammar_vocabulary()
        for _, _, (t, gts), _ in mism[:20]:
            for _ in range(200):
                extra.append((mutate(rng, t, vocab, ["N10", "N11", "N40", "Self"]), gts))
        res = run_lower(extra)
        hit = False
        for (t, gts), r in zip(extra, res):
            for pk in panics_of(r):
                hit = True
                tt, gg = shrink(t, gts, pk[1])
                ctx.violation({"kind": "panic", "where": pk[1], "message": pk[2], "program": tt, "goals": gg,
                               "how": "search around a model/implementation class disagreement"})
                break
            if hit:
                break
        if not hit:
            i, (p, gs), (t, gts), exp = mism[0]
            model = core.coq_eval(ctx.work, "mismatch", ["Text.LowerFail", "Text.LowerFailRun"],
                                  ["run_codes fixed (%s)" % sx.to_coq(sx.Pair(p, gs))])[0]
            ctx.violation({"kind": "model-mismatch", "count": len(mism), "program": t, "goals": gts,
                           "real_classes": [("Ok" if c == 0 else CODE_ERR.get(c, c)) for c in exp], "model": model,
                           "broken": "correspondence relation `error class of Text.LowerFail.run fixed == error class of chalk_integration lowering` (theorem lower_no_panic is about a model that no longer matches the code); no panicking input found in %d nearby inputs" % len(extra)},
                          no_input=True)


def replay(ctx, obj):
    core.build_harness(bins=["text"])
    r = run_lower([(obj.get("program", ""), obj.get("goals", []))])[0]
    print(sx.to_sexp(r) if not isinstance(r, str) else r)
    bad = sx.head(r) != "R" or bool(panics_of(r))
    print("REPRODUCED" if bad else "not reproduced")
    return 1 if bad else 0
