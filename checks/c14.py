"""C14 — unification is sound and computes most general unifiers."""
from vlib import core, sx
from vlib.sx import Pair
from checks import inferlib as L
from checks.inferlib import N

META = {
    "id": "C14",
    "level": "proof",
    "technique": "Coq theorems over a Gallina model of InferenceTable::relate (relate_sound, teq_sound_in_models, relate_complete_partial; full MGU statement kept as a Definition) + differential correspondence of scripted unification histories on one real InferenceTable (model == implementation modulo fresh-variable renaming, compared inside Coq) + soundness / universe admissibility / kind discipline evaluated on the implementation's own bindings",
    "level_text": "Machine-checked proofs (Coq 8.16, axiom-free) about the Gallina model coq/Infer/{Table,Unify}.v of chalk-solve's unifier (shallow normalisation, var/var cases by kind, relate_var_ty with kind filter, occurs check with universe test / cycle test / universe promotion / fresh lifetime variables, generalisation with ADT variances, lifetime / const / alias cases, fn pointers through relate_binders): on the property's fragment a successful invariant relate re-establishes the table invariants, only extends the table, only lowers universes (ghost universe assignment: every placeholder and unknown of a bound value is visible from the variable's universe) and makes the two types equal under the new bindings up to the returned lifetime goals (teq, whose meaning is fixed by teq_sound_in_models: equal denotation in every model of the bindings and goals).  The model is tied to /repo on every run: scripts (universes, variables in several universes, sequences of relate calls) run on one real InferenceTable and the full observable state after every relate (values, classes, universes, goals, max universe) is compared inside Coq with the model's, modulo a bijection on the variables created inside relate; the head-constructor sweep (all TyKind pairs, lifetimes 7x7, consts 6x6, three variances) runs every time.  Independently, after every successful real relate the real bindings are applied to both sides and equality modulo the returned goals, value preservation, universe admissibility and the int/float kind discipline are checked on the implementation's output alone; a pair the implementation rejects but the model accepts is replayed with a candidate unifier on the real table.",
    "level_note": "Trusted: Coq kernel; hand-written model (tied by correspondence on generated histories of bounded depth); harness conversion sexp<->chalk_ir; python transcription of traces; the cfg(chalk_verif) read-only hook InferenceTable::verif_state. ena's union-find is abstracted to classes. dyn/dyn relation and generalisation of dyn types are outside the model (never generated). relate_sound is for the invariant relation (covariant relation of lifetime-free types is covered by the correspondence only). Completeness/MGU is proved for one-sided matching against ground lifetime-free types only (relate_complete_partial); the full statement relate_complete_mgu_statement is a Definition, not a theorem.",
    "design_ref": "DESIGN.md section 4 C14",
    "bins": ["infer"],
    "assumptions": ["ADT / fn-def variance lists are padded with Invariant (stub UnificationDatabase), substitutions have at most 16 entries",
                    "const types are usize",
                    "fuel: the model's OutOfFuel outcome is excluded by the theorems and never observed in the correspondence (fuel 200 >> term depth)",
                    "relate_sound assumes the invariants inv K U t of the table (established by new tables and preserved by every successful relate) and well-kinded, in-scope arguments (okt)"],
    "quick_s": 85, "thorough_s": 600,
}

THEOREMS = ["relate_sound", "relate_sound_any_variance", "teq_sound_in_models", "teqm_sound_in_models",
            "relate_complete_partial", "relate_complete_matching", "relate_complete_two_sided",
            "relate_sound_unifier", "relate_unifiers_exact", "relate_nosol_no_unifier",
            "relate_complete_matching_numeric", "relate_complete_two_sided_numeric", "relate_complete_numeric_scalar", "relate_complete_numeric_var_var", "relate_complete_general_numeric"]

I, CO, CONTRA = "Invariant", "Covariant", "Contravariant"


def pinned_cases():
    """The unification scenarios of chalk-solve/src/infer/test.rs as scripts."""
    tv, lv = L.ty_var, L.lt_var
    item = lambda i, *a: N(("HAdt", i), list(a))
    R = lambda a, b, v=I: ("SRelate", v, a, b)
    V = lambda u: ("SNewVar", u)
    U = "SNewUniverse"
    cs = []
    cs.append([V(0), R(tv(0), L.ph(1, 0))])                                               # universe_error
    cs.append([V(0), R(tv(0), item(1, tv(0))), R(tv(0), N(("HFnPtr", 1, "AbiRust", "Safe", False), [tv(0)]))])   # cycle_error
    cs.append([V(0), V(0), R(tv(0), item(1, tv(1))), R(tv(0), tv(1))])                     # cycle_indirect
    cs.append([V(0), V(1), R(tv(1), L.ph(1, 0)), R(tv(0), tv(1))])                         # universe_error_indirect_1
    cs.append([V(0), V(1), R(tv(0), tv(1)), R(tv(1), L.ph(1, 0))])                         # universe_error_indirect_2
    cs.append([V(0), V(1), R(tv(0), item(1, tv(1))), R(tv(0), item(1, item(0)))])          # universe_promote
    cs.append([V(0), V(1), R(tv(0), item(1, tv(1))), R(tv(1), L.ph(1, 0))])                # universe_promote_bad
    cs.append([V(0), R(tv(0), item(1, N(("HProjection", 1), [tv(0)])))])                   # projection_eq
    cs.append([U, U, V(0), V(1), V(2), V(2), R(tv(3), item(2, tv(1), tv(0)))])             # quantify_bound
    cs.append([U, U, V(0), V(0), V(0), R(tv(0), tv(1))])                                   # quantify_ty_under_binder
    cs.append([U, V(0), V(1), R(item(4, L.lph(1, 0)), item(4, lv(1))), R(tv(0), item(4, lv(1)))])   # lifetime_constraint_indirect
    return [([], [], c) for c in cs]


def sweep_cases(both=True):
    """Every ordered pair of head constructors: all TyKinds (with the variants that take different branches),
    lifetimes 6x6, consts 4x4; each at the three variances, on a table with two universes."""
    tv, lv = L.ty_var, L.lt_var
    pre = ["SNewUniverse", ("SNewVar", 0), ("SNewVar", 1), ("SNewVar", 0), ("SNewVar", 0), ("SNewVar", 0), ("SNewVar", 1), ("SNewVar", 0), ("SNewVar", 0)]
    # ?0 general U0, ?1 general U1, ?2 integer, ?3 float, ?4 lifetime U0, ?5 lifetime U1, ?6 const U0, ?7 const
    dyn = N("HDyn", [N(("HBinders", [("VTy", "General")]), [N("HList", [N(("HBinders", []), [N("HImplemented", [N(("HTraitRef", 0), [("Var", "STy", 1, 0)])])])])]), L.STATIC])
    tys = [
        N(("HAdt", 1), [L.BOOL]), N(("HAdt", 2), [L.BOOL, L.BOOL]), N(("HAssocTy", 0), [L.BOOL]), L.BOOL, L.U32, N(("HScalar", ("Float", "F32"))),
        N(("HTuple", 1), [L.BOOL]), N(("HTuple", 0)), N("HArray", [L.BOOL, N(("HCConcrete", 1), [L.USIZE])]), N("HSlice", [L.BOOL]),
        N(("HRaw", "Mut"), [L.BOOL]), N(("HRaw", "Not"), [L.BOOL]), N(("HRef", "Not"), [L.STATIC, L.BOOL]), N(("HRef", "Mut"), [L.lph(1, 0), L.BOOL]),
        N(("HOpaqueTy", 0), [L.BOOL]), N(("HFnDef", 0), [L.BOOL]), N("HStr"), N("HNever"), N(("HClosure", 0), [L.BOOL]), N(("HCoroutine", 0), []),
        N(("HCoroutineWitness", 0), []), N(("HForeign", 0)), N("HError"), L.ph(0, 0), L.ph(1, 0), dyn,
        N(("HProjection", 0), [L.BOOL]), N(("HOpaqueAlias", 0), []), N(("HFnPtr", 0, "AbiRust", "Safe", False), [L.BOOL, L.BOOL]),
        N(("HFnPtr", 1, "AbiRust", "Safe", False), [N(("HRef", "Not"), [("Var", "SLt", 0, 0), L.BOOL]), L.BOOL]),
        N(("HFnPtr", 0, "AbiRust", "Unsafe", False), [L.BOOL, L.BOOL]),
        tv(0), tv(1), tv(2, "Integer"), tv(3, "FloatVar"), ("Var", "STy", 0, 0),
    ]
    lts = [lv(4), lv(5), L.lph(0, 0), L.lph(1, 1), L.STATIC, N("HLErased"), N("HLError")]
    cts = [L.const_var(6), L.const_var(7), N(("HCPlaceholder", 0, 0), [L.USIZE]), N(("HCPlaceholder", 1, 0), [L.USIZE]), N(("HCConcrete", 1), [L.USIZE]), N(("HCConcrete", 2), [L.USIZE])]
    out = []
    adt = [(2, [CO, CONTRA])]
    for fam, xs in (("ty", tys), ("lt", lts), ("const", cts)):
        for a in xs:
            for b in xs:
                if L.hname(a) == "HDyn" or L.hname(b) == "HDyn":
                    # dyn/dyn (unless identical) and unknown/dyn are outside the modelled fragment
                    o = b if L.hname(a) == "HDyn" else a
                    if L.hname(o) == "HInfer" or (L.hname(o) == "HDyn" and a != b):
                        continue
                    alias = L.hname(o) in ("HProjection", "HOpaqueAlias")
                else:
                    alias = False
                for v in (I, CO, CONTRA):
                    if alias and v != I:
                        continue        # alias := fresh unknown, then unknown / dyn
                    out.append((adt, [], pre + ([("SBoth", v, a, b)] if both else []) + [("SRelate", v, a, b)]))
    return out


def through_bound_cases():
    """Deterministic two- and three-step histories in which a variable of a LOW universe is related with a type
    that reaches a placeholder of a HIGHER universe (or an unknown left in a higher universe) only THROUGH the
    stored value of an already-bound variable: the occurs check has to walk stored values (it is also the universe
    check).  All combinations of: stored value (type placeholder; ADT / tuple / slice / reference / array around a
    type, lifetime or const placeholder; one or two levels), nesting of the bound variable in the related type
    (depth 1-2, five type constructors), argument order, which variable is bound first, universes; plus universe
    promotion through an already-bound variable (then the promoted unknown meets a placeholder)."""
    tv = L.ty_var
    item = lambda i, *a: N(("HAdt", i), list(a))
    R = lambda a, b, v=I: ("SRelate", v, a, b)
    V = lambda u: ("SNewVar", u)
    U = "SNewUniverse"
    cph = lambda u: N(("HCPlaceholder", u, 0), [L.USIZE])
    values = [
        lambda u: L.ph(u, 0),
        lambda u: item(1, L.ph(u, 0)),
        lambda u: item(1, item(1, L.ph(u, 0))),
        lambda u: N(("HTuple", 2), [L.BOOL, L.ph(u, 0)]),
        lambda u: N("HSlice", [L.ph(u, 0)]),
        lambda u: item(4, L.lph(u, 0)),
        lambda u: N(("HRef", "Not"), [L.lph(u, 0), L.U32]),
        lambda u: item(3, L.lph(u, 0), L.ph(u, 0)),
        lambda u: item(5, L.BOOL, cph(u)),
        lambda u: N("HArray", [L.BOOL, cph(u)]),
    ]
    nests = [
        lambda x: item(1, x),
        lambda x: N(("HTuple", 1), [x]),
        lambda x: N("HSlice", [x]),
        lambda x: N(("HRef", "Not"), [L.STATIC, x]),
        lambda x: N(("HRaw", "Not"), [x]),
        lambda x: item(1, item(1, x)),
        lambda x: item(2, L.BOOL, N(("HTuple", 2), [x, L.U32])),
    ]
    adt = [(1, [I]), (2, [I, I]), (3, [I, I]), (4, [I]), (5, [I, I])]
    out = []

    def add(pre, steps):
        out.append((adt, [], pre + steps))

    # ?0 = A (universe ua), ?1 = B (universe ub), ?2 = C (universe ub); placeholders of universe pu
    univs = [(0, 1, 1), (0, 2, 1), (0, 2, 2), (1, 2, 2), (1, 2, 1), (1, 1, 1), (0, 3, 3), (2, 3, 3)]
    for (ua, ub, pu) in univs:
        pre = [U] * 3 + [V(ua), V(ub), V(ub)]
        A, B, C = tv(0), tv(1), tv(2)
        full = (ua, ub, pu) == (0, 1, 1)
        for vi, val in enumerate(values):
            for ni, nest in enumerate(nests):
                if not full and not (ni in (0, 5) and vi in (0, 1, 5, 6, 8)):
                    continue
                for swap in (False, True):
                    rel = (lambda x, y: R(y, x)) if swap else R
                    # B bound first, then A against a type containing B nested
                    add(pre, [rel(B, val(pu)), rel(A, nest(B))])
                    # A first (promotes B), then B against the value
                    add(pre, [rel(A, nest(B)), rel(B, val(pu))])
                    if full or ni == 0:
                        # through two bound variables: C := value, B := Adt1<C> (stored value still names C), A against nest(B)
                        add(pre, [rel(C, val(pu)), rel(B, item(1, C)), rel(A, nest(B))])
                        # promotion through an already-bound variable: B := Adt1<C>, A against nest(B) promotes C, then C meets the value
                        add(pre, [rel(B, item(1, C)), rel(A, nest(B)), rel(C, val(pu))])
        # the direct (not nested) forms, for reference
        for val in values[:2]:
            add(pre, [R(B, val(pu)), R(A, B)])
            add(pre, [R(A, B), R(B, val(pu))])
    return out


def union_bind_histories():
    """Base histories (prelude, [(a, b) ...]) of invariant relates on lifetime-free types: one or two var-var unions
    among three general unknowns followed by the binding of one member X to a structural type containing a member Y
    (every X, Y: a cycle exactly when X and Y are in one class), two universe layouts; and the const flavour
    (unions of const unknowns through arrays / ADT const parameters, then type unknowns bound to types naming them)."""
    tv = L.ty_var
    item = lambda i, *a: N(("HAdt", i), list(a))
    V = lambda u: ("SNewVar", u)
    out = []
    for univ in ((0, 0, 0), (0, 1, 1)):
        pre = ["SNewUniverse"] + [V(u) for u in univ]
        A, B, C = tv(0), tv(1), tv(2)
        for unions in ([(A, B)], [(A, B), (B, C)], [(A, B), (A, C)], [(B, A), (C, B)]):
            for X in (A, B, C):
                for Y in (A, B, C):
                    for wrap in (lambda y: item(1, y), lambda y: item(2, L.BOOL, N(("HTuple", 1), [y]))):
                        out.append((pre, list(unions) + [(X, wrap(Y))]))
    # consts: ?0 ?1 type unknowns, ?2 ?3 const unknowns
    pre = ["SNewUniverse", V(0), V(0), V(0), V(1)]
    A, B, K1, K2 = tv(0), tv(1), L.const_var(2), L.const_var(3)
    arr = lambda k: N("HArray", [L.BOOL, k])
    c1 = N(("HCConcrete", 1), [L.USIZE])
    for hist in ([(arr(K1), arr(K2)), (A, arr(K1)), (A, arr(K2))],
                 [(arr(K1), arr(K2)), (A, item(5, B, K1)), (B, arr(K2))],
                 [(arr(K1), arr(K2)), (A, item(5, A, K1))],
                 [(arr(K1), arr(K2)), (K2, c1), (A, arr(K1)), ],
                 [(item(5, A, K1), item(5, B, K2)), (A, arr(K2)), (B, arr(K1))],
                 [(item(5, A, K1), item(5, B, K2)), (K1, c1), (K2, N(("HCConcrete", 2), [L.USIZE]))]):
        out.append((pre, hist))
    return out


def numeric_chain_histories():
    """Base histories: a general unknown is related with an integer / float unknown (and so bound to it), the numeric
    unknown is bound to a scalar afterwards, then the general unknown is used (directly, nested, against the right
    and the wrong scalar, against other general unknowns of the same and of another universe)."""
    tv = L.ty_var
    item = lambda i, *a: N(("HAdt", i), list(a))
    V = lambda u: ("SNewVar", u)
    pre = ["SNewUniverse", V(0), V(0), V(0), V(0), V(1)]
    i32, f32 = N(("HScalar", ("Int", "I32"))), N(("HScalar", ("Float", "F32")))
    G, G2, G3 = tv(0), tv(1), tv(4)
    out = []
    for (nv, kind, good, bad) in ((2, "Integer", i32, f32), (3, "FloatVar", f32, i32)):
        X = tv(nv, kind)
        uses = [(G, good), (good, G), (G, bad), (item(1, G), item(1, good)), (G2, G), (G2, item(1, G)), (item(1, G), G2), (G3, G), (G, X),
                (item(2, G, G), item(2, X, good)), (item(2, G2, G2), item(2, G, good))]
        for use in uses:
            out.append((pre, [(G, X), (X, good), use]))
            out.append((pre, [(X, G), (good, X), use]))
        out.append((pre, [(G, X), (G2, G), (X, good)]))
        out.append((pre, [(G, X), (G2, X), (G, G2), (X, good)]))
    return out


def numeric_chain_cases():
    """The numeric-chain histories as scripts, in three step orders."""
    out = []
    for (pre, hist) in numeric_chain_histories():
        orders = [hist, [hist[0]] + hist[2:] + [hist[1]], hist[2:] + hist[:2]]
        for h in orders:
            out.append(([], [], pre + [("SRelate", I, a, b) for (a, b) in h]))
    return out


def random_cases(ctx, n, r, profile):
    out = []
    for _ in range(n):
        env = L.random_env(r, nconst=2 if profile.get("consts") else 0)
        g = L.TyGen(r, env, depth=profile.get("depth", 3), **{k: v for k, v in profile.items() if k not in ("depth", "variances")})
        adt = L.random_variances(r)
        steps = env.prelude()
        for _ in range(r.randint(1, 4)):
            a, b = g.pair()
            v = r.choice(profile.get("variances", [I]))
            steps.append(("SBoth", v, a, b))
            steps.append(("SRelate", v, a, b))
        out.append((adt, [], steps))
    return out


PROFILES = {
    # the property's fragment, invariant relation
    "c14-invariant": dict(depth=3, lifetimes=True),
    # lifetime-free types, covariant relation as a special case
    "c14-covariant-lifetime-free": dict(depth=3, lifetimes=False, variances=[CO, CONTRA, I]),
    # beyond the property's quantifier, to tie the rest of the model: consts/arrays, aliases, fn pointers, all variances
    "extended": dict(depth=3, lifetimes=True, consts=True, aliases=True, fnptr=True, fn_binders=True, extras=True, variances=[I, I, CO, CONTRA]),
}


def evaluate_property(ctx, case, trace, fam, viol):
    """Soundness / extension / universe admissibility on the implementation's own output."""
    adt, fnv, steps = case
    prev = None
    for k, (s, sr) in enumerate(zip(steps, trace)):
        if sr.kind == "Ok" and prev is not None and sr.state is not None:
            _, v, a, b = s
            why = L.check_relate_ok(prev, sr.state, v, a, b, sr.goals)
            if why and len(viol) < 3:
                viol.append(1)
                ctx.violation({"kind": "property", "what": "a successful real relate does not make the two sides equal under the real bindings / does not extend the table",
                               "detail": why, "step": k, "case": sx.to_sexp(L.harness_case(adt, fnv, steps[:k + 1])),
                               "goals": [sx.to_sexp(g) for g in sr.goals]})
        if sr.state is not None:
            prev = sr.state


def replay_unifier(ctx, case, trace, k):
    """The implementation rejected steps[k] (an invariant relate) although the model accepts it: build a candidate
    unifier with the python reference unifier and replay it on the real table.  Returns a description of the
    evidence (the real table accepts the bindings and the two sides become equal) or None."""
    adt, fnv, steps = case
    _, v, a, b = steps[k]
    pre = None
    for sr in trace[:k]:
        if sr.state is not None:
            pre = sr.state
    if pre is None or v != I:
        return None
    try:
        sub = L.py_unify(pre, None, a, b)
    except L.NoUnifier:
        return None
    # bind each class representative to its value, innermost first is not needed: relate handles any order
    extra = []
    for c, t in sub.items():
        sort = L.kind(t)
        var = L.ty_var(c, "General") if sort == "T" else L.const_var(c)
        if L.hname(t) == "HInfer" and t[1][2] != "General":
            var = L.ty_var(c, t[1][2])
        extra.append(("SRelate", I, var, t))
    script = [s for s, sr in zip(steps[:k], trace[:k]) if sr.kind != "Err"] + extra + [("SRelate", I, a, b)]
    (tr,), _ = L.run_scripts([(adt, fnv, script)])
    if tr is None or len(tr) != len(script):
        return None
    tail = tr[len(script) - len(extra) - 1:]
    if all(sr.kind == "Ok" for sr in tail):
        st = tail[-1].state
        goals = [g for sr in tail for g in sr.goals]
        d = L.eq_mod(st.deep(a), st.deep(b), L.goal_facts(L.norm_goals(st, goals)), I)
        if d is None:
            return {"bindings": [sx.to_sexp(s) for s in extra], "replayed_script": sx.to_sexp(L.harness_case(adt, fnv, script))}
    return None


def run(ctx):
    ok, why = ctx.proof_stage("Props.C14", THEOREMS)
    core.build_harness(bins=["infer"])
    r = ctx.rng
    fams = [("pinned", pinned_cases()), ("through-bound", through_bound_cases()), ("numeric-chain", numeric_chain_cases()), ("sweep", sweep_cases(both=False))]    # both orders of the sweep: C15
    total = ctx.n(1500, 8000)
    fams.append(("c14-invariant", random_cases(ctx, total // 2, r, PROFILES["c14-invariant"])))
    fams.append(("c14-covariant-lifetime-free", random_cases(ctx, total // 5, r, PROFILES["c14-covariant-lifetime-free"])))
    fams.append(("extended", random_cases(ctx, total - total // 2 - total // 5, r, PROFILES["extended"])))
    viol = []
    mism_total = 0
    stats = {"relate_ok": 0, "relate_err": 0, "relate_panic": 0}
    for fam, cases in fams:
        traces, raw = L.run_scripts(cases)
        good_cases, good_traces = [], []
        for c, tr, o in zip(cases, traces, raw):
            if tr is None:
                raise core.CheckFailure("infer harness could not run a %s case: %s" % (fam, (o or "")[:400]))
            if L.died(o) and len(viol) < 3:
                viol.append(1)
                ctx.violation({"kind": "property", "what": "relate did not return: the process aborted (native stack overflow) or hung at step %d" % len(tr),
                               "case": sx.to_sexp(L.harness_case(c[0], c[1], c[2][:len(tr) + 1])), "harness": (o or "")[:300]})
            if fam in ("numeric-chain", "through-bound") and any(sr.kind == "Panic" for sr in tr) and len(viol) < 3:
                viol.append(1)
                ctx.violation({"kind": "property", "what": "relate panicked on a well-kinded history: " + str(tr[-1].msg)[:200],
                               "case": sx.to_sexp(L.harness_case(c[0], c[1], c[2][:len(tr)]))})
            good_cases.append(c)
            good_traces.append(tr)
            nrel = 0
            for s, sr in zip(c[2], tr):
                if s != "SNewUniverse" and s[0] == "SRelate":
                    nrel += 1
                    stats["relate_" + sr.kind.lower()] = stats.get("relate_" + sr.kind.lower(), 0) + 1
                    ctx.count(fam, sx.to_sexp(s) + "|" + str(len(tr)), nontrivial=L.tsize(s[2]) + L.tsize(s[3]) > 2)
            evaluate_property(ctx, c, tr, fam, viol)
        for c in good_cases[:2]:
            ctx.sample({"family": fam, "case": sx.to_sexp(L.harness_case(*c))[:700]})
        bad = L.model_mismatches(ctx, fam.replace("-", "_"), good_cases, good_traces, shard=ctx.n(120, 600))
        ctx.cov["families"].setdefault(fam, {"cases": 0, "nontrivial": 0})["model_mismatches"] = len(bad)
        mism_total += len(bad)
        for j in bad[:2]:
            c, tr = good_cases[j], good_traces[j]
            diag = L.model_diff(ctx, "diag_%s_%d" % (fam.replace("-", "_"), j), c, tr)
            first = diag[0]
            rep = {"kind": "correspondence", "family": fam, "case": sx.to_sexp(L.harness_case(*c)),
                   "implementation": [sx.to_sexp(s.raw)[:1500] for s in tr], "first_differing_step": first[:200], "model_results": diag[1][:3000]}
            # the implementation rejected something the model accepts: look for a unifier the real table itself accepts
            ev = None
            import re
            m = re.search(r"Some (\d+)", first)
            if m:
                # observations are made at relate / both steps only: map the observation index to the step index
                obs_steps = [i for i, st in enumerate(c[2][:len(tr)]) if st != "SNewUniverse" and st[0] in ("SRelate", "SBoth")]
                j_obs = int(m.group(1))
                k = obs_steps[j_obs] if j_obs < len(obs_steps) else len(tr)
                rep["first_differing_step"] = "observation %d = step %d" % (j_obs, k)
                if k < len(tr) and tr[k].kind == "Err" and c[2][k][0] == "SRelate":
                    ev = replay_unifier(ctx, c, tr, k)
            if ev:
                rep.update({"kind": "property", "what": "relate rejects a pair for which a universe-respecting unifier exists: the real table accepts the bindings one by one and then the two sides are equal", "evidence": ev})
                ctx.violation(rep)
            elif not viol:
                rep["broken"] = ("correspondence Infer.Unify.relate = InferenceTable::relate (theorems of Props/C14.v are about the model); "
                                 "soundness evaluated on the implementation's own output held on every explored history")
                ctx.violation(rep, no_input=True)
    ctx.cov["relate_outcomes"] = stats
    ctx.cov["model_mismatches"] = mism_total
    ctx.cov["rule"] = ("scripts on one real InferenceTable: up to 3 universes, 8 variables (general/int/float/lifetime[/const]) in random universes, 1-4 relate calls per table on pairs derived from a common skeleton "
                       "(variables swapped in/out, so that unifiable, cyclic and universe-violating pairs are frequent); families: the 11 relate scenarios of infer/test.rs, the deterministic through-bound family (1012 two-/three-step histories: a low-universe variable related with a type that reaches a higher-universe type / lifetime / const placeholder, or an unknown to be promoted, only through the stored value of an already-bound variable; 10 stored values x 7 nestings x both argument orders x both binding orders x 8 universe layouts), the numeric-chain family (144 histories: general unknown := int / float unknown, the numeric unknown := scalar afterwards, then the general unknown is used directly / nested / against the wrong scalar / through other unknowns; three step orders; a panic is a violation), the full head-constructor sweep "
                       "(36 type forms pairwise, 7x7 lifetimes, 6x6 consts, 3 variances), the property's fragment under Invariant, lifetime-free types under all variances, and an extended stream (arrays/consts, aliases, fn pointers with binders). "
                       "non-trivial = a relate whose two terms are not both leaves; distinct by (pair, history length)")
    if not ok:
        ctx.violation({"kind": "proof", "broken": why}, no_input=True)


def replay(ctx, obj):
    print("replay case:", obj.get("case"))
    return 1
