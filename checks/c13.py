"""C13 — declaration order does not change solutions."""
import collections
import hashlib
import itertools

from vlib import core, logic, sx
from vlib import envgen as eg
from vlib import proggen as pg

META = {
    "id": "C13", "level": "proof",
    "technique": "Coq theorems sat_perm / sat_perm_wc / contract_perm / eval_perm (the declarative meaning, the answer contract "
                 "and the verified evaluator are invariant under permutations of items and of where-clauses; all programs, "
                 "all goals) + metamorphic correspondence: both real solvers on seeded permutations of generated programs "
                 "(items, impl/trait/struct where-clauses), answers compared after renaming; the known SLG class F16 is "
                 "decided by the Coq predicate f16_class on the input",
    "level_text": "Machine-checked (Coq 8.16, axiom-free): the specification every answer is judged against cannot see the "
                  "declaration order, so an order-dependent answer is a defect of search/aggregation. Every run executes the "
                  "real solvers on several permutations of each generated program (thorough: all impl orders of programs "
                  "with at most 5 impls) and requires equal answers, including Ambiguous guidance/suggestions.",
    "level_note": "No model of the solvers' aggregation is proved here (combine / anti-unification order-independence belongs "
                  "to C17's models): order-independence of the IMPLEMENTATION is established only on the seeded permutations "
                  "run. SLG order dependence inside f16_class (one clause head an instance of another, relevant to a "
                  "non-ground goal) is a recorded finding; everything outside it, and any recursive-solver dependence, is "
                  "reported. Goals on which a solver dies (CPU limit, overflow) in one of the orders are not compared.",
    "design_ref": "DESIGN.md §4 C13",
    "assumptions": ["answers are compared per (program, goal) with a fresh solver; canonical answer variables are renamed by first occurrence"],
    "bins": ["solve"],
    "quick_s": 70, "thorough_s": 800,
}

IMPORTS = ("Logic.Perm",)

# programs of the wider syntax as item lists (associated types: the C07 fragment), permuted at item level
WIDE = [
    (["trait Iterator { type Item; }", "struct Vec<T> { }", "struct Foo { }", "struct Bar { }",
      "impl<T> Iterator for Vec<T> { type Item = T; }", "impl Iterator for Foo { type Item = Bar; }"],
     ["exists<U> { Normalize(<Foo as Iterator>::Item -> U) }", "exists<U> { Vec<Bar>: Iterator<Item = U> }",
      "exists<T> { T: Iterator<Item = Bar> }", "exists<T, U> { T: Iterator<Item = U> }",
      "forall<T> { if (T: Iterator<Item = Foo>) { exists<U> { <T as Iterator>::Item = U } } }", "exists<T> { T: Iterator }"]),
    (["trait Clone { }", "trait Ord where Self: Clone { }", "struct A { }", "struct S<T> where T: Ord { }",
      "impl Clone for A { }", "impl Ord for A { }", "impl<T> Clone for S<T> where T: Ord, T: Clone { }"],
     ["exists<T> { WellFormed(S<T>) }", "exists<T> { T: Ord }", "forall<T> { if (T: Ord) { S<T>: Clone } }", "exists<T> { S<T>: Clone }",
      "forall<T> { if (FromEnv(S<T>)) { T: Clone } }"]),
    # explicit positive / negative impls of an auto trait: the reversed order puts the impls BEFORE the
    # `#[auto] trait` item (item ids are handed out in declaration order)
    (["#[auto] trait Send { }", "struct S { }", "struct P { }", "struct A { }", "struct W { s: S }", "struct V<T> { t: T, p: P }",
      "impl !Send for S { }", "impl Send for P where A: Send { }", "impl<T> Send for V<T> where T: Send { }"],
     ["S: Send", "W: Send", "A: Send", "P: Send", "V<S>: Send", "V<A>: Send", "exists<T> { V<T>: Send }", "(A, W): Send"]),
]


def canon_answer(a):
    """Answer with the canonical variables renamed by first occurrence (text)."""
    h = sx.head(a)
    if h not in ("Unique", "AmbigDefinite", "AmbigSuggested"):
        return sx.to_sexp(a) if not isinstance(a, str) else a
    us, tys = a[1], a[2]
    ren = {}

    def walk(t):
        th = sx.head(t)
        if th == "BV":
            if t[1] not in ren:
                ren[t[1]] = len(ren)
            return ("BV", ren[t[1]])
        if th == "App":
            return ("App", t[1], [walk(x) for x in t[2]])
        return t
    tys2 = [walk(t) for t in tys]
    inv = sorted(ren.items(), key=lambda kv: kv[1])
    us2 = [us[old] if old < len(us) else "?" for old, _ in inv] + [u for i, u in enumerate(us) if i not in ren]
    return sx.to_sexp((h, us2, tys2) + tuple(a[3:]))


FULL5 = [0]      # number of 5-impl programs permuted exhaustively so far (thorough tier: capped for the time budget)


def impl_orders(p, rng, thorough, k, nperm=None):
    """variants of p: list of Prog with different item / where-clause orders"""
    n = len(p.impls)
    if nperm is not None:
        out, seen = [], set()
        for pm in itertools.permutations(range(nperm)):
            q = pg.permute(p, rng)
            rest = list(range(nperm, n))
            rng.shuffle(rest)
            impls = [("impl", i) for i in pm]
            others = [o for o in q.order if o[0] != "impl"] + [("impl", i) for i in rest]
            rng.shuffle(others)
            slots = sorted(rng.sample(range(len(others) + len(impls)), len(impls)))
            order, io, oi = [], 0, 0
            for pos in range(len(others) + len(impls)):
                if io < len(slots) and pos == slots[io]:
                    order.append(impls[io]); io += 1
                else:
                    order.append(others[oi]); oi += 1
            q.order = order
            t = text_of(q)
            if t not in seen:
                seen.add(t)
                out.append(q)
        return out
    out = []
    exhaustive = thorough and (n <= 4 or (n == 5 and FULL5[0] < 15))
    if exhaustive:
        if n == 5:
            FULL5[0] += 1
        perms = list(itertools.permutations(range(n)))
    else:
        perms = []
        for _ in range(k):
            x = list(range(n))
            rng.shuffle(x)
            perms.append(tuple(x))
        if n >= 2:
            perms.append(tuple(reversed(range(n))))
    seen = set()
    for pm in perms:
        q = eg.permute(p, rng) if isinstance(p, eg.EProg) else pg.permute(p, rng)
        others = [o for o in q.order if o[0] != "impl"]
        impls = [("impl", i) for i in pm]
        # interleave: keep the relative order of the impls as in pm
        order, io = [], 0
        slots = sorted(rng.sample(range(len(others) + len(impls)), len(impls))) if impls else []
        oi = 0
        for pos in range(len(others) + len(impls)):
            if io < len(slots) and pos == slots[io]:
                order.append(impls[io])
                io += 1
            else:
                order.append(others[oi])
                oi += 1
        q.order = order
        t = text_of(q)
        if t not in seen:
            seen.add(t)
            out.append(q)
    return out


def text_of(p):
    return eg.to_text(p) if isinstance(p, eg.EProg) else pg.to_text(p)


class Fam:
    """one program, its goals, its variants"""
    def __init__(self, prog, goals, goal_texts, kind):
        self.prog, self.goals, self.goal_texts, self.kind = prog, goals, goal_texts, kind
        self.fixed = None
        self.exhaustive = False
        self.nperm = None           # permute only the first nperm impls exhaustively
        self.variants = []          # texts
        self.answers = {}           # (variant idx, solver) -> [answers]


def pair_family(rng, fixed=None):
    """structs with >= 2 parameters whose impl headers repeat arguments (Pair<A,A>, Pair<T,T>) next
    to non-repeating ones; existential goals; ALL impl orders are run (at most 4 impls)."""
    consts = ["A", "B", "C"]
    adts = [pg.Adt(c) for c in consts] + [pg.Adt("Pair", 2), pg.Adt("Tri", 3)]
    A = {c: pg.adt(c) for c in consts}
    if fixed is not None:
        heads = fixed
    else:
        pool = [pg.adt("Pair", A[x], A[y]) for x in consts for y in consts]
        pool += [pg.adt("Tri", A[x], A[y], A[z]) for x, y, z in (("A", "A", "A"), ("A", "B", "A"), ("B", "C", "A"), ("B", "B", "C"), ("C", "A", "A"))]
        heads = []
        # at least one header with a repeated argument and one without
        rep = [h for h in pool if len(set(h[2])) < len(h[2])]
        non = [h for h in pool if len(set(h[2])) == len(h[2])]
        heads.append(rng.choice(rep))
        heads.append(rng.choice([h for h in non if h[1] == heads[0][1]] or non))
        for _ in range(rng.choice([0, 1, 2])):
            h = rng.choice(pool)
            if h not in heads:
                heads.append(h)
        if rng.random() < 0.3:
            heads.append(pg.adt("Pair", pg.var(0), pg.var(0)) if rng.random() < 0.5 else pg.adt("Pair", pg.var(0), A["A"]))
    heads = heads[:2] + heads[2:][-2:]          # at most 4 impls: 24 orders
    impls = [pg.Impl(len(pg.ty_vars(h)), ("Foo", (h,))) for h in heads]
    p = pg.Prog(adts, [pg.Trait("Foo")], impls, "pair-repeat")
    goals = [("exists", (1,), ("atom", ("Foo", (pg.var(1),)))),
             ("exists", (1, 2), ("atom", ("Foo", (pg.adt("Pair", pg.var(1), pg.var(2)),)))),
             ("exists", (1,), ("atom", ("Foo", (pg.adt("Pair", pg.var(1), pg.var(1)),)))),
             ("exists", (1,), ("atom", ("Foo", (pg.adt("Pair", A["A"], pg.var(1)),)))),
             ("exists", (1, 2, 3), ("atom", ("Foo", (pg.adt("Tri", pg.var(1), pg.var(2), pg.var(3)),))))]
    f = Fam(p, goals, [pg.goal_text(g) for g in goals], "fragment:pair-repeat")
    f.exhaustive = True
    return f


def overlap_family(rng, fixed=False):
    """OVERLAPPING impls (program_ir, no coherence pass) with the same head instance where one is
    conclusive and another only ambiguous (a where-clause with several / no / one solution):
    the candidates of one goal then are Unique and Ambig(Definite) with the SAME substitution.
    All impl orders."""
    adts = [pg.Adt("A"), pg.Adt("B"), pg.Adt("W", 1), pg.Adt("P", 2)]
    traits = [pg.Trait("Foo"), pg.Trait("Bar"), pg.Trait("Baz")]
    A, B = pg.adt("A"), pg.adt("B")
    impls = [pg.Impl(0, ("Bar", (A,))), pg.Impl(0, ("Bar", (B,)))]
    if not fixed and rng.random() < 0.5:
        impls.append(pg.Impl(0, ("Baz", (A,))))
    if fixed:
        heads = [pg.adt("W", pg.var(0))]
    else:
        heads = [rng.choice([pg.adt("W", pg.var(0)), pg.adt("P", pg.var(0), pg.var(0)), pg.adt("P", pg.var(0), A), pg.adt("W", pg.adt("W", pg.var(0)))])]
    h = heads[0]
    foo = [pg.Impl(1, ("Foo", (h,))), pg.Impl(1, ("Foo", (h,)), [("Bar", (pg.var(0),))])]
    if not fixed and rng.random() < 0.4:
        foo.append(pg.Impl(1, ("Foo", (h,)), [("Baz", (pg.var(0),))]))
    if not fixed and rng.random() < 0.3:
        foo.append(pg.Impl(0, ("Foo", (pg.subst_ty(h, {0: A}),))))
    rng.shuffle(foo)
    foo = foo[:4 - 0]
    # only the Foo impls are permuted exhaustively: keep the others first (<= 4 Foo impls: 24 orders)
    p = pg.Prog(adts, traits, foo + impls, "overlap-conditional")
    goals = [("exists", (1,), ("atom", ("Foo", (pg.var(1),)))),
             ("exists", (1,), ("atom", ("Foo", (pg.subst_ty(h, {0: pg.var(1)}),)))),
             ("exists", (1, 2), ("and", (("atom", ("Foo", (pg.var(1),))), ("atom", ("Bar", (pg.var(2),)))))),
             ("atom", ("Foo", (pg.subst_ty(h, {0: A}),)))]
    f = Fam(p, goals, [pg.goal_text(g) for g in goals], "fragment:overlap-conditional")
    f.nperm = len(foo)
    f.exhaustive = True
    return f


def branch_family(rng, nperm, exact=False):
    """branching supertrait hierarchy (envgen.shape_branch); the TRAIT declarations are permuted:
    random permutations of all items plus, for every trait, the variant with that trait moved to the end"""
    p = eg.shape_branch(rng, exact=exact)
    goals = eg.branch_goals(p)
    f = Fam(p, goals, [eg.goal_text(g) for g in goals], "implied-bounds:branch")
    vs = []
    for _ in range(nperm):
        vs.append(eg.permute(p, rng))
    for ti in range(len(p.traits)):
        q = p.copy()
        q.order = [o for o in q.order if o != ("trait", ti)] + [("trait", ti)]
        vs.append(q)
    if exact:
        q = p.copy()
        idx = {t.name: i for i, t in enumerate(p.traits)}
        q.order = [o for o in q.order if o[0] != "trait"] + [("trait", idx[n]) for n in ("A", "C", "D", "E", "B")]
        vs.insert(0, q)
    f.fixed = vs
    return f


def gen_families(ctx):
    rng = ctx.rng
    fams = []
    # the F16 witness and the other corpus programs of the fragment first
    for p, goals in pg.corpus():
        fams.append(Fam(p, goals, [pg.goal_text(g) for g in goals], "corpus"))
    # the witness of the in-query F7 order dependence (finding C13:F7q), with the order that shows it
    S = [pg.adt("S%d" % i) for i in range(5)]
    c0 = lambda t: ("C0", (t,))
    p = pg.Prog([pg.Adt("S%d" % i) for i in range(5)], [pg.Trait("C0", 0, ("coinductive",))],
                [pg.Impl(0, c0(S[4]), [c0(S[1])]), pg.Impl(0, c0(S[1]), [c0(S[2]), c0(S[1])]), pg.Impl(0, c0(S[3]), [c0(S[1])]),
                 pg.Impl(0, c0(S[0]), [c0(S[4])]), pg.Impl(0, c0(S[2]), [c0(S[4]), c0(S[3])])], "corpus-F7q")
    p.order = [("impl", 0), ("impl", 1), ("adt", 1), ("adt", 0), ("impl", 2), ("adt", 4), ("adt", 3), ("impl", 3), ("impl", 4), ("trait", 0), ("adt", 2)]
    q = p.copy()
    q.impls[1].wcs = [c0(S[1]), c0(S[2])]
    q.order = [("impl", 0), ("adt", 1), ("adt", 3), ("adt", 4), ("impl", 2), ("trait", 0), ("impl", 1), ("adt", 2), ("impl", 4), ("impl", 3), ("adt", 0)]
    goals = [("exists", (1,), ("atom", c0(pg.var(1)))), ("atom", c0(S[0])), ("atom", c0(S[2]))]
    f = Fam(p, goals, [pg.goal_text(g) for g in goals], "corpus")
    f.fixed = [q]
    fams.append(f)
    fams.append(pair_family(rng, [pg.adt("Pair", pg.adt("A"), pg.adt("A")), pg.adt("Pair", pg.adt("B"), pg.adt("C"))]))
    for _ in range(ctx.n(4, 40)):
        fams.append(pair_family(rng))
    fams.append(branch_family(rng, ctx.n(4, 10), exact=True))
    for _ in range(ctx.n(2, 20)):
        fams.append(branch_family(rng, ctx.n(4, 10)))
    fams.append(overlap_family(rng, fixed=True))
    for _ in range(ctx.n(3, 30)):
        fams.append(overlap_family(rng))
    for _ in range(ctx.n(10, 110)):
        p = pg.gen_program(rng)
        gg = pg.GoalGen(rng, p)
        goals = [g for g in gg.goals(ctx.n(2, 3), ctx.n(2, 3), ctx.n(5, 6)) if not pg.is_floundering_prone(g)]
        fams.append(Fam(p, goals, [pg.goal_text(g) for g in goals], "fragment:" + p.shape))
    for _ in range(ctx.n(4, 40)):
        p = eg.gen_program(rng)
        gg = eg.IfGoalGen(rng, p)
        goals = [gg.if_goal() for _ in range(3)]
        # existential goals over the implied-bound programs
        for _ in range(3):
            t = rng.choice(p.traits)
            args = [pg.var(1)] + [pg.adt("S0")] * t.nextra
            goals.append(("exists", (1,), ("atom", (rng.choice(["impl", "wf"]), t.name, tuple(args)))))
        fams.append(Fam(p, goals, [eg.goal_text(g) for g in goals], "implied-bounds:" + p.shape))
    return fams


def run(ctx):
    ok, why = ctx.proof_stage("Props.C13", ["sat_perm", "sat_perm_wc", "contract_perm", "eval_perm", "f16_witness"])
    if not ok:
        ctx.violation({"kind": "proof", "broken": why}, no_input=True)
        return
    core.build_harness(bins=["solve"])
    rng = ctx.rng
    fams = gen_families(ctx)
    thorough = not ctx.quick
    cases, meta = [], []
    for fi, f in enumerate(fams):
        vs = (f.fixed or []) + impl_orders(f.prog, rng, thorough or f.exhaustive, ctx.n(2, 6), f.nperm)
        base = text_of(f.prog)
        f.variants = [base] + [text_of(q) for q in vs if text_of(q) != base]
        for vi, t in enumerate(f.variants):
            for sname, sv in (("slg", pg.SLG), ("rec", pg.REC)):
                cases.append(pg.case(t, f.goal_texts, sv, "Fresh", [("Cpu", ctx.n(4, 6))]))
                meta.append((fi, vi, sname))
    # wide programs: item-level permutations of the text
    wfams = []
    for items, goals in WIDE:
        f = Fam(None, None, goals, "wide")
        f.variants = [" ".join(items), " ".join(reversed(items))]
        for _ in range(ctx.n(3, 12)):
            x = list(items)
            rng.shuffle(x)
            t = " ".join(x)
            if t not in f.variants:
                f.variants.append(t)
        fi = len(fams) + len(wfams)
        wfams.append(f)
        for vi, t in enumerate(f.variants):
            for sname, sv in (("slg", pg.SLG), ("rec", pg.REC)):
                cases.append(pg.case(t, goals, sv, "Fresh", [("Cpu", 5)]))
                meta.append((fi, vi, sname))
    allf = fams + wfams
    res = logic.solve_cases(cases, timeout=ctx.n(600, 3000))
    for (fi, vi, sname), r in zip(meta, res):
        f = allf[fi]
        if not r["ok"]:
            ctx.violation({"kind": "infrastructure", "broken": "a permuted program failed to lower", "program": f.variants[vi],
                           "detail": (r["error"] or "")[:1500]}, no_input=True)
            return
        f.answers[(vi, sname)] = [("GoalError", sx.Str(g[1])) if g[0] == "error" else g[1] for g in r["goals"]]

    stats = collections.Counter()
    diffs = []          # (family, goal idx, solver, variant idx, base answer, other answer)
    for f in allf:
        for sname in ("slg", "rec"):
            base = f.answers[(0, sname)]
            for gi, gt in enumerate(f.goal_texts):
                a0 = base[gi]
                if logic.answer_kind(a0) == "GoalError":
                    raise core.CheckFailure("goal does not lower: %s / %s" % (gt, a0))
                for vi in range(1, len(f.variants)):
                    a1 = f.answers[(vi, sname)][gi]
                    if logic.is_death(a0) or logic.is_death(a1) or "Panic" in (logic.answer_kind(a0), logic.answer_kind(a1)):
                        stats["not-comparable(limits)"] += 1
                        continue
                    stats["%s:compared" % sname] += 1
                    nontrivial = logic.answer_kind(a0) not in ("NoSolution",) or logic.answer_kind(a1) != "NoSolution"
                    ctx.count(f.kind.split(":")[0], (f.variants[0], f.variants[vi], gt, sname), nontrivial=nontrivial)
                    if canon_answer(a0) != canon_answer(a1):
                        diffs.append((f, gi, sname, vi, a0, a1))
                    elif nontrivial and sname == "slg":
                        ctx.sample({"program": f.variants[0][:300], "permuted": f.variants[vi][:300], "goal": gt, "answer": canon_answer(a0)[:200]})

    # class membership of every (program, goal) of the fragment: decided in Coq on the INPUT
    in_class = {}
    defs, exprs, keys = {}, [], []
    for fi, f in enumerate(fams):
        if f.kind.startswith("implied-bounds"):
            continue
        defs["P%d" % fi] = ("program", pg.to_model(f.prog))
        st = f.prog.symtab()
        for gi, g in enumerate(f.goals):
            q, _ = pg.query_model(g, st)
            exprs.append((["P%d" % fi], "N.add (if f16_class P%d %s then 1%%N else 0%%N) (if f1_order_class P%d %s then 2%%N else 0%%N)" % (fi, sx.to_coq(q), fi, sx.to_coq(q))))
            keys.append((fi, gi))
    codes = eg.coq_codes_retry(ctx, "f16", defs, exprs, IMPORTS, ["Props/C13.vo"], shard=max(20, len(exprs) // 16 + 1))
    in_f1 = {}
    for k, c in zip(keys, codes):
        in_class[k] = (c % 2 == 1)
        in_f1[k] = (c >= 2)
    n_class_pairs = 0
    n_f1_pairs = 0
    for fi, f in enumerate(fams):
        for gi in range(len(f.goal_texts)):
            if in_class.get((fi, gi)):
                n_class_pairs += len(f.variants) - 1
            elif in_f1.get((fi, gi)):
                n_f1_pairs += len(f.variants) - 1

    known_hits = 0
    f1_hits = 0
    f7q_hits = 0
    fidx = {id(f): i for i, f in enumerate(allf)}
    rest = []
    for f, gi, sname, vi, a0, a1 in diffs:
        fi = fidx[id(f)]
        if sname == "slg" and in_class.get((fi, gi)):
            fk = ctx.match_known(None, "F16")
            if fk:
                ctx.known_finding(fk, f.goal_texts[gi])
                known_hits += 1
                continue
        if sname == "slg" and in_f1.get((fi, gi)) and logic.answer_kind(a0).startswith("Ambig") and logic.answer_kind(a1).startswith("Ambig"):
            fk = ctx.match_known(None, "F1")
            if fk:
                ctx.known_finding(fk, f.goal_texts[gi])
                f1_hits += 1
                continue
        rest.append((f, gi, sname, vi, a0, a1))
    # the in-query F7 class (logic's predicate, needs candidate instantiations): only for the remaining SLG differences
    f7q = {}
    cand_items = [(fidx[id(f)], gi) for f, gi, sname, vi, a0, a1 in rest if sname == "slg" and (fidx[id(f)], gi) in in_class]
    cand_items = list(dict.fromkeys(cand_items))
    if cand_items:
        cexprs = []
        for fi, gi in cand_items:
            f = fams[fi]
            st = f.prog.symtab()
            q, evars = pg.query_model(f.goals[gi], st)
            univ = pg.universe(f.prog, depth=2, limit=8)
            tuples = list(itertools.product(univ, repeat=len(evars)))[:60]
            cands = [[pg.ty_model(t, st, lambda k: k) for t in tp] for tp in tuples]
            cexprs.append((["P%d" % fi], logic.bb("f7q_query 200 P%d %s %s || f7n_order_query 200 P%d %s %s" % (fi, sx.to_coq(q), sx.to_coq(cands), fi, sx.to_coq(q), sx.to_coq(cands)))))
        ccodes = eg.coq_codes_retry(ctx, "f7q", defs, cexprs, IMPORTS, ["Props/C13.vo"])
        f7q = {k: (c == 1) for k, c in zip(cand_items, ccodes)}
    for f, gi, sname, vi, a0, a1 in rest:
        fi = fidx[id(f)]
        if sname == "slg" and f7q.get((fi, gi)):
            fk = ctx.match_known(None, "F7q")
            if fk:
                ctx.known_finding(fk, f.goal_texts[gi])
                f7q_hits += 1
                continue
        ctx.violation({"kind": "order-dependent-answer", "solver": sname, "program": f.variants[0], "permuted": f.variants[vi],
                       "goal": f.goal_texts[gi], "answer": canon_answer(a0), "answer_permuted": canon_answer(a1),
                       "f16_class": in_class.get((fi, gi)), "family": f.kind})

    total_slg = max(1, stats["slg:compared"])
    ctx.cov["rule"] = ("evaluations = (program, permuted program, goal, solver) comparisons of real answers (fresh solver each); "
                       "non-trivial = not NoSolution on both sides; distinct by the two program texts, goal and solver")
    ctx.cov["input_distribution"] = {"families": dict(collections.Counter(f.kind for f in allf)), "variants_total": sum(len(f.variants) for f in allf),
                                     "outcomes": dict(stats), "differences": len(diffs), "differences_in_known_class": known_hits, "differences_in_F1_class": f1_hits, "differences_in_F7q_class": f7q_hits,
                                     "all_impl_orders_for_small_programs": thorough, "exhaustive_5_impl_programs": FULL5[0]}
    ctx.cov["known_class_share"] = round(n_class_pairs / total_slg, 4)
    ctx.cov["known_class_share_f1_order"] = round(n_f1_pairs / total_slg, 4)
    ctx.cov["known_class_note"] = "share of SLG comparisons whose (program, goal) is in f16_class (whether or not the answers differ); %d of them differed" % known_hits
    ctx.cov["inconclusive"] = stats["not-comparable(limits)"]


def replay(ctx, obj):
    core.build_harness(bins=["solve"])
    sv = pg.SLG if obj.get("solver", "slg") == "slg" else pg.REC
    r = logic.solve_cases([pg.case(obj["program"], [obj["goal"]], sv, "Fresh", [("Cpu", 10)]),
                           pg.case(obj["permuted"], [obj["goal"]], sv, "Fresh", [("Cpu", 10)])])
    a0, a1 = r[0]["goals"][0][1], r[1]["goals"][0][1]
    print("original:", canon_answer(a0))
    print("permuted:", canon_answer(a1))
    return 0 if canon_answer(a0) == canon_answer(a1) else 1
