"""C29 — subtyping follows declared variance."""
from vlib import core, sx
from vlib.sx import Pair
from checks import inferlib as L
from checks.inferlib import N

META = {
    "id": "C29",
    "level": "proof",
    "technique": "Coq theorems (relate_cov_shape, relate_cov_constraints, xform_assoc, invert_involutive) over the Gallina model of relate + Subtype(A,B) goals through both real solvers and direct InferenceTable::relate(Covariant), returned lifetime constraints compared (as outlives closures over the external lifetimes) with the structural variance specification evaluated in Coq",
    "level_text": "Machine-checked proofs (Coq 8.16, axiom-free): for variable-free types of the property's fragment the model's covariant relate succeeds exactly when the lifetime-erased structures agree, and the outlives goals it returns are exactly those of the independent structural definition variance_constraints (xform composed down each position; lifetime pair at Covariant gives lb: la, Contravariant la: lb, Invariant both; lifetime slot of & / &mut contravariant), plus associativity of xform and involutivity of invert.  On every run generated pairs of types (references, mutable references, raw pointers, slices, tuples, fn pointers without binders, ADTs with declared variances; lifetimes from 'static, placeholders, unknowns) are posed as `forall<'a..> { exists<'x..> { Subtype(A, B) } }` to the SLG and the recursive solver (program text with #[variance(..)] structs) and related directly on a real InferenceTable; success must coincide with structural agreement and the returned constraint sets must have the same closure over the external lifetimes as the specification (intermediate lifetime variables eliminated).  Subtype conjunctions sharing a TYPE unknown (`exists<U> { Subtype(T1, U), Subtype(U, T2), .. }`, every shape of the systematic family, the unknown on either side) go through both solvers and relate; the answers (value of U up to renaming of fresh lifetime variables + outlives closure over the external lifetimes and the value's lifetime positions) are compared inside Coq with the model's relate-with-generalisation on the same script (Infer/VarianceU.v).",
    "level_note": "Trusted: Coq kernel; the specification variance_constraints itself (direction conventions are those blessed by tests/test/subtype.rs, DESIGN C29); harness; parsing/lowering of the goal text (cross-checked: the lowered goal must equal the generated terms). With lifetime unknowns the theorems are partial (proved for variable-free types); the correspondence covers unknowns.",
    "design_ref": "DESIGN.md section 4 C29",
    "bins": ["infer"],
    "assumptions": ["constraint sets are compared as reachability relations over the lifetimes occurring in A and B ('static has no built-in outlives axioms on either side)",
                    "a value `'x := l` in the answer substitution counts as the two requirements 'x: l and l: 'x"],
    "quick_s": 55, "thorough_s": 420,
}

THEOREMS = ["relate_cov_shape", "relate_cov_constraints", "relate_cov_shape_unknowns", "relate_cov_constraints_unknowns",
            "relate_constraints_unknowns_any_variance",
            "xform_assoc", "invert_involutive"]

PROGRAM = """
#[variance(Covariant)] struct CoT<T> {}
#[variance(Contravariant)] struct ContraT<T> {}
#[variance(Invariant)] struct InvT<T> {}
#[variance(Covariant)] struct CoL<'a> {}
#[variance(Contravariant)] struct ContraL<'a> {}
#[variance(Invariant)] struct InvL<'a> {}
#[variance(Contravariant, Covariant)] struct Mix<'a, T> {}
#[variance(Covariant, Invariant)] struct Two<T, U> {}
struct Unit {}
"""
ADTS = {"CoT": "T", "ContraT": "T", "InvT": "T", "CoL": "L", "ContraL": "L", "InvL": "L", "Mix": "LT", "Two": "TT", "Unit": ""}
FORALL = ["'a", "'b", "'c"]
EXISTS = ["'x", "'y"]
IMPORTS = L.IMPORTS + ["Infer.Variance"]


class Gen:
    def __init__(self, r, ids, depth=3, unknowns=True):
        self.r, self.ids, self.depth, self.unknowns = r, ids, depth, unknowns

    def lifetime(self):
        r = self.r
        k = r.random()
        if k < 0.15:
            return L.STATIC
        if k < 0.7 or not self.unknowns:
            return L.lph(1, r.randrange(len(FORALL)))
        return L.lt_var(r.randrange(len(EXISTS)))

    def skeleton(self, d):
        r = self.r
        if d <= 0 or r.random() < 0.25:
            return r.choice([L.U32, L.BOOL, N(("HAdt", self.ids["Unit"]))])
        k = r.choice(["ref", "ref", "refmut", "adt", "adt", "adt", "tuple", "fn", "fn", "raw", "slice"])
        if k == "ref":
            return N(("HRef", "Not"), [self.lifetime(), self.skeleton(d - 1)])
        if k == "refmut":
            return N(("HRef", "Mut"), [self.lifetime(), self.skeleton(d - 1)])
        if k == "raw":
            return N(("HRaw", r.choice(["Mut", "Not"])), [self.skeleton(d - 1)])
        if k == "slice":
            return N("HSlice", [self.skeleton(d - 1)])
        if k == "tuple":
            n = r.randint(1, 3)
            return N(("HTuple", n), [self.skeleton(d - 1) for _ in range(n)])
        if k == "fn":
            n = r.randint(1, 3)
            return N(("HFnPtr", 0, "AbiRust", "Safe", False), [self.skeleton(d - 1) for _ in range(n)])
        name = r.choice([a for a in ADTS if ADTS[a]])
        return N(("HAdt", self.ids[name]), [self.lifetime() if p == "L" else self.skeleton(d - 1) for p in ADTS[name]])

    def relifetime(self, t, p_shape=0.0):
        r = self.r
        if L.kind(t) == "L":
            return self.lifetime() if r.random() < 0.7 else t
        if p_shape and r.random() < p_shape:
            return self.skeleton(1)
        return ("Node", t[1], [self.relifetime(c, p_shape) for c in t[2]])

    def pair(self):
        s = self.skeleton(self.depth)
        shape = 0.08 if self.r.random() < 0.25 else 0.0
        return self.relifetime(s), self.relifetime(s, shape)


def render(t, names):
    h = L.hname(t)
    if h == "HLStatic":
        return "'static"
    if h == "HLErased":
        return "'erased"
    if h == "HLPlaceholder":
        return FORALL[t[1][2]]
    if h == "HLInfer":
        return EXISTS[t[1][1]]
    if h == "HInfer":
        return "U"
    if h == "HScalar":
        return "u32" if t == L.U32 else "bool"
    if h == "HRef":
        return "&%s %s%s" % (render(t[2][0], names), "mut " if t[1][1] == "Mut" else "", render(t[2][1], names))
    if h == "HRaw":
        return "*%s %s" % ("mut" if t[1][1] == "Mut" else "const", render(t[2][0], names))
    if h == "HSlice":
        return "[%s]" % render(t[2][0], names)
    if h == "HTuple":
        cs = [render(c, names) for c in t[2]]
        return "(%s,)" % cs[0] if len(cs) == 1 else "(%s)" % ", ".join(cs)
    if h == "HFnPtr":
        cs = [render(c, names) for c in t[2]]
        return "fn(%s) -> %s" % (", ".join(cs[:-1]), cs[-1])
    if h == "HAdt":
        cs = [render(c, names) for c in t[2]]
        return names[t[1][1]] + ("<%s>" % ", ".join(cs) if cs else "")
    raise ValueError(h)


def goal_text(a, b, names):
    return "forall<%s> { exists<%s> { Subtype(%s, %s) } }" % (", ".join(FORALL), ", ".join(EXISTS), render(a, names), render(b, names))


def unbind(t, depth=0):
    """The lowered goal's bound lifetimes as the generator's atoms: exists -> unknown, forall -> placeholder of U1."""
    if t[0] == "Var":
        k = t[2] - depth
        return L.lt_var(t[3]) if k == 0 else L.lph(1, t[3])
    if t[0] != "Node":
        return t
    d = depth + 1 if L.hname(t) == "HFnPtr" else depth
    return ("Node", t[1], [unbind(c, d) for c in t[2]])


def erase(t):
    if L.kind(t) == "L":
        return L.STATIC
    if t[0] != "Node":
        return t
    return ("Node", t[1], [erase(c) for c in t[2]])


def lifetimes_of(t):
    out = []
    for s in L.subterms(t):
        if L.kind(s) == "L" and s not in out:
            out.append(s)
    return out


# -- python reading of the specification (used only to decide whether a disagreement is a violation) --
def xform(a, b):
    if a == "Invariant" or b == "Invariant":
        return "Invariant"
    if b == "Covariant":
        return a
    return "Contravariant" if a == "Covariant" else "Covariant"


def py_vc(v, a, b, adt):
    if L.kind(a) == "L":
        if a == b:
            return []
        return {"Covariant": [(b, a)], "Contravariant": [(a, b)], "Invariant": [(a, b), (b, a)]}[v]
    h = L.hname(a)
    out = []
    n = len(a[2])
    for i, (x, y) in enumerate(zip(a[2], b[2])):
        if h == "HRef":
            pv = "Contravariant" if i == 0 else ("Covariant" if a[1][1] == "Not" else "Invariant")
        elif h == "HRaw":
            pv = "Covariant" if a[1][1] == "Not" else "Invariant"
        elif h in ("HSlice", "HTuple"):
            pv = "Covariant"
        elif h == "HAdt":
            vs = adt.get(a[1][1], [])
            pv = vs[i] if i < len(vs) else "Invariant"
        elif h == "HFnPtr":
            pv = "Contravariant" if i < n - 1 else "Covariant"
        else:
            pv = "Invariant"
        out += py_vc(xform(v, pv), x, y, adt)
    return out


def closure(pairs, ext):
    key = lambda t: sx.to_sexp(t)
    succ = {}
    for (x, y) in pairs:
        succ.setdefault(key(x), set()).add(key(y))
    out = set()
    for x in ext:
        seen, todo = {key(x)}, [key(x)]
        while todo:
            n = todo.pop()
            for m in succ.get(n, ()):
                if m not in seen:
                    seen.add(m)
                    todo.append(m)
        for y in ext:
            if key(y) != key(x) and key(y) in seen:
                out.add((key(x), key(y)))
    return out


def requirements_from_solution(ans, e2c):
    """(Unique [u..] [subst..] [constraints..]) -> requirement pairs over atoms (answer-bound variable j -> ?100+j)."""
    def atom(t):
        if t[0] == "Var":
            return L.lt_var(100 + t[3])
        return t
    pairs = []
    for c in ans[3]:
        if L.hname(c) == "HLtOutlives":
            pairs.append((atom(c[2][0]), atom(c[2][1])))
    for i, k in enumerate(e2c):
        if k != "None":
            val = ans[2][k[1]]
            if L.kind(val) == "L":
                pairs.append((L.lt_var(i), atom(val)))
                pairs.append((atom(val), L.lt_var(i)))
    return pairs


def requirements_from_relate(sr, nexists):
    st = sr.state
    pairs = []
    for g in L.norm_goals(st, sr.goals):
        if L.hname(g) == "HDomainGoal":
            w = g[2][0][2][0]
            if L.hname(w) == "HLtOutlives":
                pairs.append((w[2][0], w[2][1]))
    for i in range(nexists):
        val = st.deep(L.lt_var(i))
        if val != L.lt_var(i):
            pairs.append((L.lt_var(i), val))
            pairs.append((val, L.lt_var(i)))
    return pairs


# ---------------------------------------------------------------------------------------------
# Subtype goals with a TYPE unknown: exists<U> { Subtype(T1, U), Subtype(U, T2), .. }
# ---------------------------------------------------------------------------------------------
def shapes(ids):
    """The lifetime slots and type contexts of the systematic family: a list of functions lifetime -> type."""
    A = lambda name, *cs: N(("HAdt", ids[name]), list(cs))
    FN = lambda *cs: N(("HFnPtr", 0, "AbiRust", "Safe", False), list(cs))
    pc = L.lph(1, 2)
    slots = [lambda l: N(("HRef", "Not"), [l, L.U32]), lambda l: N(("HRef", "Mut"), [l, L.U32]),
             lambda l: A("CoL", l), lambda l: A("ContraL", l), lambda l: A("InvL", l), lambda l: A("Mix", l, L.U32)]
    ctxs = [lambda t: t, lambda t: N(("HRef", "Not"), [pc, t]), lambda t: N(("HRef", "Mut"), [pc, t]),
            lambda t: N(("HRaw", "Not"), [t]), lambda t: N(("HRaw", "Mut"), [t]), lambda t: N("HSlice", [t]),
            lambda t: N(("HTuple", 2), [t, L.U32]), lambda t: FN(t, L.U32), lambda t: FN(L.U32, t), lambda t: FN(FN(t, L.U32), L.U32),
            lambda t: A("CoT", t), lambda t: A("ContraT", t), lambda t: A("InvT", t), lambda t: A("Two", t, L.U32), lambda t: A("Two", L.U32, t),
            lambda t: A("Mix", pc, t)]
    return [(lambda l, c=c, sl=sl: c(sl(l))) for c in ctxs for sl in slots]


def unknown_goals(ids):
    """For every shape T of the systematic family (a lifetime slot under a type context) and a type unknown U:
    conjunctions of Subtype goals sharing U, whose other sides differ only in the lifetime: the unknown on the
    right of both, on the left of both, and on different sides (both orders); for the bare slots also three
    conjuncts and 'static.  A conjunct is (lhs, rhs); U is the unknown ?0."""
    a, b, c3 = L.lph(1, 0), L.lph(1, 1), L.lph(1, 2)
    U = L.ty_var(0)
    out = []
    for k, T in enumerate(shapes(ids)):
        out.append([(T(a), U), (T(b), U)])
        out.append([(U, T(a)), (U, T(b))])
        out.append([(T(a), U), (U, T(b))])
        out.append([(U, T(a)), (T(b), U)])
        if k < 6:
            out.append([(T(a), U), (T(b), U), (T(c3), U)])
            out.append([(U, T(a)), (T(b), U), (U, T(c3))])
            out.append([(T(L.STATIC), U), (T(a), U)])
            out.append([(T(a), U), (T(L.STATIC), U)])
            out.append([(T(a), U)])
    # conjuncts whose structures disagree: no solution
    sh = shapes(ids)
    for k in range(6):
        out.append([(sh[k](a), U), (sh[(k + 1) % 6](b), U)])
        out.append([(U, sh[k](a)), (sh[(k + 1) % 6](b), U)])
    return out


def goal_text_u(conj, names):
    return "forall<%s> { exists<U> { %s } }" % (", ".join(FORALL), ", ".join("Subtype(%s, %s)" % (render(x, names), render(y, names)) for (x, y) in conj))


def unbind_u(t, depth=0):
    if t[0] == "Var":
        return L.ty_var(t[3]) if t[1] == "STy" else L.lph(1, t[3])
    if t[0] != "Node":
        return t
    d = depth + 1 if L.hname(t) == "HFnPtr" else depth
    return ("Node", t[1], [unbind_u(c, d) for c in t[2]])


def fresh_atoms(t):
    """answer-bound variable j -> the lifetime atom ?100+j"""
    if t[0] == "Var":
        return L.lt_var(100 + t[3])
    if t[0] != "Node":
        return t
    return ("Node", t[1], [fresh_atoms(c) for c in t[2]])


def unknown_family(ctx, ids, names, adt_tbl, viol, stats):
    """Runs the family through both solvers and InferenceTable::relate; answers are compared inside Coq with the
    model's (Infer.VarianceU.c29u_model: relate with generalisation on the script of the goal).  Returns the
    scripts and real traces for the model correspondence of relate itself."""
    goals = unknown_goals(ids)
    U = L.ty_var(0)
    prelude = ["SNewUniverse", ("SNewVar", 1)]
    scripts = [(adt_tbl, [], prelude + [("SRelate", "Covariant", x, y) for (x, y) in conj]) for conj in goals]
    solver_cases, meta = [], []
    for gi, conj in enumerate(goals):
        txt = goal_text_u(conj, names)
        for sv in ("Slg", "Rec"):
            solver_cases.append(("Subtype", sx.Str(PROGRAM), sx.Str(txt), sv))
            meta.append((gi, sv, txt))
    souts = core.run_harness("infer", solver_cases, args=["subtype"], timeout=300)
    traces, raw = L.run_scripts(scripts)
    inputs, expected, info = [], [], []

    def ext_of(conj):
        out = []
        for (x, y) in conj:
            for l in lifetimes_of(x) + lifetimes_of(y):
                if l not in out:
                    out.append(l)
        return out

    def record(gi, who, summary, txt, shown):
        inputs.append(Pair(Pair(L.coq_case(*scripts[gi]), 0), ext_of(goals[gi])))
        expected.append(summary)
        info.append((gi, who, txt, shown))

    for (gi, sv, txt), o in zip(meta, souts):
        v = sx.parse_sexp(o) if o and o.startswith("(") else None
        if not (isinstance(v, tuple) and v[0] == "Sol"):
            raise core.CheckFailure("solver harness failed on %s: %s" % (txt, (o or "")[:300]))
        body = v[3]
        while L.hname(body) in ("HQuantified", "HBinders"):
            body = body[2][0]
        cj = body[2] if L.hname(body) == "HAll" else [body]
        low = [(unbind_u(g[2][0]), unbind_u(g[2][1])) for g in cj]
        if low != [(x, y) for (x, y) in goals[gi]]:
            raise core.CheckFailure("goal text does not lower to the generated terms: %s" % txt)
        ans = v[5]
        ctx.count("unknown-solver:" + sv, sv + "|" + txt, nontrivial=True)
        if isinstance(ans, tuple) and ans[0] == "Unique":
            stats["u_unique"] += 1
            k = v[4][0]
            if k == "None":
                raise core.CheckFailure("the type unknown is not in the answer substitution: %s" % txt)
            val = fresh_atoms(ans[2][k[1]])
            reqs = [Pair(fresh_atoms(c[2][0]), fresh_atoms(c[2][1])) for c in ans[3] if L.hname(c) == "HLtOutlives"]
            record(gi, sv, ("Some", Pair(val, reqs)), txt, sx.to_sexp(ans)[:600])
        elif ans == "NoSolution":
            stats["u_nosolution"] += 1
            record(gi, sv, "None", txt, "NoSolution")
        else:
            stats["u_ambig"] += 1
            if len(viol) < 4:
                viol.append(1)
                ctx.violation({"kind": "property", "what": "a Subtype conjunction over closed types and one type unknown has neither a unique answer nor no solution",
                               "who": sv, "goal": txt, "program": PROGRAM, "got": sx.to_sexp(ans)[:300]})
    for gi, tr in enumerate(traces):
        if tr is None:
            raise core.CheckFailure("infer harness could not run a C29 unknown-type script")
        txt = goal_text_u(goals[gi], names)
        ctx.count("unknown-relate", "relate|" + txt, nontrivial=True)
        rel = [sr for s_, sr in zip(scripts[gi][2], tr) if s_ != "SNewUniverse" and s_[0] == "SRelate"]
        if len(rel) == len(goals[gi]) and all(sr.kind == "Ok" for sr in rel):
            stats["u_relate_ok"] += 1
            st = rel[-1].state
            gs = [g for sr in rel for g in sr.goals]
            reqs = []
            for g in L.norm_goals(st, gs):
                if L.hname(g) == "HDomainGoal" and L.hname(g[2][0][2][0]) == "HLtOutlives":
                    w = g[2][0][2][0]
                    reqs.append(Pair(w[2][0], w[2][1]))
            record(gi, "InferenceTable::relate", ("Some", Pair(st.deep(U), reqs)), txt, "relate: U = %s" % sx.to_sexp(st.deep(U))[:300])
        else:
            stats["u_relate_err"] += 1
            record(gi, "InferenceTable::relate", "None", txt, "relate: " + "/".join(sr.kind for sr in rel))
    for conj in goals[:2]:
        ctx.sample({"goal": goal_text_u(conj, names)})
    uniq, where = {}, []
    for inp, exp in zip(inputs, expected):
        where.append(uniq.setdefault(sx.to_sexp(inp) + "|" + sx.to_sexp(exp), len(uniq)))
    upairs = [None] * len(uniq)
    for (inp, exp), k in zip(zip(inputs, expected), where):
        upairs[k] = (inp, exp)
    ubad = set(core.coq_mismatches(ctx.work, "specu", IMPORTS + ["Infer.VarianceU"], fn="c29u_model", eqb="c29u_eqb",
                                   in_ty="case_t * N * list tm", out_ty="option (tm * list (tm * tm))",
                                   pairs=upairs, shard=max(100, (len(upairs) + core.NCPU - 1) // core.NCPU)))
    bad = [j for j, k in enumerate(where) if k in ubad]
    ctx.cov["unknown_type_goals"] = {"goals": len(goals), "comparisons": len(where), "distinct": len(upairs), "mismatches": len(bad)}
    for j in bad:
        gi, who, txt, shown = info[j]
        if len(viol) < 4:
            viol.append(1)
            ctx.violation({"kind": "property", "what": "the answer to a Subtype conjunction with a type unknown differs from the model's relate with generalisation "
                                                       "(value of the unknown up to renaming of fresh lifetime variables + outlives closure over the external lifetimes and the value's lifetime positions)",
                           "who": who, "goal": txt, "program": PROGRAM, "answer": shown,
                           "script": sx.to_sexp(L.harness_case(*scripts[gi]))})
    return scripts, traces


def run(ctx):
    ok, why = ctx.proof_stage("Props.C29", THEOREMS)
    core.build_harness(bins=["infer"])
    r = ctx.rng
    probe = core.run_harness("infer", [("Subtype", sx.Str(PROGRAM), sx.Str("Subtype(Unit, Unit)"), "Slg")], args=["subtype"], timeout=120)[0]
    pv = sx.parse_sexp(probe)
    if not (isinstance(pv, tuple) and pv[0] == "Sol"):
        raise core.CheckFailure("cannot lower the C29 program: " + probe[:500])
    ids = {str(p[0]): p[1] for p in pv[1]}
    names = {v: k for k, v in ids.items()}
    adt = {p[0]: list(p[1]) for p in pv[2]}
    adt_tbl = sorted(adt.items())
    n = ctx.n(260, 2000)
    g = Gen(r, ids, depth=ctx.n(3, 4))
    g0 = Gen(r, ids, depth=ctx.n(3, 4), unknowns=False)
    pairs = [(g0 if i % 2 == 0 else g).pair() for i in range(n)]
    # hand-picked conventions of tests/test/subtype.rs first
    a_, b_ = L.lph(1, 0), L.lph(1, 1)
    pinned = [(N(("HAdt", ids["CoL"]), [a_]), N(("HAdt", ids["CoL"]), [b_])),
              (N(("HRef", "Not"), [a_, L.U32]), N(("HRef", "Not"), [b_, L.U32])),
              (N(("HFnPtr", 0, "AbiRust", "Safe", False), [N(("HRef", "Not"), [a_, L.U32]), L.U32]), N(("HFnPtr", 0, "AbiRust", "Safe", False), [N(("HRef", "Not"), [b_, L.U32]), L.U32])),
              (L.U32, L.BOOL),
              # two unknown lifetimes at a contravariant / covariant position (found red by this check, fixed in 9147c48)
              (N(("HAdt", ids["ContraL"]), [L.lt_var(0)]), N(("HAdt", ids["ContraL"]), [L.lt_var(1)])),
              (N(("HRef", "Not"), [L.lt_var(1), L.U32]), N(("HRef", "Not"), [L.lt_var(0), L.U32]))]
    fixed = corpus_pairs(ids) + pinned + systematic_pairs(ids)
    pairs = fixed + pairs
    ctx.cov["systematic_pairs"] = len(fixed)
    solver_cases, meta = [], []
    for (a, b) in pairs:
        txt = goal_text(a, b, names)
        for sv in ("Slg", "Rec"):
            solver_cases.append(("Subtype", sx.Str(PROGRAM), sx.Str(txt), sv))
            meta.append((a, b, sv, txt))
    souts = core.run_harness("infer", solver_cases, args=["subtype"], timeout=300)
    prelude = ["SNewUniverse"] + [("SNewVar", 1)] * len(EXISTS)
    scripts = [(adt_tbl, [], prelude + [("SRelate", "Covariant", a, b)]) for (a, b) in pairs]
    traces, raw = L.run_scripts(scripts)
    viol = []
    spec_inputs, spec_expected, spec_meta = [], [], []
    stats = {"unique": 0, "nosolution": 0, "ambig": 0, "relate_ok": 0, "relate_err": 0, "shape_mismatch_pairs": 0, "with_unknowns": 0,
             "u_unique": 0, "u_nosolution": 0, "u_ambig": 0, "u_relate_ok": 0, "u_relate_err": 0}

    def record(a, b, who, reqs, txt):
        ext = lifetimes_of(a) + [x for x in lifetimes_of(b) if x not in lifetimes_of(a)]
        spec_inputs.append(Pair(Pair(Pair(L.variances_sx(adt_tbl), a), b), ext))
        spec_expected.append([Pair(x, y) for (x, y) in reqs])
        spec_meta.append((a, b, who, reqs, ext, txt))

    def shape_violation(a, b, who, got, txt):
        if len(viol) < 4:
            viol.append(1)
            ctx.violation({"kind": "property", "what": "success of Subtype(A, B) does not coincide with agreement of the lifetime-erased structures",
                           "who": who, "structures_agree": erase(a) == erase(b), "got": got, "goal": txt, "program": PROGRAM,
                           "A": sx.to_sexp(a), "B": sx.to_sexp(b)})

    for (a, b, sv, txt), o in zip(meta, souts):
        v = sx.parse_sexp(o) if o and o.startswith("(") else None
        if not (isinstance(v, tuple) and v[0] == "Sol"):
            raise core.CheckFailure("solver harness failed on %s: %s" % (txt, (o or "")[:300]))
        body = v[3]
        while L.hname(body) in ("HQuantified", "HBinders"):
            body = body[2][0]
        la, lb = unbind(body[2][0]), unbind(body[2][1])
        if la != a or lb != b:
            raise core.CheckFailure("goal text does not lower to the generated terms: %s" % txt)
        ans = v[5]
        same = erase(a) == erase(b)
        ctx.count("solver:" + sv, sv + "|" + txt, nontrivial=L.tsize(a) > 2)
        if isinstance(ans, tuple) and ans[0] == "Unique":
            stats["unique"] += 1
            if not same:
                shape_violation(a, b, sv, "Unique", txt)
                continue
            record(a, b, sv, requirements_from_solution(ans, v[4]), txt)
        elif ans == "NoSolution":
            stats["nosolution"] += 1
            if same:
                shape_violation(a, b, sv, "NoSolution", txt)
        else:
            stats["ambig"] += 1
            shape_violation(a, b, sv, sx.to_sexp(ans)[:200], txt)
    for (a, b), tr, c in zip(pairs, traces, scripts):
        if tr is None:
            raise core.CheckFailure("infer harness could not run a C29 script")
        sr = tr[-1]
        txt = goal_text(a, b, names)
        same = erase(a) == erase(b)
        if not same:
            stats["shape_mismatch_pairs"] += 1
        if any(L.hname(x) == "HLInfer" for x in lifetimes_of(a) + lifetimes_of(b)):
            stats["with_unknowns"] += 1
        ctx.count("relate", "relate|" + txt, nontrivial=L.tsize(a) > 2)
        if sr.kind == "Ok":
            stats["relate_ok"] += 1
            if not same:
                shape_violation(a, b, "InferenceTable::relate", "Ok", txt)
                continue
            record(a, b, "relate", requirements_from_relate(sr, len(EXISTS)), txt)
        else:
            stats["relate_err"] += 1
            if same:
                shape_violation(a, b, "InferenceTable::relate", sr.kind, txt)
    for (a, b) in pairs[:3]:
        ctx.sample({"goal": goal_text(a, b, names)})
    # returned constraints vs the specification, inside Coq
    # the solvers and relate mostly return the same requirement set for a pair: evaluate each distinct (input, set) once
    uniq, where = {}, []
    for inp, exp in zip(spec_inputs, spec_expected):
        key = sx.to_sexp(inp) + "|" + sx.to_sexp(exp)
        where.append(uniq.setdefault(key, len(uniq)))
    upairs = [None] * len(uniq)
    for (inp, exp), k in zip(zip(spec_inputs, spec_expected), where):
        upairs[k] = (inp, exp)
    ubad = set(core.coq_mismatches(ctx.work, "spec", IMPORTS, fn="c29_spec", eqb="c29_eqb",
                                   in_ty="list (N * list variance) * tm * tm * list tm", out_ty="list (tm * tm)",
                                   pairs=upairs, shard=max(200, (len(upairs) + core.NCPU - 1) // core.NCPU)))
    bad = [j for j, k in enumerate(where) if k in ubad]
    ctx.cov["spec_mismatches"] = len(bad)
    ctx.cov["spec_comparisons"] = {"total": len(where), "distinct": len(upairs)}
    for j in bad:
        a, b, who, reqs, ext, txt = spec_meta[j]
        mine = closure(py_vc("Covariant", a, b, adt), ext)
        theirs = closure(reqs, ext)
        if mine != theirs:
            f = ctx.match_known(None, known_class(a, b))
            if f:
                ctx.known_finding(f, "%s: %s" % (who, txt))
                continue
            if len(viol) < 4:
                viol.append(1)
                ctx.violation({"kind": "property", "what": "returned lifetime requirements are not equivalent to those dictated by the variance of each position",
                               "who": who, "goal": txt, "program": PROGRAM, "returned": [(sx.to_sexp(x), sx.to_sexp(y)) for (x, y) in reqs],
                               "missing (x: y)": sorted(mine - theirs)[:10], "extra (x: y)": sorted(theirs - mine)[:10]})
        elif not viol:
            ctx.violation({"kind": "correspondence", "goal": txt, "who": who,
                           "broken": "Coq specification Infer.Variance.variance_constraints disagrees with the implementation although the python reading of the same definition agrees"}, no_input=True)
    # Subtype conjunctions with a type unknown (generalisation)
    uscripts, utraces = unknown_family(ctx, ids, names, adt_tbl, viol, stats)
    # direct relate vs the model of relate
    scripts = scripts + uscripts
    traces = traces + utraces
    badm = L.model_mismatches(ctx, "relate", scripts, traces, shard=ctx.n(150, 600))
    ctx.cov["model_mismatches"] = len(badm)
    for j in badm[:2]:
        diag = L.model_diff(ctx, "diag_%d" % j, scripts[j], traces[j])
        if not viol:
            ctx.violation({"kind": "correspondence", "case": sx.to_sexp(L.harness_case(*scripts[j])), "model_results": diag[1][:2000],
                           "broken": "correspondence Infer.Unify.relate = InferenceTable::relate at Covariant (relate_cov_* are about the model)"}, no_input=True)
    ctx.cov["outcomes"] = stats
    ctx.cov["rule"] = ("pairs of types derived from one skeleton (depth <= %d; &, &mut, *const/*mut, slices, tuples, fn pointers without binders, 8 ADTs with declared variances) with independently chosen lifetimes "
                       "('static, 3 placeholders, 2 unknowns; every second pair without unknowns; a quarter with a structural edit), posed to SLG, recursive solver and InferenceTable::relate(Covariant); "
                       "plus the deterministic type-unknown family: for each of the 96 shapes (6 lifetime slots x 16 type contexts) conjunctions of 2-3 Subtype goals sharing one type unknown (unknown right/right, left/left, right/left, left/right; 'static variants, single goals and structurally disagreeing conjuncts for the bare slots), via SLG, recursive solver and relate, compared with the model's relate with generalisation; "
                       "non-trivial = composite types" % ctx.n(3, 4))
    if not ok:
        ctx.violation({"kind": "proof", "broken": why}, no_input=True)


def systematic_pairs(ids):
    """Every variance position x every pair of lifetimes with 'static / 'erased / a placeholder on one side and an
    unknown on the other (both orders), and two unknowns: a lifetime slot (of &, &mut, or a declared ADT parameter)
    placed under each type context (identity, & / &mut pointee, raw pointers, slice, tuple, fn argument / return,
    fn argument of an fn argument, declared ADT type parameters)."""
    A = lambda name, *cs: N(("HAdt", ids[name]), list(cs))
    FN = lambda *cs: N(("HFnPtr", 0, "AbiRust", "Safe", False), list(cs))
    pa = L.lph(1, 0)
    slots = [lambda l: N(("HRef", "Not"), [l, L.U32]), lambda l: N(("HRef", "Mut"), [l, L.U32]),
             lambda l: A("CoL", l), lambda l: A("ContraL", l), lambda l: A("InvL", l), lambda l: A("Mix", l, L.U32)]
    ctxs = [lambda t: t, lambda t: N(("HRef", "Not"), [pa, t]), lambda t: N(("HRef", "Mut"), [pa, t]),
            lambda t: N(("HRaw", "Not"), [t]), lambda t: N(("HRaw", "Mut"), [t]), lambda t: N("HSlice", [t]),
            lambda t: N(("HTuple", 2), [t, L.U32]), lambda t: FN(t, L.U32), lambda t: FN(L.U32, t), lambda t: FN(FN(t, L.U32), L.U32),
            lambda t: A("CoT", t), lambda t: A("ContraT", t), lambda t: A("InvT", t), lambda t: A("Two", t, L.U32), lambda t: A("Two", L.U32, t),
            lambda t: A("Mix", pa, t)]
    x, y = L.lt_var(0), L.lt_var(1)
    lts = [(L.STATIC, x), (x, L.STATIC), (N("HLErased"), x), (x, N("HLErased")), (pa, x), (x, pa), (x, y)]
    out = []
    for c in ctxs:
        for sl in slots:
            for (la, lb) in lts:
                out.append((c(sl(la)), c(sl(lb))))
    return out


def corpus_pairs(ids):
    """Minimised past failures: /verif/corpus/C29/*.json with {"A": sexp, "B": sexp}; ADTs by name."""
    import glob, json, os
    def fix(t):
        if isinstance(t, tuple) and t[0] == "Node":
            h = t[1]
            if isinstance(h, tuple) and h[0] == "HAdt" and isinstance(h[1], str):
                h = ("HAdt", ids[h[1]])
            return ("Node", h, [fix(c) for c in t[2]])
        return t
    out = []
    for f in sorted(glob.glob(os.path.join(core.VERIF, "corpus", "C29", "*.json"))):
        o = json.load(open(f))
        out.append((fix(sx.parse_sexp(o["A"])), fix(sx.parse_sexp(o["B"]))))
    return out


def known_class(a, b):
    """Class predicate on the input: a pair of *unknown* lifetimes meets at a non-invariant position."""
    return None


def replay(ctx, obj):
    print("replay goal:", obj.get("goal"))
    return 1
