"""C09 — every solve call terminates after a bounded amount of work, without hanging or
panicking (recursive solver: within its configured overflow depth)."""
from __future__ import annotations

import os
import re

from vlib import core, sx
from vlib import proggen as pg
from checks import enginelib as E
from checks import histlib as H

try:
    THEOREMS = re.findall(r"^Theorem\s+(\w+)", open(os.path.join(core.COQ, "Props", "C09.v")).read(), re.M)
except OSError:
    THEOREMS = []

META = {
    "id": "C09", "level": "proof",
    "technique": "Coq fuel theorems over the faithful mechanism model of RecursiveContext<K,V> (explicit OutOfFuel / OverflowDepth outcomes) "
                 "+ equality of the hooked work counters (H4) of the REAL generic engine with the model's step counts on the same and-or graphs "
                 "+ bounded-work runs of both real solvers with reduced limits in CPU/stack-limited child processes",
    "level_text": "For ground (and-or graph) instances the real engine's solve_goal / solve_iteration counters must EQUAL the model's counts "
                  "(extra or missing iterations are a disagreement); non-ground programs (growing types, polymorphic recursion) are run with reduced "
                  "max_size / overflow depth, every call in a child process; panics and aborts are outcomes.",
    "level_note": "the fuel bound of the engine model is partial (see Props/C09.v and evidence.assumptions); non-ground SLG search is exploration only",
    "design_ref": "DESIGN.md §4 C09",
    "bins": ["engine", "hist"],
    "assumptions": [
        "engine theorems are about the propositional instantiation of SolverStuff (ground and-or graphs)",
        "termination of non-ground SLG / recursive search (subgoal abstraction, truncation) is not formalised: bounded-work runs only",
        "a CPU-limit hit is reported as inconclusive (exponential instances N2/N5 are bounded, hence not violations)",
        "rec_fuel_bound is PARTIAL: proved are fuel monotonicity and absence of internal panics; that the explicit fuel_bound "
        "suffices (at most three loop iterations per visit) is only validated on every generated instance",
    ],
    "quick_s": 90, "thorough_s": 900,
}

WORK_LIMIT = 10 ** 7


def engine_part(ctx):
    rng = ctx.rng
    n = ctx.n(400, 2500)
    cases = []
    for i in range(n):
        shape, G = E.gen_graph(rng, E.SHAPES[i % len(E.SHAPES)] if i < 3 * len(E.SHAPES) else None, nmax=ctx.n(7, 9))
        hist = [rng.randrange(len(G)) for _ in range(rng.randint(1, 3))]
        ov = rng.choice([2, 3, 5, 40, 40, 40])
        cases.append((G, ov, rng.random() < 0.5, [], [], hist))
    real, lines = E.run_real(cases)
    # the model is run with EXACTLY the explicit fuel bound of Engine/RecFuel.v (fuel_bound): an OutOfFuel
    # outcome of the model, or any difference in value / step counts / cache, is a mismatch
    bad = E.model_mismatches(ctx, "work", cases, real, fn=E.BOUND_FN, imports=("Engine.RecFuel",))
    ctx.cov["engine_model_mismatches"] = len(bad)
    ctx.cov["fuel_bound_validated_on"] = len(cases)
    worst = 0
    for c, r in zip(cases, real):
        ctx.count("engine-work", (E.graph_sx(c[0]), c[1], c[2], tuple(c[5])))
        if r is None:
            ctx.violation({"kind": "engine-work", "what": "the real engine did not return (killed / timed out) on a ground instance",
                           "case": sx.to_sexp(E.case_sx(*c))})
            return
        for o in r:
            worst = max(worst, o["work"])
            if o["out"][0] == "OPanic" and o["out"][1] not in ("OverflowDepth",):
                ctx.violation({"kind": "engine-work", "what": "engine panicked outside the overflow guard: %s" % o["out"][1],
                               "case": sx.to_sexp(E.case_sx(*c))})
                return
    ctx.cov["engine_max_work"] = worst
    if bad:
        b = bad[0]
        # property itself on the implementation's output: it terminated and stayed within the work limit
        ctx.violation({"kind": "correspondence", "broken": "work / iteration counters of the real RecursiveContext <> Engine.RecEngine step counts",
                       "case": sx.to_sexp(E.case_sx(*cases[b])), "real": lines[b], "model": E.model_eval(ctx, "mm", cases[b]),
                       "note": "all real runs terminated; only the step counts differ"}, no_input=True)
    ctx.sample({"engine_case": sx.to_sexp(E.case_sx(*cases[0])), "real": lines[0]})


CONFIGS = [("slg-ms4", H.slg_with(4)), ("slg", H.SLG), ("rec-od20-ms4", H.rec_with(20, True, 4)),
           ("rec-od20-ms4-nocache", H.rec_with(20, False, 4)), ("rec", H.REC)]


def solver_part(ctx):
    rng = ctx.rng
    shapes = None
    progs = H.programs(rng, ctx.n(10, 40), goals_per=(3, 1, 2))
    for p, goals in pg.corpus():        # F1, F13/F14, F16, F7 witnesses of the proggen fragment
        progs.append((p, pg.to_text(p), goals, [pg.goal_text(g) for g in goals]))
    # negation under forall (the negated goal has a placeholder, its table may flounder): both solvers
    A, v = pg.adt, pg.var
    neg = lambda tr, k=1: ("forall", (k,), ("not", ("atom", (tr, (v(k),)))))
    negif = lambda a, b, k=1: ("forall", (k,), ("if", [((), (a, (v(k),)), ())], ("not", ("atom", (b, (v(k),))))))
    for p, goals in [
        (pg.Prog([pg.Adt("A"), pg.Adt("B", 0, "struct", [[A("A")]])], [pg.Trait("Send", 0, ("auto",)), pg.Trait("Q")], [], "neg-forall-auto"),
         [neg("Send"), negif("Q", "Send"), negif("Send", "Q")]),
        (pg.Prog([pg.Adt("A")], [pg.Trait("Tr"), pg.Trait("Q")],
                 [pg.Impl(1, ("Tr", (v(0),))), pg.Impl(1, ("Q", (v(0),)), [("Tr", (v(0),))])], "neg-forall-blanket"),
         [neg("Tr"), neg("Q"), negif("Tr", "Q"), negif("Q", "Tr")]),
        (pg.Prog([pg.Adt("A"), pg.Adt("W", 1)], [pg.Trait("Tr"), pg.Trait("Q")],
                 [pg.Impl(0, ("Tr", (A("A"),))), pg.Impl(1, ("Tr", (A("W", v(0)),)), [("Q", (v(0),))])], "neg-forall-plain"),
         [neg("Tr"), negif("Q", "Tr"), ("forall", (1,), ("not", ("atom", ("Tr", (A("W", v(1)),)))))]),
    ]:
        progs.append((p, pg.to_text(p), goals, [pg.goal_text(g) for g in goals]))
    # the growing / polymorphic-recursion shapes explicitly
    for sh in (pg.shape_growing, pg.shape_poly_rec, pg.shape_nested_chain):
        for _ in range(ctx.n(1, 4)):
            p = sh(rng)
            gg = pg.GoalGen(rng, p)
            gs = [g for g in gg.goals(2, 1, 2) if not pg.is_floundering_prone(g)]
            if gs:
                progs.append((p, pg.to_text(p), gs, [pg.goal_text(g) for g in gs]))
    cases, index = [], []
    for pi, (p, text, goals, gts) in enumerate(progs):
        for cname, solver in CONFIGS:
            for gi, gt in enumerate(gts):
                index.append((pi, cname, gi))
                cases.append(H.case(text, solver, [H.solve_step(gt)], cpu=5, stack_mb=8))
    res, outs = H.run(cases, timeout=ctx.n(900, 3000))
    stats = {"runs": 0, "answers": 0, "overflow_guard": 0, "timeouts": 0, "known_class": 0, "aborts": 0, "panics": 0, "max_slg_work": 0, "max_rec_work": 0}
    nv = 0
    for (pi, cname, gi), r, raw, cs in zip(index, res, outs, cases):
        p, text, goals, gts = progs[pi]
        stats["runs"] += 1
        ctx.count("solver-work", (text, cname, gts[gi]))
        if r is None:
            stats["aborts"] += 1
            continue
        a = r[0]["ans"]
        stats["max_slg_work"] = max(stats["max_slg_work"], r[0]["slg"])
        stats["max_rec_work"] = max(stats["max_rec_work"], r[0]["rec"])
        k = H.kind(a)
        rec = {"kind": "solver-work", "program": text, "config": cname, "goal": gts[gi], "outcome": sx.to_sexp(a), "case": sx.to_sexp(cs), "shape": p.shape}
        if k in ("Timeout", "Abort") and cname.startswith("rec") and H.f13_class(p, goals[gi]) and ctx.match_known(None, "F13-native-stack-overflow"):
            # unbounded native recursion: stack overflow with a small stack, CPU limit with a large one
            stats["known_class"] += 1
            ctx.known_finding(ctx.match_known(None, "F13-native-stack-overflow"), "%s: %s" % (gts[gi], text[:100]))
            continue
        if k == "Timeout":
            stats["timeouts"] += 1      # inconclusive: exponential instance (N2/N5), the work is bounded by max_size
            continue
        if k == "Abort":
            if False:
                stats["known_class"] += 1
                ctx.known_finding(ctx.match_known(None, "F13-native-stack-overflow"), "%s: %s" % (gts[gi], text[:100]))
                continue
            stats["aborts"] += 1
            if nv < 3:
                nv += 1
                ctx.violation(dict(rec, what="the solver process died (abort / native stack overflow)"))
            continue
        if k == "Panic":
            if cname.startswith("rec") and H.panic_kind(a) == "OverflowDepth":
                stats["overflow_guard"] += 1
                continue
            stats["panics"] += 1
            if nv < 3:
                nv += 1
                ctx.violation(dict(rec, what="the solver panicked"))
            continue
        stats["answers"] += 1
        if max(r[0]["slg"], r[0]["rec"]) > WORK_LIMIT:
            if nv < 3:
                nv += 1
                ctx.violation(dict(rec, what="work counter exceeds %d with reduced limits" % WORK_LIMIT))
    ctx.cov["solver"] = stats
    ctx.cov["known_class_share"] = round(stats["known_class"] / max(1, stats["runs"]), 3)
    ctx.cov["inconclusive"] = stats["timeouts"]
    if cases:
        ctx.sample({"hist_case": sx.to_sexp(cases[0])[:300], "result": (outs[0] or "")[:200]})


def run(ctx):
    ok, why = ctx.proof_stage("Props.C09", THEOREMS)
    core.build_harness(bins=["engine", "hist"])
    engine_part(ctx)
    solver_part(ctx)
    if not ok and not ctx.violations:
        ctx.violation({"kind": "proof", "broken": why}, no_input=True)


def replay(ctx, obj):
    core.build_harness(bins=["engine", "hist"])
    if obj.get("kind", "").startswith("engine") or obj.get("kind") == "correspondence":
        print("real :", core.run_harness("engine", [obj["case"]])[0])
        print("model:", obj.get("model"))
    elif "case" in obj:
        print("real :", core.run_harness("hist", [obj["case"]])[0])
    return 0
