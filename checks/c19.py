"""C19 -- Coherence checking is total and its accepted priorities are consistent.

Proof stage: Props/C19.v (model and proofs in Check/Priorities.v).
Correspondence stage: generated `.chalk` programs are run through the real lowering +
`CoherenceSolver::specialization_priorities` / `db.coherence()` (harness bin `coh`, both solvers,
panics caught); the `disjoint` / `specializes` matrices are computed by the real functions through
the cfg(chalk_verif) hook and the Gallina model `run_data` is evaluated on them inside Coq; the
outcome must be equal.  Independently of the model, the property itself is evaluated on the real
output: no panic, and the two semantic clauses on the real priorities against the table of
which impl applies to which concrete trait reference of a bounded universe (decided by the real
solvers, both must agree)."""
from __future__ import annotations

import glob
import os
import re

from vlib import core, sx

META = {
    "id": "C19",
    "level": "proof",
    "technique": "Coq theorems (priorities_total, priorities_strict, equal_priority_disjoint, "
                 "strict_subset_higher_priority, acyclic_accepted; priorities_refuted for the code before the fix) "
                 "over a Gallina model of visit_specializations_of_trait + the priority assignment, "
                 "tied to the real CoherenceSolver by a differential run on generated programs over the real "
                 "disjoint/specializes matrices, plus a direct evaluation of the property on the real priorities",
    "level_text": "The priority assignment is proved, for all oracle matrices, never to panic, to give a strictly "
                  "higher priority to the more special impl of every recorded specialization and to leave equal "
                  "priorities only between impls proven disjoint; the two semantic clauses follow in Coq from "
                  "soundness of the two solver queries. The model is compared with the real code on every run.",
    "level_note": "The two solver queries (disjoint, specializes) are oracles of the model: their soundness is a "
                  "hypothesis of the semantic theorems and is tested, not proved, on a bounded universe of trait "
                  "references. Panics inside the solver queries themselves are outside the model and only searched for.",
    "design_ref": "DESIGN.md §4 C19, §5 F2",
    "bins": ["coh"],
    "assumptions": [
        "impls without any specialization relation have no entry in SpecializationPriorities; they are read as the default priority 0",
        "marker traits are exempt from the semantic clauses (their impls may overlap by design and get no priorities)",
        "two negative impls are never compared (the code under test states they never overlap)",
        "clause 2 (strict subset => higher priority) is evaluated for impls that apply to at least one trait reference of the bounded universe",
        "which impls apply to a trait reference is decided by both real solvers on `exists<params> { header = ref, where-clauses }`; disagreement or ambiguity makes the pair inconclusive",
        "a case whose harness run times out is counted as inconclusive, not as a violation",
    ],
    "quick_s": 60,
    "thorough_s": 600,
}

IMPORTS = ["Check.Priorities"]
MAX_REPORTS = 8

# ------------------------------------------------------------------------------------------
# Program generator
# ------------------------------------------------------------------------------------------

GROUND = ["A", "B", "Vec<A>", "Vec<B>", "Box<A>", "Vec<Vec<A>>", "Vec<Box<A>>", "Box<Vec<A>>", "Pair<A, B>", "Pair<A, A>"]
GENERIC = ["T", "Vec<T>", "Box<T>", "Vec<Vec<T>>", "Vec<Box<T>>", "Box<Vec<T>>", "Pair<T, U>", "Pair<T, T>",
           "Pair<A, T>", "Pair<T, A>", "Pair<Vec<T>, U>", "Pair<T, Vec<T>>", "Pair<T, Vec<U>>"]


def imp(self_ty, wcs=(), neg=False, targ=None):
    return {"self": self_ty, "wcs": list(wcs), "neg": neg, "targ": targ}


def params_of(i):
    text = i["self"] + " " + (i["targ"] or "") + " " + " ".join(i["wcs"])
    return [p for p in ("T", "U") if re.search(r"\b%s\b" % p, text)]


def render_impl(trait, i):
    ps = params_of(i)
    s = "impl"
    if ps:
        s += "<" + ", ".join(ps) + ">"
    s += " " + ("!" if i["neg"] else "") + trait
    if i["targ"] is not None:
        s += "<" + i["targ"] + ">"
    s += " for " + i["self"]
    if i["wcs"]:
        s += " where " + ", ".join(i["wcs"])
    return s + " {}"


AUX_POOL = {
    "Bar": {"A": "impl Bar for A {}", "B": "impl Bar for B {}", "Vec": "impl<T> Bar for Vec<T> {}",
            "VecR": "impl<T> Bar for Vec<T> where T: Bar {}", "Box": "impl Bar for Box<A> {}"},
    "Baz": {"A": "impl Baz for A {}", "B": "impl Baz for B {}", "Vec": "impl Baz for Vec<A> {}",
            "Box": "impl<T> Baz for Box<T> {}", "BoxR": "impl<T> Baz for Box<T> where T: Bar {}"},
}


def render_program(rng, traits, aux=None, supertrait=False, blanket_aux=False):
    """traits: list of (name, has_param, marker, [impl...]).  Returns program text."""
    body = []
    for name, has_param, marker, impls in traits:
        body.append(("#[marker] " if marker else "") + "trait " + name + ("<X>" if has_param else "") + " {}")
    text_impls = []
    for name, has_param, marker, impls in traits:
        for i in impls:
            text_impls.append(render_impl(name, i))
    all_text = " ".join(text_impls)
    uses_bar = "Bar" in all_text
    uses_baz = "Baz" in all_text
    aux_lines = []
    if uses_bar or uses_baz or aux:
        if supertrait:
            aux_lines.append("trait Bar where Self: Baz {}")
        else:
            aux_lines.append("trait Bar {}")
        aux_lines.append("trait Baz {}")
        chosen = aux
        if chosen is None:
            chosen = []
            for tr in ("Bar", "Baz"):
                heads = {}
                for k, v in AUX_POOL[tr].items():
                    if rng.random() < 0.45:
                        heads[k.rstrip("R")] = v   # one impl per head constructor: keeps the aux trait coherent
                chosen += list(heads.values())
        aux_lines += chosen
        if blanket_aux:
            aux_lines.append("impl<T> Bar for T where T: Baz {}" if not any(l.startswith("impl") and " Bar for" in l for l in chosen) else "")
    everything = " ".join(body + aux_lines + text_impls)
    structs = ["struct A {}", "struct B {}"]
    if "Vec<" in everything:
        structs.append("struct Vec<T> {}")
    if "Box<" in everything:
        structs.append("struct Box<T> {}")
    if "Pair<" in everything:
        structs.append("struct Pair<T, U> {}")
    lines = structs + body + [l for l in aux_lines if l] + text_impls
    return "\n".join(lines)


def depth_for(text):
    if "Pair<" in text:
        return 2
    return 3


CHAINS = [
    [imp("T"), imp("Vec<T>"), imp("Vec<Vec<T>>"), imp("Vec<Vec<A>>")],
    [imp("T"), imp("Vec<T>"), imp("Vec<A>")],
    [imp("T"), imp("Box<T>"), imp("Box<Vec<T>>"), imp("Box<Vec<A>>")],
    [imp("Pair<T, U>"), imp("Pair<A, U>"), imp("Pair<A, A>")],
    [imp("Pair<T, U>"), imp("Pair<T, T>"), imp("Pair<A, A>")],
    [imp("Pair<T, U>"), imp("Pair<T, Vec<U>>"), imp("Pair<A, Vec<U>>"), imp("Pair<A, Vec<A>>")],
    [imp("T"), imp("T", ["T: Bar"]), imp("A")],
    [imp("T"), imp("Vec<T>"), imp("Vec<T>", ["T: Bar"]), imp("Vec<A>")],
    [imp("T"), imp("T", ["T: Baz"]), imp("Vec<T>", ["Vec<T>: Baz"]), imp("Vec<A>")],
    [imp("T"), imp("Vec<T>"), imp("Vec<Vec<T>>"), imp("Vec<Vec<Vec<T>>>"), imp("Vec<Vec<Vec<A>>>")],
]
CHAIN_AUX = ["impl Bar for A {}", "impl Baz for A {}", "impl Baz for Vec<A> {}"]

DIAMONDS = [
    [imp("Pair<T, U>"), imp("Pair<A, U>"), imp("Pair<T, A>"), imp("Pair<A, A>")],           # rejected: middle impls overlap
    [imp("Pair<T, U>"), imp("Pair<A, U>"), imp("Pair<B, U>"), imp("Pair<A, A>")],           # fork + leaf
    [imp("T"), imp("T", ["T: Bar"]), imp("T", ["T: Baz"]), imp("T", ["T: Bar", "T: Baz"])],
    [imp("T"), imp("Vec<T>"), imp("Box<T>"), imp("Vec<A>"), imp("Box<A>")],
    [imp("T"), imp("Vec<T>"), imp("Box<T>"), imp("Vec<Box<T>>"), imp("Box<Vec<T>>")],
    [imp("Pair<T, U>"), imp("Pair<Vec<T>, U>"), imp("Pair<T, Vec<U>>"), imp("Pair<Vec<T>, Vec<U>>")],
    [imp("Pair<T, U>"), imp("Pair<A, U>"), imp("Pair<T, A>")],
    [imp("T"), imp("Vec<T>"), imp("Vec<A>"), imp("Vec<B>"), imp("Vec<Vec<T>>")],
]

OVERLAPS = [
    [imp("Pair<A, T>"), imp("Pair<T, A>")],
    [imp("T", ["T: Bar"]), imp("T", ["T: Baz"])],
    [imp("Vec<T>", ["T: Bar"]), imp("Vec<T>", ["T: Baz"])],
    [imp("Pair<T, T>"), imp("Pair<A, U>")],
    [imp("Vec<T>"), imp("T", ["T: Bar"])],
    [imp("Pair<T, Vec<U>>"), imp("Pair<Vec<T>, U>")],
]

PARAM_IMPLS = [
    imp("Vec<T>", targ="T"), imp("Vec<T>", targ="U"), imp("T", targ="A"), imp("A", targ="T"), imp("A", targ="A"),
    imp("T", targ="U"), imp("T", targ="T"), imp("Vec<T>", targ="Vec<T>"), imp("Vec<A>", targ="A"), imp("B", targ="Vec<T>"),
    imp("T", targ="Vec<U>"), imp("Vec<T>", targ="A"), imp("T", targ="A", wcs=["T: Bar"]),
]


def clone(i):
    return {"self": i["self"], "wcs": list(i["wcs"]), "neg": i["neg"], "targ": i["targ"]}


def random_impl(rng):
    if rng.random() < 0.4:
        return imp(rng.choice(GROUND))
    s = rng.choice(GENERIC)
    i = imp(s)
    if rng.random() < 0.4:
        ps = params_of(i)
        pool = []
        for p in ps:
            pool += ["%s: Bar" % p, "%s: Baz" % p, "Vec<%s>: Bar" % p]
        k = 1 if rng.random() < 0.75 else 2
        i["wcs"] = rng.sample(pool, min(k, len(pool)))
    return i


def gen_case(rng, family):
    """Returns (family, program text)."""
    aux = None
    supertrait = False
    blanket_aux = False
    marker = False
    has_param = False
    if family == "identical":
        base = random_impl(rng)
        impls = [base, clone(base)]
        if rng.random() < 0.5:
            impls.append(random_impl(rng))
    elif family == "chain":
        impls = [clone(i) for i in rng.choice(CHAINS)]
        aux = list(CHAIN_AUX)
        if rng.random() < 0.4 and len(impls) < 5:
            impls.append(imp(rng.choice(["B", "Box<B>", "Pair<B, B>"])))
    elif family == "diamond":
        impls = [clone(i) for i in rng.choice(DIAMONDS)]
        aux = list(CHAIN_AUX) + ["impl Bar for B {}"]
    elif family == "overlap":
        impls = [clone(i) for i in rng.choice(OVERLAPS)]
        if rng.random() < 0.5:
            impls.append(random_impl(rng))
    elif family == "blanket":
        impls = [imp("T", rng.choice([[], [], ["T: Bar"], ["T: Baz"]]))] + [random_impl(rng) for _ in range(rng.randint(1, 3))]
    elif family == "where":
        impls = []
        for _ in range(rng.randint(2, 4)):
            i = random_impl(rng)
            if not i["wcs"] and params_of(i):
                p = params_of(i)[0]
                i["wcs"] = [rng.choice(["%s: Bar" % p, "%s: Baz" % p, "Vec<%s>: Baz" % p])]
            impls.append(i)
    elif family == "marker":
        marker = True
        impls = [random_impl(rng) for _ in range(rng.randint(2, 4))]
        if rng.random() < 0.5:
            impls.append(clone(impls[0]))
    elif family == "negative":
        src = rng.choice(CHAINS + DIAMONDS + OVERLAPS)
        impls = [clone(i) for i in src]
        aux = list(CHAIN_AUX)
        k = rng.randint(1, max(1, len(impls) - 1))
        for j in rng.sample(range(len(impls)), k):
            impls[j]["neg"] = True
        if rng.random() < 0.3:
            impls.append(clone(impls[0]))
    elif family == "param":
        has_param = True
        impls = [clone(i) for i in rng.sample(PARAM_IMPLS, rng.randint(2, 4))]
    elif family == "cycle":
        # attempts at a cyclic `specializes` relation: supertraits, blanket aux impls, mutual where-clauses
        supertrait = rng.random() < 0.6
        blanket_aux = rng.random() < 0.5
        pool = [imp("T", ["T: Bar"]), imp("T", ["T: Baz"]), imp("T", ["Vec<T>: Bar"]), imp("Vec<T>", ["T: Bar"]),
                imp("Vec<T>", ["Vec<T>: Baz"]), imp("T", ["T: Bar", "T: Baz"]), imp("Vec<T>"), imp("T"), imp("A"), imp("Vec<A>")]
        impls = [clone(i) for i in rng.sample(pool, rng.randint(3, 5))]
    else:  # random
        impls = [random_impl(rng) for _ in range(rng.randint(2, 5))]
        if rng.random() < 0.15:
            for i in impls:
                if rng.random() < 0.3:
                    i["neg"] = True
    if family not in ("identical",):
        rng.shuffle(impls)
    impls = impls[:5]
    traits = [("Foo", has_param, marker, impls)]
    if rng.random() < 0.2:
        second = [clone(i) for i in rng.choice(CHAINS + OVERLAPS)]
        rng.shuffle(second)
        traits.append(("Goo", False, False, second))
    if rng.random() < 0.5:
        traits.reverse()
    return family, render_program(rng, traits, aux=aux, supertrait=supertrait, blanket_aux=blanket_aux)


FAMILIES = ["identical", "chain", "diamond", "overlap", "blanket", "where", "marker", "negative", "param", "cycle", "random"]
WEIGHTS = [1, 3, 3, 2, 2, 2, 1, 2, 2, 2, 4]

# ------------------------------------------------------------------------------------------
# Evaluation
# ------------------------------------------------------------------------------------------


def classify_panic(msg):
    if "old_value.is_none()" in msg:
        return "InsertTwice"
    if "IndexMap: key not found" in msg or "key not found" in msg:
        return "PriorityMissing"
    return "Other"


def to_bool_matrix(m):
    """3 (not applicable) reads as false; 2 (hook call panicked) -> None (unknown)."""
    out = []
    unknown = False
    for row in m:
        r = []
        for e in row:
            if e == 2:
                unknown = True
                r.append(False)
            else:
                r.append(e == 1)
        out.append(r)
    return out, unknown


def model_input(trait):
    _, name, marker, positive, out, disj, spec = trait
    d, u1 = to_bool_matrix(disj)
    s, u2 = to_bool_matrix(spec)
    return ("mkInput", bool(marker), [bool(b) for b in positive], d, s), (u1 or u2)


def real_outcome(out):
    h = sx.head(out)
    if h == "Accepted":
        ps = out[1] if isinstance(out, tuple) and len(out) > 1 else []
        return ("Accepted", [sx.Pair(sx.Nat(p[1]), sx.Nat(p[2])) for p in ps])
    if h == "Error":
        return "Overlap" if out[1] == "Overlap" else None
    return None


def prio_map(out):
    ps = out[1] if isinstance(out, tuple) and len(out) > 1 else []
    return {int(p[1]): int(p[2]) for p in ps}


def semantic_check(trait, table):
    """Evaluate the two semantic clauses on the real priorities.  Returns (violations, stats)."""
    _, name, marker, positive, out, _, _ = trait
    bad = []
    stats = {"pairs": 0, "inconclusive_pairs": 0, "refs": 0, "common_refs": 0, "strict_subsets": 0}
    if marker or sx.head(out) != "Accepted" or table is None:
        return bad, stats
    pm = prio_map(out)
    n = len(positive)
    rows = table
    stats["refs"] = len(rows)
    prio = lambda i: pm.get(i, 0)
    for i in range(n):
        for j in range(n):
            if i == j or (not positive[i] and not positive[j]):
                continue
            col_i = [r[2][i] for r in rows]
            col_j = [r[2][j] for r in rows]
            if i < j:
                stats["pairs"] += 1
                # clause 1: equal priority => no common trait reference
                for r, a, b in zip(rows, col_i, col_j):
                    if a == 1 and b == 1:
                        stats["common_refs"] += 1
                        if prio(i) == prio(j):
                            bad.append({"clause": "equal priority impls apply to the same trait reference",
                                        "trait": str(name), "impls": [i, j], "priorities": [prio(i), prio(j)],
                                        "trait_ref": str(r[1])})
                            break
            # clause 2: S_i a non-empty strict subset of S_j => prio(i) > prio(j)
            if 2 in col_i or 2 in col_j:
                if i < j:
                    stats["inconclusive_pairs"] += 1
                continue
            if any(a == 1 for a in col_i) and all(b == 1 for a, b in zip(col_i, col_j) if a == 1) \
                    and any(b == 1 and a == 0 for a, b in zip(col_i, col_j)):
                stats["strict_subsets"] += 1
                if not prio(i) > prio(j):
                    wit = [str(r[1]) for r, a, b in zip(rows, col_i, col_j) if b == 1 and a == 0][:1]
                    bad.append({"clause": "impl applying to a strict subset does not have the higher priority",
                                "trait": str(name), "more_special": i, "less_special": j,
                                "priorities": [prio(i), prio(j)], "only_in_less_special": wit})
    return bad, stats


def parse_result(line):
    if line is None or line == "Timeout":
        return "Timeout"
    try:
        return sx.parse_sexp(line)
    except ValueError:
        return ("Unparsed", sx.Str(line[:300]))


def evaluate(ctx, progs, tag="main", count=True, emit=True):
    """progs: list of (family, text).  Returns the list of violation dicts (already reported)."""
    cases = [("Case", sx.Str(t), depth_for(t), 150) for _, t in progs]
    outs = core.run_harness("coh", cases, args=["run"], timeout=ctx.n(240, 900))
    results = [parse_result(o) for o in outs]

    # a case that killed or stalled the full run: re-run only the query under test
    redo = [k for k, r in enumerate(results) if r == "Timeout" or sx.head(r) in ("Abort", "Unparsed", "Panic")]
    core_out = {}
    if redo:
        o2 = core.run_harness("coh", [cases[k] for k in redo], args=["core"], timeout=120, shards=min(len(redo), core.NCPU))
        for k, o in zip(redo, o2):
            core_out[k] = parse_result(o)

    violations = []
    pairs = []       # (model input, expected outcome)
    where = []       # index into pairs -> (case k, solver, trait)
    cov = ctx.cov.setdefault("c19", {"programs": 0, "lower_errors": 0, "timeouts": 0, "accepted_traits": 0,
                                     "rejected_traits": 0, "marker_traits": 0, "model_runs": 0, "hook_unknown": 0,
                                     "semantic_pairs": 0, "semantic_inconclusive_pairs": 0, "trait_refs": 0,
                                     "common_refs": 0, "strict_subsets": 0, "max_priority": 0, "outcomes": {}})

    def report(k, what, extra=None, no_input=False):
        rep = {"kind": what, "program": progs[k][1], "family": progs[k][0], "depth": depth_for(progs[k][1]), "max_refs": 150}
        if extra:
            rep.update(extra)
        first_for_program = not any(v.get("program") == rep["program"] for v in violations)
        violations.append(rep)
        # one report per program, at most MAX_REPORTS per run; everything is counted
        if emit and first_for_program and len(ctx.violations) < MAX_REPORTS:
            ctx.violation(rep, no_input=no_input)
        elif emit:
            cov["violations_not_reported_separately"] = cov.get("violations_not_reported_separately", 0) + 1

    for k, res in enumerate(results):
        fam, text = progs[k]
        if count:
            cov["programs"] += 1
        if k in core_out:
            c = core_out[k]
            if c == "Timeout":
                cov["timeouts"] += 1
                continue
            if sx.head(c) in ("Abort", "Unparsed", "Panic") or sx.head(c) != "Res":
                report(k, "coherence query crashed the process", {"core_result": str(c)[:600]})
                continue
            # the query itself is fine; the full run died in the harness' extra queries
            bad_whole = [s for s in c[2] if sx.head(s[2]) == "WPanic"]
            if bad_whole:
                report(k, "coherence query panicked", {"solver": str(bad_whole[0][1]), "panic": str(bad_whole[0][2])[:400]})
            else:
                cov["timeouts"] += 1
            continue
        if sx.head(res) != "Res":
            report(k, "harness returned an unexpected result", {"result": str(res)[:400]}, no_input=True)
            continue
        if sx.head(res[1]) == "LowerErr":
            cov["lower_errors"] += 1
            continue
        solvers = res[2]
        tables = {str(a[1]): (a[2][1] if sx.head(a[2]) == "Refs" else None) for a in res[3]}
        nontrivial = False
        key_bits = []
        for s in solvers:
            sname, whole, traits = str(s[1]), s[2], s[3]
            # clause 1 of the property: never a panic
            if sx.head(whole) == "WPanic":
                report(k, "coherence query panicked", {"solver": sname, "panic": str(whole[1])[:400],
                                                      "panic_class": classify_panic(str(whole[1]))})
                continue
            t_heads = []
            for t in traits:
                out = t[4]
                h = sx.head(out)
                t_heads.append(h)
                cov["outcomes"][h] = cov["outcomes"].get(h, 0) + 1
                if h == "Panic":
                    report(k, "specialization_priorities panicked", {"solver": sname, "trait": str(t[1]),
                                                                     "panic": str(out[1])[:400],
                                                                     "panic_class": classify_panic(str(out[1]))})
                    continue
                if t[2]:
                    cov["marker_traits"] += 1
                if h == "Accepted":
                    cov["accepted_traits"] += 1
                    pm = prio_map(out)
                    if pm:
                        cov["max_priority"] = max(cov["max_priority"], max(pm.values()))
                        nontrivial = True
                else:
                    cov["rejected_traits"] += 1
                    nontrivial = True
                key_bits.append((sname, str(t[3]), str(t[5]), str(t[6]), str(out)))
                # model correspondence
                minp, unknown = model_input(t)
                exp = real_outcome(out)
                if unknown:
                    cov["hook_unknown"] += 1
                elif exp is None:
                    report(k, "unexpected coherence error kind", {"solver": sname, "trait": str(t[1]), "out": str(out)}, no_input=True)
                else:
                    pairs.append((minp, exp))
                    where.append((k, sname, t))
                # the property on the real output
                bad, st = semantic_check(t, tables.get(str(t[1])))
                cov["semantic_pairs"] += st["pairs"]
                cov["semantic_inconclusive_pairs"] += st["inconclusive_pairs"]
                cov["trait_refs"] += st["refs"]
                cov["common_refs"] += st["common_refs"]
                cov["strict_subsets"] += st["strict_subsets"]
                for b in bad[:1]:
                    report(k, "accepted priorities are inconsistent", dict(b, solver=sname, real=str(out)))
            # whole-program query against the per-trait results
            if "Panic" not in t_heads:
                want = "WAccepted" if all(h == "Accepted" for h in t_heads) else "WError"
                if sx.head(whole) != want:
                    report(k, "db.coherence() disagrees with the per-trait results",
                           {"solver": sname, "whole": str(whole), "traits": t_heads}, no_input=True)
        if count:
            ctx.count(fam, tuple(key_bits), nontrivial=nontrivial)
            ctx.sample({"family": fam, "program": text, "result": [[str(s[1]), str(s[2])] + [str(t[4]) for t in s[3]] for s in solvers]})

    # the model on the real matrices, inside Coq
    cov["model_runs"] += len(pairs)
    if pairs:
        mism = core.coq_mismatches(ctx.work, tag, IMPORTS, fn="run_data", eqb="outcome_eqb",
                                   in_ty="input", out_ty="outcome", pairs=pairs)
        for idx in mism:
            k, sname, t = where[idx]
            # the property itself was already evaluated on this output above (semantic_check,
            # panic checks); if that raised nothing, report the broken correspondence
            already = [v for v in violations if v.get("program") == progs[k][1] and v.get("kind") != "model and implementation disagree"]
            mv = "(not evaluated)"
            shown = cov.get("model_values_shown", 0)
            if shown < 3 and not any(v.get("program") == progs[k][1] for v in violations):
                cov["model_values_shown"] = shown + 1
                try:
                    mv = core.coq_eval(ctx.work, "%s_m%d" % (tag, idx), IMPORTS, ["run_data %s" % sx.to_coq(pairs[idx][0])])[0]
                except core.CheckFailure:
                    mv = "?"
            report(k, "model and implementation disagree",
                   {"solver": sname, "trait": str(t[1]), "real": str(t[4]), "model": mv[:600],
                    "disjoint": str(t[5]), "specializes": str(t[6]),
                    "broken": "correspondence run_data(matrices) = specialization_priorities (Check/Priorities.v); "
                              "theorems priorities_strict / equal_priority_disjoint no longer speak about this code"},
                   no_input=not already and True)
    return violations


def corpus_programs():
    out = []
    for p in sorted(glob.glob(os.path.join(core.VERIF, "corpus", "C19", "*.chalk"))):
        out.append(("corpus:" + os.path.basename(p), open(p).read().strip()))
    return out


THEOREMS = ["priorities_total", "priorities_strict", "equal_priority_disjoint", "equal_priority_no_common_ref",
            "strict_subset_higher_priority", "acyclic_accepted", "priorities_refuted"]


def run(ctx):
    ok, why = ctx.proof_stage("Props.C19", THEOREMS)
    core.build_harness(bins=["coh"])
    progs = corpus_programs()
    seen = set(t for _, t in progs)
    target = ctx.n(700, 6000)
    tries = 0
    while len(progs) < target and tries < target * 20:
        tries += 1
        fam = ctx.rng.choices(FAMILIES, WEIGHTS)[0]
        fam, text = gen_case(ctx.rng, fam)
        if text in seen:
            continue
        seen.add(text)
        progs.append((fam, text))
    ctx.cov["rule"] = ("per program, solver and trait: run_data(real disjoint/specializes matrices) = real "
                       "specialization_priorities outcome (priorities compared exactly, impls by program order); "
                       "no panic anywhere; on accepted non-marker traits, for every pair of impls not both negative: "
                       "equal priority => no common concrete trait reference; non-empty strict subset => higher priority")
    ctx.cov["input_distribution"] = dict(zip(FAMILIES, WEIGHTS))
    viol = evaluate(ctx, progs)
    if not ok:
        # the proof no longer checks; a failing input, if any, was reported by evaluate()
        if not viol:
            ctx.violation({"kind": "proof", "broken": why}, no_input=True)
        else:
            ctx.violation({"kind": "proof", "broken": why, "see_also": "violations with a program above"}, no_input=True)


def replay(ctx, obj):
    text = obj.get("program")
    if not text:
        print("replay: this record has no failing input (%s)" % obj.get("broken", obj.get("kind")))
        ok, why = ctx.proof_stage("Props.C19", THEOREMS)
        print("proof stage:", "ok" if ok else why)
        return 0 if ok else 1
    core.build_harness(bins=["coh"])
    print("program:\n" + text)
    out = core.run_harness("coh", [("Case", sx.Str(text), obj.get("depth", depth_for(text)), obj.get("max_refs", 150))],
                           args=["run"], timeout=300)
    print("harness:", out[0])
    viol = evaluate(ctx, [(obj.get("family", "replay"), text)], tag="replay", count=False, emit=False)
    for v in viol:
        print("still violating:", {a: b for a, b in v.items() if a != "program"})
    if not viol:
        print("replay: no violation on the current tree")
    return 1 if viol else 0
