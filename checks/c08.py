"""C08 — built-in traits (Sized, Copy, Clone, Tuple, FnPtr) follow the language's structural rules."""
from vlib import core
from vlib import rulegen as rg

from . import ruleslib as rl

META = {
    "id": "C08", "level": "proof",
    "technique": "Coq theorems sized_spec / copy_spec / clone_spec / tuple_spec / fnptr_spec (meaning of the clauses of a Gallina model of "
                 "add_builtin_program_clauses + sized.rs / copy.rs / clone.rs / tuple.rs / last_field_of_struct / needs_impl_for_tys = "
                 "independently written inductive rule systems over types and the program's explicit impls), the on-demand completeness "
                 "theorems *_clauses_spec, and evalR_correct (verified evaluator); correspondence: the clause sets of the real "
                 "program_clauses_for_goal are compared structurally with the model inside Coq and both real solvers are compared with "
                 "the verified oracle on generated programs and closed goals",
    "level_text": "The property is proved for all programs and all ground types of the model (both directions, least fixed point, explicit "
                  "impls with arbitrary where-clauses included), the model is tied to the code clause by clause on every run, and the "
                  "verified evaluator decides every closed goal exactly, so each solver answer is checked against the rule system.",
    "level_note": "Closures, coroutines, fn-def types, opaque and associated types, const/integer inference variables and the Floundered "
                  "outcomes for unknown self types are not modelled (the property is about closed goals); lifetimes are erased. Unsize, "
                  "Pointee, DiscriminantKind, Fn* and Coroutine are other properties' business.",
    "design_ref": "DESIGN.md §4 C08",
    "assumptions": [
        "lifetimes are erased in the model (generated programs cannot produce region constraints: impl headers use fresh lifetime parameters)",
        "the `rules` harness renders chalk_ir clauses faithfully; clauses with a FromEnv condition are ignored (empty environment)",
        "first-order matching of a dumped clause head against the ground goal is done in Python (vlib/rulegen.py real_bodies)",
        "structs have exactly one variant and fields mention only the ADT's parameters (wf_full, evaluated in Coq on every generated program)",
    ],
    "bins": ["solve", "rules"],
    "quick_s": 70, "thorough_s": 700,
}


def corpus_cases():
    """tests/test/{tuples,arrays,slices,scalars,refs,functions}.rs shapes and the examples of the property text"""
    u8, u16 = ("scalar", "u8"), ("scalar", "u16")
    A, S = ("adt", "A", ()), ("adt", "S", ())
    W = lambda t: ("adt", "W", (t,))
    p = rg.Prog([rg.Adt("A"), rg.Adt("S", 0, "struct", [[u8, ("slice", u8)]]), rg.Adt("W", 1, "struct", [[("var", 0)]]),
                 rg.Adt("E", 0, "enum", [[("slice", u8)], []]), rg.Adt("U", 0, "struct", [[("slice", u8), u8]]),
                 rg.Adt("Z", 0, "struct", [[S]]), rg.Adt("Ph", 1, "struct", [[]], phantom=True)],
                [rg.Trait("Sized", wk="sized"), rg.Trait("Copy", wk="copy"), rg.Trait("Clone", wk="clone"), rg.Trait("Tuple", wk="tuple"),
                 rg.Trait("FnPtr", wk="fnptr"), rg.Trait("Obj", obj=True)],
                [rg.Impl(0, ("Copy", (u8,))), rg.Impl(0, ("Clone", (u8,))), rg.Impl(0, ("Copy", (A,))),
                 rg.Impl(1, ("Clone", (W(("var", 0)),)), [("Clone", (("var", 0),))]), rg.Impl(1, ("Copy", (("ref", False, ("var", 0)),))),
                 rg.Impl(0, ("Tuple", (A,))), rg.Impl(1, ("Clone", (("slice", ("var", 0)),)), [("Sized", (("var", 0),))])], ["Ext"], "corpus")
    tys = [S, W(S), W(A), ("adt", "E", ()), ("adt", "Z", ()), ("adt", "U", ()), ("tuple", (u8, S)), ("tuple", (S, u8)), ("tuple", ()),
           ("array", S, 2), ("slice", u8), ("str",), ("dyn", "Obj"), ("ref", False, S), ("raw", False, S), ("fnptr", (S, S)), ("never",),
           ("foreign", "Ext"), ("adt", "Ph", (S,)), ("tuple", (u8, A)), ("tuple", (u8, u16)), ("array", u8, 2), ("array", u16, 2),
           ("fnptr", (S,)), ("ref", True, S), u8, u16, W(u8), W(("tuple", (u8, u8))), W(u16), ("slice", S), ("slice", ("str",)),
           ("tuple", (("array", W(S), 2), ("array", ("tuple", (u8, A)), 3))), ("tuple", (("array", ("tuple", (u8, A)), 3), W(S))), ("ph", 0),
           ("tuple", (("ph", 0), u8)), ("tuple", (u8, ("ph", 0)))]
    gs = [(tr, (t,)) for tr in ("Sized", "Copy", "Clone", "Tuple", "FnPtr") for t in tys]
    out = [(p, gs)]
    # declared where-clauses on ADT parameters are NOT trusted by the clause builders (closed goals are not WF-checked):
    # `struct Wrapper<T> where T: Sized { len: usize, value: T }`: Wrapper<str> is not Sized
    usize, T0 = ("scalar", "usize"), ("var", 0)
    wr = rg.Adt("Wrapper", 1, "struct", [[usize, T0]])
    wr.wcs = [("Sized", (T0,))]
    cw = rg.Adt("CW", 1, "struct", [[T0]])
    cw.wcs = [("Copy", (T0,)), ("Clone", (T0,)), ("Sized", (T0,))]
    ew = rg.Adt("EW", 1, "enum", [[T0], []])
    ew.wcs = [("Sized", (T0,))]
    p2 = rg.Prog([wr, cw, ew, rg.Adt("Plain", 1, "struct", [[T0]]), rg.Adt("A")],
                 [rg.Trait("Sized", wk="sized"), rg.Trait("Copy", wk="copy"), rg.Trait("Clone", wk="clone"), rg.Trait("Obj", obj=True)],
                 [rg.Impl(0, ("Copy", (u8,))), rg.Impl(0, ("Clone", (u8,))), rg.Impl(1, ("Clone", (("adt", "CW", (T0,)),)), [("Clone", (T0,))])], [], "corpus")
    Wr = lambda t: ("adt", "Wrapper", (t,))
    uns = [("slice", u8), ("str",), ("dyn", "Obj"), ("ph", 0), u8, A]
    tys2 = [Wr(t) for t in uns] + [("tuple", (u8, Wr(("str",)))), ("adt", "Plain", (Wr(("slice", u8)),)), ("array", Wr(("str",)), 2), Wr(Wr(("str",))), Wr(Wr(u8))]
    tys2 += [("adt", "CW", (t,)) for t in uns] + [("adt", "EW", (t,)) for t in uns]
    out.append((p2, [(tr, (t,)) for tr in ("Sized", "Copy", "Clone") for t in tys2]))
    return out


def run(ctx):
    ok, why = ctx.proof_stage("Props.C08", ["sized_spec", "copy_spec", "clone_spec", "tuple_spec", "fnptr_spec", "sized_clauses_spec",
                                            "copy_clauses_spec", "tuple_clauses_spec", "fnptr_clauses_spec", "unsized_kinds", "evalR_correct"])
    if not ok:
        # a theorem no longer checks: look for a concrete failing input first (the oracle functions may
        # still build); if none is found, report the broken theorem itself
        try:
            _body(ctx)
        except Exception as e:  # noqa: BLE001
            core.log("search for a failing input did not complete: %s" % e)
        if not ctx.violations:
            ctx.violation({"kind": "proof", "broken": why}, no_input=True)
        return
    _body(ctx)


def _body(ctx):
    core.build_harness(bins=["solve", "rules"])
    progs, cases = rl.gen_programs(ctx, "builtin", ctx.n(40, 400), ctx.n(12, 16))
    for p, gs in corpus_cases():
        p.text, p.model = rg.to_text(p), rg.to_model(p)
        pidx = len(progs)
        progs.append(p)
        for a in gs:
            c = rl.Case(pidx, p, a, "goal")
            c.text = rg.goal_text(a)
            cases.append(c)
    cases, defs = rl.main_pipeline(ctx, progs, cases, cpu=ctx.n(3, 8))
    cnt, fam, ctors = rl.judge(ctx, "C08", progs, cases, defs)
    n_ver = cnt["oracle_true"] + cnt["oracle_false"]
    ctx.cov["rule"] = ("evaluations = (solver, program, goal) triples whose Unique/NoSolution answer was compared with the verified oracle evalR; "
                       "non-trivial = self type is an ADT or has components; distinct by (solver, program text, goal text)")
    ctx.cov["input_distribution"] = {"programs": len(progs), "goals": len(cases), "goals_by_trait_kind": dict(fam), "self_type_constructors": dict(ctors)}
    ctx.cov["verdict_share"] = {"true": round(cnt["oracle_true"] / max(1, n_ver), 3), "false": round(cnt["oracle_false"] / max(1, n_ver), 3)}
    ctx.cov["clause_correspondence"] = {"equal": cnt["clauses_equal"], "mismatch": cnt["clause_mismatch"], "not_compared": cnt["clauses_not_compared"]}
    ctx.cov["known_class_share"] = round(cnt["known_F7q"] / max(1, n_ver), 4)
    ctx.cov["inconclusive"] = cnt["oracle_inconclusive"] + cnt["ambiguous_near_max_size"] + sum(v for k, v in cnt.items() if k.startswith("solver_"))
    ctx.cov["counters"] = dict(cnt)


def replay(ctx, obj):
    return rl.replay_case(ctx, obj)
