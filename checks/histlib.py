"""Shared by c09..c12: whole-solver histories on the real solvers through the `hist` harness
binary (one forked child per history, CPU/stack limits), known-class predicates decided on the
INPUT (program + history), answer comparison.  Programs/goals come from vlib/proggen.py."""
from __future__ import annotations

from vlib import core, sx
from vlib import proggen as pg

SLG = "Slg"
REC = "Rec"


def rec_with(od, caching, ms):
    return ("RecWith", od, bool(caching), ms)


def slg_with(ms):
    return ("SlgWith", ms)


# ---------------------------------------------------------------------------------------
# running
# ---------------------------------------------------------------------------------------

def case(text, solver, steps, cpu=6, stack_mb=16, trace=False):
    """trace=True: every step also reports the names of the database callbacks it made (key "trace")"""
    return ("Case", sx.Str(text), solver, steps, [("Cpu", cpu), ("StackMb", stack_mb)] + (["Trace"] if trace else []))


# callbacks through which the unifier reaches the database (RustIrDatabase::unification_database and the
# UnificationDatabase methods)
UNIF_CALLBACKS = ("unification_database", "adt_variance", "fn_def_variance")


def resolution_calls(trace):
    """indices of the unification callbacks made while clauses are being RESOLVED against a goal: those whose
    latest preceding other callback is `program_clauses_for_env`, the last thing both solvers ask for when they
    collect the clauses of a goal (the same callbacks made earlier by the could_match pre-filter follow
    impl_datum / trait_datum / custom_clauses)."""
    out, last = [], None
    for i, n in enumerate(trace or []):
        n = str(n)
        if n in UNIF_CALLBACKS:
            if last == "program_clauses_for_env":
                out.append(i)
        else:
            last = n
    return out


def solve_step(g):
    return ("Solve", sx.Str(g))


def limited_step(g, idx):
    return ("Limited", sx.Str(g), [int(i) for i in idx])


def limited_from_step(g, k):
    return ("LimitedFrom", sx.Str(g), int(k))


def panic_step(g, idx):
    return ("PanicAt", sx.Str(g), [int(i) for i in idx])


def run(cases, timeout=1200):
    """-> list (per case) of None (program error / harness death) or list of step dicts
       {"ans": sx, "db": n, "sc": n, "slg": n, "rec": n}"""
    outs = core.run_harness("hist", cases, timeout=timeout)
    res = []
    for o in outs:
        try:
            r = sx.parse_sexp(o) if o else None
        except ValueError:
            r = None
        if r is None or sx.head(r) != "Result":
            res.append(None)
            continue
        steps = []
        for s in r[1]:
            if sx.head(s) == "S":
                steps.append({"ans": s[1], "db": s[2], "sc": s[3], "slg": s[4], "rec": s[5]})
                if len(s) > 6:
                    steps[-1]["trace"] = [str(x) for x in s[6]]
            else:
                steps.append({"ans": ("GoalError", s[1] if len(s) > 1 else ""), "db": 0, "sc": 0, "slg": 0, "rec": 0})
        res.append(steps)
    return res, outs


def kind(ans):
    return sx.head(ans) or "?"


def is_death(ans):
    return kind(ans) in ("Timeout", "Abort", "Skipped")


def panic_kind(ans):
    if kind(ans) != "Panic":
        return None
    m = str(ans[1])
    if "injected database panic" in m:
        return "Injected"
    if "overflow depth reached" in m:
        return "OverflowDepth"
    if "stack.is_empty()" in m:
        return "StackNotEmpty"
    return "Other"


def is_ambig(ans):
    return kind(ans) in ("AmbigDefinite", "AmbigSuggested", "AmbigUnknown")


# first-order matching of answer types: does `inst` arise from `pat` by instantiating (BV i)?
def _match(pat, inst, env):
    if isinstance(pat, tuple) and pat[0] == "BV":
        k = pat[1]
        if k in env:
            return env[k] == inst
        env[k] = inst
        return True
    if pat == "Free" or inst == "Free":
        return True
    if isinstance(pat, tuple) and isinstance(inst, tuple) and pat[0] == "App" and inst[0] == "App":
        if pat[1] != inst[1] or len(pat[2]) != len(inst[2]):
            return False
        return all(_match(a, b, env) for a, b in zip(pat[2], inst[2]))
    return pat == inst


def weaker(cut, full):
    """C11 relation: `cut` is the full answer, or a weaker ambiguous answer that does not contradict
    it.  `Ambiguous` without guidance or with a mere suggestion claims nothing.  `Ambiguous; definite
    substitution s` claims that every solution is an instance of s: acceptable only against a full
    `Unique u` / `Ambiguous; definite s'` with u / s' an instance of s; against a full answer without
    definite guidance it is a claim the full answer does not support (a full `No possible solution` has
    no solution the claim could exclude)."""
    if cut == full:
        return True
    k = kind(cut)
    if k in ("AmbigUnknown", "AmbigSuggested"):
        return True
    if k == "AmbigDefinite":
        if kind(full) in ("Unique", "AmbigDefinite"):
            env = {}
            return all(_match(a, b, env) for a, b in zip(cut[2], full[2]))
        # a goal without any solution: "every solution is an instance of s" excludes nothing that exists,
        # so the claim cannot contradict the full answer (seen on the unchanged recursive solver:
        # `exists<X> { W<X>: Tr0 }` without solutions, interrupted => definite [X := S0]); flagging it would
        # be an alarm on code where the property holds
        return kind(full) == "NoSolution"
    return False


# ---------------------------------------------------------------------------------------
# program analysis on the abstract syntax (decides the known classes from the INPUT)
# ---------------------------------------------------------------------------------------

def goal_atoms(g, acc=None):
    """all atoms occurring in a goal (hypotheses included), with polarity ignored"""
    acc = [] if acc is None else acc
    k = g[0]
    if k == "atom":
        acc.append(g[1])
    elif k == "and":
        for x in g[1]:
            goal_atoms(x, acc)
    elif k in ("forall", "exists"):
        goal_atoms(g[2], acc)
    elif k == "if":
        for _vs, h, body in g[1]:
            acc.append(h)
            acc.extend(body)
        goal_atoms(g[2], acc)
    elif k == "not":
        goal_atoms(g[1], acc)
    return acc


def goal_clauses(g, acc=None):
    """hypotheses of `if` goals as extra clauses (head trait, body traits)"""
    acc = [] if acc is None else acc
    k = g[0]
    if k == "and":
        for x in g[1]:
            goal_clauses(x, acc)
    elif k in ("forall", "exists"):
        goal_clauses(g[2], acc)
    elif k == "if":
        for _vs, h, body in g[1]:
            acc.append((h, list(body)))
        goal_clauses(g[2], acc)
    elif k == "not":
        goal_clauses(g[1], acc)
    return acc


def trait_graph(p, goals=()):
    """trait -> set of traits its clauses' bodies mention (auto-trait rule applied)"""
    dep = {t.name: set() for t in p.traits}
    for c in pg.clauses(p):
        for w in c.wcs:
            dep[c.head[0]].add(w[0])
    for g in goals:
        for h, body in goal_clauses(g):
            for b in body:
                dep.setdefault(h[0], set()).add(b[0])
    return dep


def reach_traits(dep, start):
    seen, todo = set(start), list(start)
    while todo:
        x = todo.pop()
        for y in dep.get(x, ()):
            if y not in seen:
                seen.add(y)
                todo.append(y)
    return seen


def on_cycle(dep, t):
    return t in reach_traits(dep, dep.get(t, ()))


def is_ground_atom_goal(g):
    return g[0] == "atom" and not pg.atom_vars(g[1])


def match_ty(pat, t, env):
    if pat[0] == "var":
        if pat[1] in env:
            return env[pat[1]] == t
        env[pat[1]] = t
        return True
    if pat[0] == "adt" and t[0] == "adt":
        return pat[1] == t[1] and len(pat[2]) == len(t[2]) and all(match_ty(a, b, env) for a, b in zip(pat[2], t[2]))
    return pat == t


def ground_succs(p, atom):
    """ground bodies of the clauses whose head matches the ground atom (range restricted programs)"""
    out = []
    for c in pg.clauses(p):
        if c.head[0] != atom[0] or len(c.head[1]) != len(atom[1]):
            continue
        env = {}
        if all(match_ty(a, b, env) for a, b in zip(c.head[1], atom[1])):
            body = [pg.subst_atom(w, env) for w in c.wcs]
            if all(not pg.atom_vars(b) for b in body):
                out.append(body)
            else:
                out.append(None)      # not range restricted: unknown
    return out


def ground_reach(p, atom, limit=400):
    """(nodes, edges, complete) of the ground and-or graph reachable from a ground atom"""
    nodes, edges, todo, complete = {atom}, {}, [atom], True
    while todo:
        a = todo.pop()
        bodies = ground_succs(p, a)
        edges[a] = bodies
        for b in bodies:
            if b is None:
                complete = False
                continue
            for x in b:
                if x not in nodes:
                    if len(nodes) >= limit:
                        complete = False
                        continue
                    nodes.add(x)
                    todo.append(x)
    return nodes, edges, complete


def co_trait(p, name):
    return p.trait(name).coinductive


def coinductive_cycle_members(p, root):
    """ground goals other than `root` that `root` reaches and that lie on a cycle of coinductive goals;
       None if the ground reach set is not finite/complete (decide at trait level instead)"""
    nodes, edges, complete = ground_reach(p, root)
    if not complete:
        return None
    co = {n for n in nodes if co_trait(p, n[0])}

    def succ_co(n):
        return {x for b in edges.get(n, []) if b for x in b if x in co}
    members = set()
    for n in co:
        seen, todo = set(), list(succ_co(n))
        while todo:
            x = todo.pop()
            if x in seen:
                continue
            seen.add(x)
            todo.extend(succ_co(x))
        if n in seen:
            members.add(n)
    members.discard(root)
    return members


def f7_class(p, goals, history):
    """DESIGN §3.5 class of F7: on one SLG solver the history poses as a root goal a goal that an
    earlier root solve reached as a non-root member of a coinductive cycle.  Decided from the
    program's coinductive dependency graph: on the ground reach graph when every goal involved is
    a ground atom with a finite reach set, on the trait dependency graph otherwise."""
    dep = trait_graph(p, [goals[i] for i in history])
    for j, gj in enumerate(history):
        later = goals[gj]
        for gi in history[:j]:
            earlier = goals[gi]
            if is_ground_atom_goal(earlier) and is_ground_atom_goal(later):
                mem = coinductive_cycle_members(p, earlier[1])
                if mem is not None:
                    # the later goal is, or reaches, a cycle member whose table the earlier solve damaged
                    lnodes, _e, lcomplete = ground_reach(p, later[1])
                    if lcomplete:
                        if mem & lnodes:
                            return True
                        continue
            # trait level: the later goal mentions a coinductive trait that lies on a cycle of the
            # dependency graph and is reachable from the earlier goal (possibly as the same trait:
            # a different instance of it may be the non-root cycle member)
            e_tr = {a[0] for a in goal_atoms(earlier)}
            l_tr = {a[0] for a in goal_atoms(later)}
            r = reach_traits(dep, e_tr)
            for t in l_tr:
                if t in r and t in dep and _is_co(p, t) and on_cycle(dep, t):
                    return True
    return False


def _is_co(p, t):
    try:
        return p.trait(t).coinductive
    except StopIteration:
        return False


def mixed_class(p, goals):
    """class F27 (recursive solver): the goals reach a cycle of the trait dependency graph that runs
    through a coinductive and an inductive trait ("mixed cycle": the error value the solver returns
    for it depends on the stack and is cached)."""
    dep = trait_graph(p, goals)
    start = {a[0] for g in goals for a in goal_atoms(g)}
    r = reach_traits(dep, start)
    for a in r:
        if a in dep and _is_co(p, a):
            for b in reach_traits(dep, dep.get(a, ())):
                if b in dep and not _is_co(p, b) and a in reach_traits(dep, dep.get(b, ())):
                    return True
    return False


def unify_ty(a, b, env):
    """first-order unification of abstract types; variables are ("var", k) with k tagged by side"""
    a, b = walk(a, env), walk(b, env)
    if a == b:
        return True
    if a[0] == "var":
        if occurs(a, b, env):
            return False
        env[a] = b
        return True
    if b[0] == "var":
        return unify_ty(b, a, env)
    if a[0] == "adt" and b[0] == "adt":
        return a[1] == b[1] and len(a[2]) == len(b[2]) and all(unify_ty(x, y, env) for x, y in zip(a[2], b[2]))
    return False


def walk(t, env):
    while t[0] == "var" and t in env:
        t = env[t]
    return t


def occurs(v, t, env):
    t = walk(t, env)
    if t == v:
        return True
    return t[0] == "adt" and any(occurs(v, x, env) for x in t[2])


def tag(t, side):
    if t[0] == "var":
        return ("var", (side, t[1]))
    if t[0] == "adt":
        return ("adt", t[1], tuple(tag(x, side) for x in t[2]))
    return t


def f16_class(p, g):
    """class of F16 (SLG: the aggregated answer of a non-ground goal depends on the order in which
    answers arrive, whenever one answer subsumes another; a panic or an interruption re-enqueues
    strands and so changes that order): the goal has an unknown, and for some non-ground atom of the
    goal two clause heads (program clauses, auto-trait rule, hypotheses of the goal) unify with it
    where one head is an instance of the other."""
    if not pg.has_exists(g):
        return False
    heads = [c.head for c in pg.clauses(p)] + [h for h, _b in goal_clauses(g)]
    for a in goal_atoms(g):
        if not pg.atom_vars(a):
            continue
        ga = tuple(tag(t, "g") for t in a[1])
        cand = []
        for i, h in enumerate(heads):
            if h[0] != a[0] or len(h[1]) != len(a[1]):
                continue
            # hypotheses share the goal's variables; program clauses have their own
            side = "g" if i >= len(heads) - len(goal_clauses(g)) else ("c", i)
            ha = tuple(tag(t, side) for t in h[1])
            env = {}
            if all(unify_ty(x, y, env) for x, y in zip(ha, ga)):
                cand.append(ha)
        for i, x in enumerate(cand):
            for j, y in enumerate(cand):
                if i != j:
                    env = {}
                    if all(match_ty(b, c, env) for b, c in zip(y, x)):   # x is an instance of y
                        return True
    return False


def f13_class(p, g):
    """class of F13/F14 (same predicate as Logic/Contract.v `f14_class`, on the abstract syntax):
    the goal has an unknown and reaches a coinductive trait one of whose clauses re-enters the
    trait's strongly connected component with a non-ground argument."""
    if not pg.has_exists(g):
        return False
    dep = trait_graph(p, [g])
    r = reach_traits(dep, {a[0] for a in goal_atoms(g)})
    cls = [(c.head, list(c.wcs)) for c in pg.clauses(p)] + goal_clauses(g)
    for head, body in cls:
        h = head[0]
        if h not in r or not _is_co(p, h):
            continue
        for b in body:
            if pg.atom_vars(b) and (b[0] == h or h in reach_traits(dep, {b[0]})):
                return True
    return False


# ---------------------------------------------------------------------------------------
# program / goal streams
# ---------------------------------------------------------------------------------------

def corpus():
    """witness programs that live in the proggen fragment: (Prog, goals)"""
    out = []
    A = pg.adt
    v = pg.var
    # F7 (auto cycle) and its coinductive-trait form
    p = pg.Prog([pg.Adt("A", 0, "struct", [[A("B")]]), pg.Adt("B", 0, "struct", [[A("A")]])],
                [pg.Trait("Send", 0, ("auto",))], [], "corpus-F7")
    out.append((p, [("atom", ("Send", (A("A"),))), ("atom", ("Send", (A("B"),)))]))
    p = pg.Prog([pg.Adt("A"), pg.Adt("B")], [pg.Trait("C1", 0, ("coinductive",))],
                [pg.Impl(0, ("C1", (A("A"),)), [("C1", (A("B"),))]), pg.Impl(0, ("C1", (A("B"),)), [("C1", (A("A"),))])], "corpus-F7co")
    out.append((p, [("atom", ("C1", (A("A"),))), ("atom", ("C1", (A("B"),)))]))
    # F15
    p = pg.Prog([pg.Adt("S0"), pg.Adt("S1", 1)], [pg.Trait("Tr0")],
                [pg.Impl(1, ("Tr0", (v(0),)), [("Tr0", (A("S1", v(0)),))]),
                 pg.Impl(1, ("Tr0", (A("S1", v(0)),)), [("Tr0", (A("S0"),))])], "corpus-F15")
    out.append((p, [("atom", ("Tr0", (A("S1", A("S0")),))), ("atom", ("Tr0", (A("S0"),)))]))
    # F3 chain
    p = pg.Prog([pg.Adt("A"), pg.Adt("B"), pg.Adt("C")], [pg.Trait("Foo")],
                [pg.Impl(0, ("Foo", (A("A"),)), [("Foo", (A("B"),))]), pg.Impl(0, ("Foo", (A("B"),)), [("Foo", (A("C"),))]),
                 pg.Impl(0, ("Foo", (A("C"),)))], "corpus-F3")
    out.append((p, [("atom", ("Foo", (A("A"),))), ("atom", ("Foo", (A("B"),))), ("atom", ("Foo", (A("C"),)))]))
    # F12 (en.chalk of the probe)
    p = pg.Prog([pg.Adt("A"), pg.Adt("B"), pg.Adt("Vec", 1)], [pg.Trait("Foo"), pg.Trait("Bar")],
                [pg.Impl(0, ("Foo", (A("A"),))), pg.Impl(0, ("Foo", (A("B"),))),
                 pg.Impl(1, ("Foo", (A("Vec", v(0)),)), [("Bar", (v(0),))]),
                 pg.Impl(1, ("Bar", (v(0),)), [("Foo", (v(0),))])], "corpus-F12")
    out.append((p, [("atom", ("Foo", (A("Vec", A("Vec", A("A"))),))), ("exists", (1,), ("atom", ("Foo", (A("Vec", v(1)),)))),
                    ("atom", ("Bar", (A("B"),)))]))
    # F7n / F29: negative subgoal whose answer is conditional on an unresolved coinductive cycle
    p = pg.Prog([pg.Adt("S%d" % i) for i in range(5)], [pg.Trait("C0", 0, ("coinductive",))],
                [pg.Impl(0, ("C0", (A("S0"),)), [("C0", (A("S2"),))]),
                 pg.Impl(0, ("C0", (A("S1"),)), [("C0", (A("S2"),)), ("C0", (A("S3"),))]),
                 pg.Impl(0, ("C0", (A("S2"),)), [("C0", (A("S3"),)), ("C0", (A("S4"),))]),
                 pg.Impl(0, ("C0", (A("S3"),)), [("C0", (A("S1"),)), ("C0", (A("S4"),))]),
                 pg.Impl(0, ("C0", (A("S4"),)), [("C0", (A("S1"),)), ("C0", (A("S4"),))])], "corpus-F7n")
    out.append((p, [("not", ("atom", ("C0", (A("S2"),)))), ("atom", ("C0", (A("S0"),)))]))
    # F27 mixed cycle
    p = pg.Prog([pg.Adt("X")], [pg.Trait("C", 0, ("coinductive",)), pg.Trait("I"), pg.Trait("J")],
                [pg.Impl(0, ("C", (A("X"),)), [("I", (A("X"),))]), pg.Impl(0, ("I", (A("X"),)), [("C", (A("X"),))]),
                 pg.Impl(0, ("I", (A("X"),)), [("J", (A("X"),))]), pg.Impl(0, ("J", (A("X"),)), [("I", (A("X"),))]),
                 pg.Impl(0, ("J", (A("X"),)))], "corpus-F27")
    out.append((p, [("atom", ("I", (A("X"),))), ("atom", ("C", (A("X"),))), ("atom", ("J", (A("X"),)))]))
    return out


# ---------------------------------------------------------------------------------------
# text corpus: witnesses outside the proggen fragment (trait where-clauses, hypothetical goals)
# ---------------------------------------------------------------------------------------

F31_PROGRAM = """struct S0 { }
trait Tr0<P0> where P0: Tr3 { }
trait Tr1<P0> where P0: Tr0<Self> { }
trait Tr2 where Self: Tr1<S0> { }
trait Tr3 where Self: Tr2, Self: Tr4 { }
trait Tr4 where Self: Tr3 { }"""


def text_corpus():
    """(name, program text, goal texts): every order of the goals is posed to one solver instance and
    compared with fresh solvers, cache on and off"""
    hyp = "forall<X1, X2> { if (X1: Tr0<X2>) { %s } }"
    return [("corpus-F31", F31_PROGRAM, [hyp % "X2: Tr2", hyp % "X2: Tr3", hyp % "X2: Tr4"])]


def _parse_ty(s):
    """`Name` or `Name<ty, ...>` -> (name, (args...))"""
    s = s.strip()
    if "<" not in s:
        return (s, ())
    name, rest = s.split("<", 1)
    return (name.strip(), tuple(_parse_ty(x) for x in _split_top(rest.rsplit(">", 1)[0], ",")))


def _split_top(s, sep):
    out, depth, cur = [], 0, ""
    for ch in s:
        if ch in "<(":
            depth += 1
        elif ch in ">)":
            depth -= 1
        if ch == sep and depth == 0:
            out.append(cur)
            cur = ""
        else:
            cur += ch
    if cur.strip():
        out.append(cur)
    return out


def _parse_bound(s):
    """`ty: Trait<args>` -> (trait, (ty, args...)); None when it is not of that form"""
    if ":" not in s:
        return None
    ty, tr = s.split(":", 1)
    if any(w in s for w in ("=", "FromEnv", "WellFormed", "forall", "exists", "not ", "'", "&", "dyn ", "fn(")):
        return None
    t = _parse_ty(tr)
    return (t[0], (_parse_ty(ty),) + t[1])


def _ty_subst(t, m):
    if t[0] in m and not t[1]:
        return m[t[0]]
    return (t[0], tuple(_ty_subst(a, m) for a in t[1]))


def _ty_names(t, acc):
    acc.add(t[0])
    for a in t[1]:
        _ty_names(a, acc)
    return acc


def rec_ambig_class(text, goal_text, limit=300):
    """class `rec-ambig-existential-bound` (finding C06-rec-ambiguous-bound / F31), decided on the input:
    the goal is `forall<..> { if (bounds) { .. } }`, and in the closure of its hypotheses under the
    implied-bound rules `FromEnv(wc) :- FromEnv(Self: T<P..>)` of the traits' where-clauses some rule has a
    body variable that its head does not mention while two distinct facts of the closure match the body
    with the same head instance (the sub-goal `FromEnv(?: T<..>)` then has two answers; the recursive
    solver cannot enumerate them and answers Ambiguous, and whether a particular goal is hit depends on
    clause order, provisional cycle values and therefore on what the cache holds).
    Unknown syntax -> False (no attribution)."""
    import re
    try:
        m = re.match(r"\s*forall<([^>]*)>\s*\{\s*if\s*\((.*?)\)\s*\{", goal_text)
        if not m:
            return False
        facts = set()
        for h in _split_top(m.group(2), ";"):
            b = _parse_bound(h)
            if b is None:
                return False
            facts.add(b)
        rules = []          # (trait, params incl. Self, head bound)
        for tm in re.finditer(r"trait\s+(\w+)\s*(?:<([^>{]*)>)?\s*(?:where\s+([^{]*))?\{", text):
            params = ["Self"] + [x.strip() for x in (tm.group(2) or "").split(",") if x.strip()]
            for wc in _split_top(tm.group(3) or "", ","):
                b = _parse_bound(wc)
                if b is None:
                    return False
                rules.append((tm.group(1), params, b))
        changed = True
        while changed:
            changed = False
            for (tr, params, head) in rules:
                for f in list(facts):
                    if f[0] != tr or len(f[1]) != len(params):
                        continue
                    mp = dict(zip(params, f[1]))
                    nf = (head[0], tuple(_ty_subst(a, mp) for a in head[1]))
                    if nf not in facts:
                        facts.add(nf)
                        changed = True
                        if len(facts) > limit:
                            return False
        for (tr, params, head) in rules:
            used = set()
            for a in head[1]:
                _ty_names(a, used)
            pos = [i for i, q in enumerate(params) if q in used]
            if len(pos) == len(params):
                continue
            seen = {}
            for f in facts:
                if f[0] == tr and len(f[1]) == len(params):
                    key = tuple(f[1][i] for i in pos)
                    if key in seen and seen[key] != f:
                        return True
                    seen[key] = f
        return False
    except Exception:
        return False


def auto_cycle_programs():
    """3-struct auto-trait cycles with a failing leaf, in all field orders of the struct that holds the
    leaf: a goal that reaches an already-solved, still provisional member of the cycle must not be
    final before the head of the cycle is (the head fails because of the leaf)."""
    import itertools
    A = pg.adt
    out = []
    fields = [A("NotSend"), A("Label"), A("Edge")]
    for k, perm in enumerate(itertools.permutations(fields)):
        p = pg.Prog([pg.Adt("NotSend"), pg.Adt("Node", 0, "struct", [list(perm)]),
                     pg.Adt("Edge", 0, "struct", [[A("Node")]]), pg.Adt("Label", 0, "struct", [[A("Edge")]])],
                    [pg.Trait("Send", 0, ("auto",))],
                    [pg.Impl(0, ("Send", (A("NotSend"),)), [], positive=False)], "seeded-auto-cycle-%d" % k)
        goals = [("atom", ("Send", (A(x),))) for x in ("Node", "Edge", "Label")]
        out.append((p, goals))
    # nested cycles whose inner head turns ambiguous in its FIRST iteration (two impls) while it is not
    # the head of its component; the outer head then needs the node evaluated against the stale value.
    # Non-ground goals; to be answered the same with the cache on and off, fresh and after a history.
    v = pg.var
    ex = lambda tr: ("exists", (1,), ("atom", (tr, (v(1),))))
    p = pg.Prog([pg.Adt("A"), pg.Adt("B"), pg.Adt("S", 1), pg.Adt("W", 1)], [pg.Trait("Foo"), pg.Trait("Bar"), pg.Trait("Top")],
                [pg.Impl(0, ("Foo", (A("A"),))), pg.Impl(0, ("Foo", (A("B"),))),
                 pg.Impl(1, ("Foo", (A("S", v(0)),)), [("Bar", (v(0),))]),
                 pg.Impl(1, ("Foo", (A("W", v(0)),)), [("Top", (v(0),))]),
                 pg.Impl(1, ("Bar", (v(0),)), [("Foo", (v(0),))]),
                 pg.Impl(1, ("Top", (v(0),)), [("Bar", (v(0),)), ("Foo", (v(0),))])], "seeded-nested-amb")
    out.append((p, [ex("Top"), ex("Bar"), ex("Foo"), ("atom", ("Top", (A("A"),)))]))
    p = pg.Prog([pg.Adt("A"), pg.Adt("B"), pg.Adt("W", 1)], [pg.Trait("Foo"), pg.Trait("Bar")],
                [pg.Impl(0, ("Foo", (A("A"),))), pg.Impl(0, ("Foo", (A("B"),))),
                 pg.Impl(1, ("Foo", (A("W", v(0)),)), [("Bar", (v(0),))]),
                 pg.Impl(1, ("Bar", (v(0),)), [("Foo", (v(0),))])], "seeded-amb-first-iteration")
    out.append((p, [ex("Foo"), ex("Bar"), ("atom", ("Bar", (A("A"),)))]))
    return out


def sweep_programs():
    """small programs for which EVERY interruption index / crash point is swept (shape `sweep-...`),
    each with the solver configuration to use: (Prog, goals, [(config name, solver)])"""
    A = pg.adt
    v = pg.var
    out = []
    # an existential goal with >= 3 answers: the first two generalise to a non-trivial pattern (Foo<_>),
    # a later one (Bar) lies outside it; impls whose where-clause always fails in between make the
    # engine yield between the answers
    p = pg.Prog([pg.Adt("A"), pg.Adt("B"), pg.Adt("Foo", 1), pg.Adt("Bar"), pg.Adt("Dud1", 1), pg.Adt("Dud2", 1), pg.Adt("Dud3", 1)],
                [pg.Trait("Tr"), pg.Trait("Never")],
                [pg.Impl(1, ("Tr", (A("Dud1", v(0)),)), [("Never", (v(0),))]),
                 pg.Impl(0, ("Tr", (A("Foo", A("A")),))), pg.Impl(0, ("Tr", (A("Foo", A("B")),))),
                 pg.Impl(1, ("Tr", (A("Dud2", v(0)),)), [("Never", (v(0),))]),
                 pg.Impl(1, ("Tr", (A("Dud3", v(0)),)), [("Never", (v(0),))]),
                 pg.Impl(0, ("Tr", (A("Bar"),)))], "sweep-answers-outside-pattern")
    out.append((p, [("exists", (1,), ("atom", ("Tr", (v(1),))))], [("slg", SLG), ("rec", REC)]))
    # two disjoint growing enumerations in one conjunction; reduced max_size so that size-floundering
    # happens early: a strand comes back with its subgoal selected, the table floundered meanwhile
    p = pg.Prog([pg.Adt("Lemon"), pg.Adt("Lime"), pg.Adt("Hot", 1)], [pg.Trait("Sour"), pg.Trait("Sweet")],
                [pg.Impl(0, ("Sour", (A("Lemon"),))), pg.Impl(1, ("Sour", (A("Hot", v(0)),)), [("Sour", (v(0),))]),
                 pg.Impl(0, ("Sweet", (A("Lime"),))), pg.Impl(1, ("Sweet", (A("Hot", v(0)),)), [("Sweet", (v(0),))])],
                "sweep-two-enumerations")
    out.append((p, [("exists", (1,), ("and", (("atom", ("Sour", (v(1),))), ("atom", ("Sweet", (v(1),))))))],
                [("slg-ms4", slg_with(4)), ("rec-ms4", rec_with(100, True, 4))]))
    # the mock program of the repo's tests/integration/panic.rs, and a parametric variant whose clause
    # resolution also looks up a variance: a fault in the n-th callback for EVERY n, including the
    # unification_database() / adt_variance calls made while a clause is resolved against the goal
    p = pg.Prog([pg.Adt("Foo")], [pg.Trait("Bar")], [pg.Impl(0, ("Bar", (A("Foo"),)))], "sweep-panic-rs")
    out.append((p, [("atom", ("Bar", (A("Foo"),)))], [("slg", SLG), ("rec", REC)]))
    p = pg.Prog([pg.Adt("Foo"), pg.Adt("Vec", 1)], [pg.Trait("Bar"), pg.Trait("Baz")],
                [pg.Impl(0, ("Bar", (A("Foo"),))), pg.Impl(1, ("Bar", (A("Vec", v(0)),)), [("Baz", (v(0),))]),
                 pg.Impl(0, ("Baz", (A("Foo"),))), pg.Impl(1, ("Baz", (A("Vec", v(0)),)), [("Bar", (v(0),))])], "sweep-variance")
    out.append((p, [("atom", ("Bar", (A("Vec", A("Vec", A("Foo"))),))), ("atom", ("Baz", (A("Vec", A("Foo")),)))],
                [("slg", SLG), ("rec", REC)]))
    return out


def size_programs():
    """goals whose type exceeds a reduced max_size, posed as ROOT goals and as subgoals of a conjunction
    on the same solver, in both orders: (Prog, goals, [(config name, solver)], [history (goal indices)]).
    A root goal gets its table without any size check; a later goal that has the same oversized goal as
    a subgoal must still be abstracted exactly as on a fresh solver."""
    A = pg.adt
    v = pg.var
    p = pg.Prog([pg.Adt("Alice"), pg.Adt("Vec", 1)], [pg.Trait("Foo")],
                [pg.Impl(0, ("Foo", (A("Alice"),))), pg.Impl(1, ("Foo", (A("Vec", v(0)),)), [("Foo", (v(0),))])], "size-nested-vec")

    def nest(k):
        t = A("Alice")
        for _ in range(k):
            t = A("Vec", t)
        return t
    goals, hists = [], []
    for k in (2, 3, 4):
        big = ("atom", ("Foo", (nest(k),)))
        conj = ("and", (big, ("atom", ("Foo", (A("Alice"),)))))
        i = len(goals)
        goals += [big, conj]
        hists += [[i, i + 1], [i + 1, i], [i, i + 1, i]]
    cfgs = [("slg-ms3", slg_with(3)), ("slg-ms4", slg_with(4)), ("rec-ms3", rec_with(100, True, 3))]
    return [(p, goals, cfgs, hists)]


def programs(rng, n, goals_per=(4, 1, 1), seeded=False):
    """corpus first, then n generated programs: list of (Prog, text, goals, goal_texts)"""
    out = []
    for p, goals in corpus() + (auto_cycle_programs() if seeded else []):
        out.append((p, pg.to_text(p), goals, [pg.goal_text(g) for g in goals]))
    for _ in range(n):
        p = pg.gen_program(rng)
        gg = pg.GoalGen(rng, p)
        goals = [g for g in gg.goals(*goals_per) if not pg.is_floundering_prone(g)]
        seen, gs = set(), []
        for g in goals:
            t = pg.goal_text(g)
            if t not in seen:
                seen.add(t)
                gs.append(g)
        if gs:
            out.append((p, pg.to_text(p), gs, [pg.goal_text(g) for g in gs]))
    return out
