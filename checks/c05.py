"""C05 — auto traits and coinductive traits follow coinductive semantics."""
import collections

from vlib import core, logic, sx
from vlib import proggen as pg
from vlib import rulegen as rg

from . import ruleslib as rl

META = {
    "id": "C05", "level": "proof",
    "technique": "Coq theorems auto_clauses_spec / auto_fixed_point / coinductive_spec (meaning of the clauses of a Gallina model "
                 "of push_auto_trait_impls + constituent_types + impl_provided_for = an independently written greatest-fixed-point "
                 "rule system) and evalR_correct (verified evaluator); correspondence: the clause sets of the real "
                 "program_clauses_for_goal are compared structurally with the model inside Coq, and both real solvers are compared "
                 "with the verified oracle on generated programs, on fresh solvers and on histories over one solver",
    "level_text": "First sentence of the property: proved for all programs and all ground types of the model (auto_clauses_spec, both "
                  "directions, Tarski form: cycles count as satisfied), the model is tied to the code clause by clause on every run, "
                  "and the verified evaluator decides every closed goal exactly, so each solver answer is checked against the truth.",
    "level_note": "Second sentence (a result that leaned on a cyclic assumption that turned out false is never reported or reused): at "
                  "this level it is TESTED, not proved — goals inside cycles whose assumption fails, and several goals of one cycle "
                  "posed to one solver in different orders, are compared with the oracle; the engine-level theorems live with "
                  "C10/C02 (Engine/RecEngine.v).  Closures, coroutines, opaque types, fn-def types and lifetimes are not modelled.",
    "design_ref": "DESIGN.md §4 C05",
    "assumptions": [
        "lifetimes are erased in the model (generated programs cannot produce region constraints: impl headers use fresh lifetime parameters)",
        "the `rules` harness renders chalk_ir clauses faithfully; clauses with a FromEnv condition are ignored (empty environment)",
        "first-order matching of a dumped clause head against the ground goal is done in Python (vlib/rulegen.py real_bodies)",
        "closures, coroutines, opaque types, fn-def types, associated types are outside the model (never generated)",
    ],
    "bins": ["solve", "rules"],
    "quick_s": 80, "thorough_s": 800,
}

F7_CLASS = "F7-slg-coinductive-cycle"


def histories(ctx, progs, per_prog):
    """[(pidx, [atom ...])]: goals of one cycle (closed ADTs under auto / coinductive traits) in
    several orders, with repetitions and with goals outside the cycle in between"""
    rng = ctx.rng
    out = []
    for i, p in enumerate(progs):
        ts = [t for t in p.traits if (t.auto or t.coind) and t.nextra == 0]
        cs = [a for a in p.adts if a.nparams == 0]
        if not ts or len(cs) < 2:
            continue
        for _ in range(per_prog):
            t = rng.choice(ts)
            k = rng.randint(2, min(5, len(cs) + 1))
            h = [(t.name, (("adt", rng.choice(cs).name, ()),)) for _ in range(k)]
            if rng.random() < 0.3:
                t2 = rng.choice(ts)
                h.insert(rng.randint(0, len(h)), (t2.name, (("tuple", (("adt", rng.choice(cs).name, ()), ("adt", rng.choice(cs).name, ()))),)))
            out.append((i, h))
    return out


def run_histories(ctx, progs, defs, hs, verdicts, cpu=5):
    hc, meta = [], []
    for (pidx, h) in hs:
        for sname, sv in rl.SOLVERS:
            hc.append(pg.case(progs[pidx].text, [rg.goal_text(a) for a in h], sv, "History", [("Cpu", cpu)]))
            meta.append((pidx, h, sname))
    res = logic.solve_cases(hc, timeout=900)
    atoms = verdicts
    cnt = collections.Counter()
    suspects = []
    for (pidx, h, sname), r in zip(meta, res):
        if not r["ok"]:
            raise core.CheckFailure("history program does not lower: %s" % r["error"])
        for j, a in enumerate(h):
            g = r["goals"][j]
            v = rl.verdict_of(g[1]) if g[0] != "error" else "GoalError"
            o = atoms[(pidx, a)]
            if o is None:
                cnt["oracle_inconclusive"] += 1
                continue
            if v is True or v is False:
                ctx.count("history-" + sname, (sname, progs[pidx].text, tuple(h[:j + 1])), nontrivial=j > 0)
                cnt["history_goals"] += 1
                if v != o:
                    suspects.append((pidx, h, j, sname, v, o))
            else:
                cnt["solver_%s" % v] += 1
    # classify the wrong answers: F7 = SLG, oracle true, answer NoSolution, class predicate on the input (Coq)
    if suspects:
        exprs = []
        for pidx, h, j, sname, v, o in suspects:
            hist = [rg.atom_model(a, progs[pidx]) for a in h]
            exprs.append((["D%d" % pidx], logic.bb("f7_class %d (bodsR D%d) (isco (coD D%d)) %s %s" % (rl.FUEL, pidx, pidx, sx.to_coq(hist), sx.to_coq(sx.Nat(j))))))
        codes, fl = logic.coq_codes(ctx.work, "f7", defs, exprs, shard=20, imports=rl.IMPORTS)
        if fl:
            raise core.CheckFailure("coq evaluation of f7_class failed: %s" % (fl[0],))
        for (pidx, h, j, sname, v, o), k in zip(suspects, codes):
            d = {"kind": "wrong-answer-in-history", "solver": sname, "program": progs[pidx].text,
                 "history": [rg.goal_text(a) for a in h], "position": j, "answer": str(v), "oracle": o,
                 "model_decls": sx.to_coq(progs[pidx].model)}
            f = ctx.match_known(None, F7_CLASS) if (sname == "slg" and k == 1 and o is True and v is False) else None
            if f:
                cnt["known_F7"] += 1
                ctx.known_finding(f, "%s; then %s" % (" ; ".join(rg.goal_text(a) for a in h[:j]), rg.goal_text(h[j])))
            else:
                cnt["history_violations"] += 1
                if cnt["history_violations"] <= 5:
                    ctx.violation(d)
    return cnt


def corpus_cases():
    """the DESIGN §5 / test-suite shapes, always run (minimal cycles, negative impls, enum variants,
    constructor-level impl test, fn pointers with an explicit impl, a cycle that depends on something false)"""
    A, B, N = ("adt", "A", ()), ("adt", "B", ()), ("adt", "N", ())
    out = []
    p = rg.Prog([rg.Adt("A", 0, "struct", [[B]]), rg.Adt("B", 0, "struct", [[A]]), rg.Adt("N"), rg.Adt("X", 0, "struct", [[("adt", "Y", ()), N]]),
                 rg.Adt("Y", 0, "struct", [[("adt", "X", ())]]),
                 rg.Adt("E", 0, "enum", [[], [A], [N]]), rg.Adt("W", 1, "struct", [[("var", 0)]]), rg.Adt("Yes")],
                [rg.Trait("Send", auto=True)],
                [rg.Impl(0, ("Send", (N,)), [], False), rg.Impl(0, ("Send", (("adt", "W", (("adt", "Yes", ()),)),)), [], False),
                 rg.Impl(0, ("Send", (("fnptr", (N, N)),)), [], False)], [], "corpus")
    gs = [("Send", (t,)) for t in (A, B, N, ("adt", "X", ()), ("adt", "Y", ()), ("adt", "E", ()), ("adt", "W", (A,)), ("adt", "W", (("adt", "Yes", ()),)),
                                   ("fnptr", (N, N)), ("fnptr", (A, A)), ("fnptr", (A,)), ("tuple", (A, ("ref", False, B))), ("tuple", (A, N)),
                                   ("array", ("adt", "E", ()), 2), ("raw", True, N), ("slice", ("adt", "X", ())))]
    out.append((p, gs))
    # coinduction.rs coinductive_unsound shapes: C1orC2-style cycle that depends on a false goal
    p = rg.Prog([rg.Adt("A"), rg.Adt("B"), rg.Adt("C")], [rg.Trait("C1", coind=True), rg.Trait("C2", coind=True), rg.Trait("C3", coind=True)],
                [rg.Impl(0, ("C1", (A,)), [("C2", (A,)), ("C3", (A,))]), rg.Impl(0, ("C2", (A,)), [("C1", (A,))]),
                 rg.Impl(0, ("C1", (B,)), [("C2", (B,))]), rg.Impl(0, ("C2", (B,)), [("C1", (B,))]),
                 rg.Impl(0, ("C3", (B,)), [("C1", (B,)), ("C2", (B,))])], [], "corpus")
    gs = [(t, (x,)) for t in ("C1", "C2", "C3") for x in (A, B, ("adt", "C", ()))]
    out.append((p, gs))
    return out


def run(ctx):
    ok, why = ctx.proof_stage("Props.C05", ["auto_clauses_spec", "auto_fixed_point", "auto_clause_set", "impl_provided_for_spec",
                                            "coinductive_spec", "evalR_correct"])
    if not ok:
        # a theorem no longer checks: look for a concrete failing input first (the oracle functions may
        # still build); if none is found, report the broken theorem itself
        try:
            _body(ctx)
        except Exception as e:  # noqa: BLE001
            core.log("search for a failing input did not complete: %s" % e)
        if not ctx.violations:
            ctx.violation({"kind": "proof", "broken": why}, no_input=True)
        return
    _body(ctx)


def _body(ctx):
    core.build_harness(bins=["solve", "rules"])
    progs, cases = rl.gen_programs(ctx, "auto", ctx.n(36, 400), ctx.n(7, 12))
    # corpus programs ride along as additional programs
    for p, gs in corpus_cases():
        p.text, p.model = rg.to_text(p), rg.to_model(p)
        pidx = len(progs)
        progs.append(p)
        for a in gs:
            c = rl.Case(pidx, p, a, "goal")
            c.text = rg.goal_text(a)
            cases.append(c)
    hs = histories(ctx, progs[:-2], ctx.n(2, 6))
    # the F7 witness itself (A: Send then B: Send), and the coinductive_unsound shapes in several orders
    cp = len(progs) - 2
    hs.append((cp, [("Send", (("adt", "A", ()),)), ("Send", (("adt", "B", ()),)), ("Send", (("adt", "X", ()),)), ("Send", (("adt", "Y", ()),))]))
    hs.append((cp + 1, [("C1", (("adt", "B", ()),)), ("C2", (("adt", "B", ()),)), ("C3", (("adt", "B", ()),)), ("C1", (("adt", "A", ()),)), ("C2", (("adt", "A", ()),))]))
    hs.append((cp + 1, [("C3", (("adt", "B", ()),)), ("C2", (("adt", "A", ()),)), ("C1", (("adt", "A", ()),)), ("C1", (("adt", "B", ()),))]))
    # every history goal is also a fresh-solver case (gives its oracle verdict)
    have = {(c.pidx, c.atom) for c in cases}
    for pidx, h in hs:
        for a in h:
            if (pidx, a) not in have:
                have.add((pidx, a))
                c = rl.Case(pidx, progs[pidx], a, "history-goal")
                c.text = rg.goal_text(a)
                cases.append(c)
    cases, defs = rl.main_pipeline(ctx, progs, cases, cpu=ctx.n(3, 8))
    cnt, fam, ctors = rl.judge(ctx, "C05", progs, cases, defs)
    verdicts = {(c.pidx, c.atom): c.oracle for c in cases}
    import time
    th = time.time()
    hcnt = run_histories(ctx, progs, defs, hs, verdicts, cpu=ctx.n(3, 8))
    ctx.cov.setdefault("phase_s", {})["histories"] = round(time.time() - th, 1)

    n_ver = cnt["oracle_true"] + cnt["oracle_false"]
    ctx.cov["rule"] = ("evaluations = (solver, program, goal) triples whose Unique/NoSolution answer was compared with the verified oracle "
                       "evalR, plus every goal of every history; non-trivial = self type is an ADT or has components (fresh solver), "
                       "not the first goal (history); distinct by (solver, program text, goal text / history prefix)")
    ctx.cov["input_distribution"] = {
        "programs": len(progs), "goals": len(cases), "goals_by_trait_kind": dict(fam), "self_type_constructors": dict(ctors),
        "histories": len(hs), "history_goals": hcnt["history_goals"],
    }
    ctx.cov["verdict_share"] = {"true": round(cnt["oracle_true"] / max(1, n_ver), 3), "false": round(cnt["oracle_false"] / max(1, n_ver), 3)}
    ctx.cov["clause_correspondence"] = {"equal": cnt["clauses_equal"], "mismatch": cnt["clause_mismatch"], "not_compared": cnt["clauses_not_compared"]}
    ctx.cov["known_class_share"] = {"F7 (share of history goals)": round(hcnt["known_F7"] / max(1, hcnt["history_goals"]), 4),
                                    "F7q (share of fresh SLG answers)": round(cnt["known_F7q"] / max(1, n_ver), 4)}
    ctx.cov["known_class_hits"] = {"F7": hcnt["known_F7"], "F7q": cnt["known_F7q"]}
    ctx.cov["inconclusive"] = (cnt["oracle_inconclusive"] + hcnt["oracle_inconclusive"] + cnt["ambiguous_near_max_size"]
                               + sum(v for k, v in list(cnt.items()) + list(hcnt.items()) if k.startswith("solver_")))
    ctx.cov["counters"] = {k: v for k, v in list(cnt.items()) + [("hist:" + k, v) for k, v in hcnt.items()]}


def replay(ctx, obj):
    if obj.get("kind") == "wrong-answer-in-history":
        core.build_harness(bins=["solve"])
        cases = [pg.case(obj["program"], obj["history"], sv, "History", [("Cpu", 10)]) for _, sv in rl.SOLVERS]
        res = logic.solve_cases(cases, timeout=120)
        for (sname, _), r in zip(rl.SOLVERS, res):
            print(sname + ":", [sx.to_sexp(g[1]) if g[0] != "error" else g[1] for g in r["goals"]] if r["ok"] else r["error"])
        exp = "Unique" if obj.get("oracle") else "NoSolution"
        r = res[0 if obj.get("solver") == "slg" else 1]
        g = r["goals"][obj["position"]] if r["ok"] else None
        return 0 if (g is not None and g[0] != "error" and sx.head(g[1]) == exp) else 1
    return rl.replay_case(ctx, obj)
