"""C05 — auto traits and coinductive traits follow coinductive semantics."""
import collections
import itertools

from vlib import core, logic, sx
from vlib import proggen as pg
from vlib import rulegen as rg

from . import ruleslib as rl

META = {
    "id": "C05", "level": "proof",
    "technique": "Coq theorems auto_clauses_spec / auto_fixed_point / coinductive_spec (meaning of the clauses of a Gallina model "
                 "of push_auto_trait_impls + constituent_types + impl_provided_for = an independently written greatest-fixed-point "
                 "rule system) and evalR_correct (verified evaluator); correspondence: the clause sets of the real "
                 "program_clauses_for_goal are compared structurally with the model inside Coq, and both real solvers are compared "
                 "with the verified oracle on generated programs, on fresh solvers and on histories over one solver",
    "level_text": "First sentence of the property: proved for all programs and all ground types of the model (auto_clauses_spec, both "
                  "directions, Tarski form: cycles count as satisfied), the model is tied to the code clause by clause on every run, "
                  "and the verified evaluator decides every closed goal exactly, so each solver answer is checked against the truth.",
    "level_note": "Second sentence (a result that leaned on a cyclic assumption that turned out false is never reported or reused): at "
                  "this level it is TESTED, not proved — a deliberate family (a cycle that leans on a false leaf + a bystander behind a non-head "
                  "member, every field / where-clause order) with histories in ALL goal orders on one solver of each kind, single queries "
                  "`G1, not { G2 }` / `G1, G2` (verified evaluator evalRg), and random histories are compared with the oracle; the engine-level theorems live with "
                  "C10/C02 (Engine/RecEngine.v).  Closures, coroutines, opaque types, fn-def types and lifetimes are not modelled.",
    "design_ref": "DESIGN.md §4 C05",
    "assumptions": [
        "lifetimes are erased in the model (generated programs cannot produce region constraints: impl headers use fresh lifetime parameters)",
        "the `rules` harness renders chalk_ir clauses faithfully; clauses with a FromEnv condition are ignored (empty environment)",
        "first-order matching of a dumped clause head against the ground goal is done in Python (vlib/rulegen.py real_bodies)",
        "closures, coroutines, opaque types, fn-def types, associated types are outside the model (never generated)",
    ],
    "bins": ["solve", "rules"],
    "quick_s": 80, "thorough_s": 800,
}

F7_CLASS = "F7-slg-coinductive-cycle"
F7N_CLASS = "F7n-slg-negated-coinductive-cycle"


def histories(ctx, progs, per_prog):
    """[(pidx, [atom ...])]: goals of one cycle (closed ADTs under auto / coinductive traits) in
    several orders, with repetitions and with goals outside the cycle in between"""
    rng = ctx.rng
    out = []
    for i, p in enumerate(progs):
        ts = [t for t in p.traits if (t.auto or t.coind) and t.nextra == 0]
        cs = [a for a in p.adts if a.nparams == 0]
        if not ts or len(cs) < 2:
            continue
        for _ in range(per_prog):
            t = rng.choice(ts)
            k = rng.randint(2, min(5, len(cs) + 1))
            h = [(t.name, (("adt", rng.choice(cs).name, ()),)) for _ in range(k)]
            if rng.random() < 0.3:
                t2 = rng.choice(ts)
                h.insert(rng.randint(0, len(h)), (t2.name, (("tuple", (("adt", rng.choice(cs).name, ()), ("adt", rng.choice(cs).name, ()))),)))
            out.append((i, h))
        if rng.random() < 0.35 and len(cs) >= 3:
            # all orders of three goals of one trait (the engines' caches see every order)
            t = rng.choice(ts)
            three = [(t.name, (("adt", a.name, ()),)) for a in rng.sample(cs, 3)]
            out += [(i, list(o)) for o in itertools.permutations(three)]
    return out


class Conj:
    """a closed single query `L1, L2` of literals (atom or `not { atom }`)"""

    def __init__(self, pidx, prog, lits):
        self.pidx, self.prog, self.lits = pidx, prog, lits
        self.text = rg.conj_text(lits)
        self.expr = logic.ob("evalRg %d D%d %s" % (rl.FUEL, pidx, sx.to_coq(rg.conj_model(lits, prog))))
        self.code = None
        self.answers = {}

    @property
    def oracle(self):
        return {0: False, 1: True}.get(self.code)


def conj_goals(ctx, progs, shape_idx):
    """every ordered pair of the cycle goals of the deliberate programs as `G1, not { G2 }`, `not { G1 }, G2`
    and `G1, G2`; a few random pairs of closed ADT goals for the random programs"""
    rng = ctx.rng
    out = []
    for pidx, goals in shape_idx:
        for a, b in itertools.permutations(goals[:3], 2):
            out.append(Conj(pidx, progs[pidx], [(False, a), (True, b)]))
            out.append(Conj(pidx, progs[pidx], [(True, a), (False, b)]))
            out.append(Conj(pidx, progs[pidx], [(False, a), (False, b)]))
            out.append(Conj(pidx, progs[pidx], [(True, a), (True, b)]))
    for i, p in enumerate(progs):
        if any(i == k for k, _ in shape_idx):
            continue
        ts = [t for t in p.traits if (t.auto or t.coind) and t.nextra == 0]
        cs = [a for a in p.adts if a.nparams == 0]
        if not ts or len(cs) < 2:
            continue
        for _ in range(2):
            t = rng.choice(ts)
            a, b = rng.sample(cs, 2)
            lits = [(rng.random() < 0.4, (t.name, (("adt", a.name, ()),))), (rng.random() < 0.4, (t.name, (("adt", b.name, ()),)))]
            out.append(Conj(i, p, lits))
    return out


def run_conj(ctx, progs, defs, conjs, verdicts, cpu=5):
    """single queries on fresh solvers vs evalRg; SLG answers that are explained by the known classes F7q / F7
    (the in-class atoms, which hold, answered `NoSolution`) are known findings, everything else a violation"""
    cnt = collections.Counter()
    by_prog = collections.OrderedDict()
    for c in conjs:
        by_prog.setdefault(c.pidx, []).append(c)
    hc, meta = [], []
    for cs in by_prog.values():
        for sname, sv in rl.SOLVERS:
            hc.append(pg.case(cs[0].prog.text, [c.text for c in cs], sv, "Fresh", [("Cpu", cpu)]))
            meta.append((cs, sname))
    res = logic.solve_cases(hc, timeout=900)
    suspects = []
    for (cs, sname), r in zip(meta, res):
        if not r["ok"]:
            raise core.CheckFailure("conjunction program does not lower: %s" % r["error"])
        for k, c in enumerate(cs):
            g = r["goals"][k]
            if g[0] == "error":
                raise core.CheckFailure("conjunction goal does not lower: %s: %s" % (c.text, g[1]))
            c.answers[sname] = g[1]
            v = rl.verdict_of(g[1])
            if c.oracle is None:
                cnt["oracle_inconclusive"] += 1
            elif v is True or v is False:
                ctx.count("conjunction-" + sname, (sname, c.prog.text, c.text), nontrivial=True)
                cnt["conj_goals"] += 1
                cnt["conj_true" if c.oracle else "conj_false"] += 1
                if v != c.oracle:
                    suspects.append((c, sname, v))
            elif str(v).startswith("Ambig"):
                # an ambiguous answer to a closed query is wrong too
                cnt["conj_goals"] += 1
                suspects.append((c, sname, v))
            else:
                cnt["solver_%s" % v] += 1
    if suspects:
        # which atoms of the query are in a known SLG class (decided in Coq on the input)
        exprs, where = [], []
        for c, sname, v in suspects:
            if sname != "slg":
                continue
            atoms = [rg.atom_model(a, c.prog) for _, a in c.lits]
            for j, (_, a) in enumerate(c.lits):
                d = "D%d" % c.pidx
                exprs.append(([d], logic.bb("f7q_class %d (bodsR %s) (isco (coD %s)) %s || f7_class %d (bodsR %s) (isco (coD %s)) %s %s"
                                            % (rl.FUEL, d, d, sx.to_coq(atoms[j]), rl.FUEL, d, d, sx.to_coq(atoms), sx.to_coq(sx.Nat(j))))))
                where.append((id(c), j))
                exprs.append(([d], logic.bb("f7n_atom %d (bodsR %s) (isco (coD %s)) %s" % (rl.FUEL, d, d, sx.to_coq(atoms[j])))))
                where.append((id(c), j, "n"))
        inclass = {}
        if exprs:
            codes, fl = logic.coq_codes(ctx.work, "cjc", defs, exprs, shard=max(10, len(exprs) // core.NCPU + 1), imports=rl.IMPORTS)
            if fl:
                raise core.CheckFailure("coq evaluation of the class predicates failed: %s" % (fl[0],))
            inclass = {w: k == 1 for w, k in zip(where, codes)}
        for c, sname, v in suspects:
            known = None
            if sname == "slg":
                # the answer SLG gives if exactly the in-class atoms that hold are (wrongly) failed
                alt, hit = True, False
                for j, (neg, a) in enumerate(c.lits):
                    o = verdicts.get((c.pidx, a))
                    if o is True and inclass.get((id(c), j)):
                        o, hit = False, True
                    alt = alt and (o is not None) and ((not o) if neg else o)
                if v is True or v is False:
                    if hit and alt == v:
                        known = ctx.match_known(None, rl.F7Q_CLASS) or ctx.match_known(None, F7_CLASS)
                elif any(neg and inclass.get((id(c), j)) for j, (neg, _) in enumerate(c.lits)):
                    # `not { G }` on a goal G whose table keeps an unrefined answer with delayed subgoals: Ambiguous
                    known = ctx.match_known(None, F7_CLASS)
                elif any(neg and inclass.get((id(c), j, "n")) for j, (neg, _) in enumerate(c.lits)):
                    # `not { G }` where the search for G itself leaves such a table behind (non-ring / doubly entered cycle)
                    known = ctx.match_known(None, F7N_CLASS)
            if known:
                cnt["known_conj"] += 1
                ctx.known_finding(known, c.text)
                continue
            cnt["conj_violations"] += 1
            if cnt["conj_violations"] <= 5:
                ctx.violation({"kind": "wrong-answer-single-query", "solver": sname, "program": c.prog.text, "goal": c.text,
                               "answer": str(v), "oracle": c.oracle, "answers": {k: sx.to_sexp(x)[:200] for k, x in c.answers.items()},
                               "model_decls": sx.to_coq(c.prog.model), "model_goal": sx.to_coq(rg.conj_model(c.lits, c.prog)),
                               "relation": "answer must be Unique iff evalRg = Some true, NoSolution iff Some false (evalRg_correct)"})
    return cnt


def run_histories(ctx, progs, defs, hs, verdicts, cpu=5):
    hc, meta = [], []
    for (pidx, h) in hs:
        for sname, sv in rl.SOLVERS:
            hc.append(pg.case(progs[pidx].text, [rg.goal_text(a) for a in h], sv, "History", [("Cpu", cpu)]))
            meta.append((pidx, h, sname))
    res = logic.solve_cases(hc, timeout=900)
    atoms = verdicts
    cnt = collections.Counter()
    suspects = []
    for (pidx, h, sname), r in zip(meta, res):
        if not r["ok"]:
            raise core.CheckFailure("history program does not lower: %s" % r["error"])
        for j, a in enumerate(h):
            g = r["goals"][j]
            v = rl.verdict_of(g[1]) if g[0] != "error" else "GoalError"
            o = atoms[(pidx, a)]
            if o is None:
                cnt["oracle_inconclusive"] += 1
                continue
            if v is True or v is False:
                ctx.count("history-" + sname, (sname, progs[pidx].text, tuple(h[:j + 1])), nontrivial=j > 0)
                cnt["history_goals"] += 1
                if v != o:
                    suspects.append((pidx, h, j, sname, v, o))
            else:
                cnt["solver_%s" % v] += 1
    # classify the wrong answers: F7 / F7q = SLG, oracle true, answer NoSolution, class predicates on the input (Coq):
    # reached by an earlier root (f7_class) or damaged within its own search (f7q_class)
    if suspects:
        exprs = []
        for pidx, h, j, sname, v, o in suspects:
            hist = [rg.atom_model(a, progs[pidx]) for a in h]
            exprs.append((["D%d" % pidx], logic.bb("f7_class %d (bodsR D%d) (isco (coD D%d)) %s %s || f7q_class %d (bodsR D%d) (isco (coD D%d)) %s"
                                                      % (rl.FUEL, pidx, pidx, sx.to_coq(hist), sx.to_coq(sx.Nat(j)), rl.FUEL, pidx, pidx, sx.to_coq(hist[j])))))
        codes, fl = logic.coq_codes(ctx.work, "f7", defs, exprs, shard=20, imports=rl.IMPORTS)
        if fl:
            raise core.CheckFailure("coq evaluation of f7_class failed: %s" % (fl[0],))
        for (pidx, h, j, sname, v, o), k in zip(suspects, codes):
            d = {"kind": "wrong-answer-in-history", "solver": sname, "program": progs[pidx].text,
                 "history": [rg.goal_text(a) for a in h], "position": j, "answer": str(v), "oracle": o,
                 "model_decls": sx.to_coq(progs[pidx].model)}
            f = ctx.match_known(None, F7_CLASS) if (sname == "slg" and k == 1 and o is True and v is False) else None
            if f:
                cnt["known_F7"] += 1
                ctx.known_finding(f, "%s; then %s" % (" ; ".join(rg.goal_text(a) for a in h[:j]), rg.goal_text(h[j])))
            else:
                cnt["history_violations"] += 1
                if cnt["history_violations"] <= 5:
                    ctx.violation(d)
    return cnt


def corpus_cases():
    """the DESIGN §5 / test-suite shapes, always run (minimal cycles, negative impls, enum variants,
    constructor-level impl test, fn pointers with an explicit impl, a cycle that depends on something false)"""
    A, B, N = ("adt", "A", ()), ("adt", "B", ()), ("adt", "N", ())
    out = []
    p = rg.Prog([rg.Adt("A", 0, "struct", [[B]]), rg.Adt("B", 0, "struct", [[A]]), rg.Adt("N"), rg.Adt("X", 0, "struct", [[("adt", "Y", ()), N]]),
                 rg.Adt("Y", 0, "struct", [[("adt", "X", ())]]),
                 rg.Adt("E", 0, "enum", [[], [A], [N]]), rg.Adt("W", 1, "struct", [[("var", 0)]]), rg.Adt("Yes"),
                 # a field of the ADT's own constructor at OTHER arguments is a real requirement: L<A> needs L<N> needs N
                 rg.Adt("L", 1, "struct", [[("var", 0), ("adt", "L", (N,))]]), rg.Adt("R", 0, "struct", [[("adt", "R", ()), A]])],
                [rg.Trait("Send", auto=True)],
                [rg.Impl(0, ("Send", (N,)), [], False), rg.Impl(0, ("Send", (("adt", "W", (("adt", "Yes", ()),)),)), [], False),
                 rg.Impl(0, ("Send", (("fnptr", (N, N)),)), [], False)], [], "corpus")
    gs = [("Send", (t,)) for t in (A, B, N, ("adt", "X", ()), ("adt", "Y", ()), ("adt", "E", ()), ("adt", "W", (A,)), ("adt", "W", (("adt", "Yes", ()),)),
                                   ("fnptr", (N, N)), ("fnptr", (A, A)), ("fnptr", (A,)), ("tuple", (A, ("ref", False, B))), ("tuple", (A, N)),
                                   ("array", ("adt", "E", ()), 2), ("raw", True, N), ("slice", ("adt", "X", ())),
                                   ("adt", "L", (A,)), ("adt", "L", (N,)), ("adt", "R", ()))]
    out.append((p, gs))
    # #[upstream] explicit impls are explicit impls: they suppress the field-based auto impl like local ones
    Data, RcD = ("adt", "Data", ()), ("adt", "Rc", (("adt", "Data", ()),))
    p = rg.Prog([rg.Adt("Data"), rg.Adt("Rc", 1, "struct", [[("var", 0)]]), rg.Adt("Holder", 0, "struct", [[RcD]]),
                 rg.Adt("Node", 0, "struct", [[("adt", "Rc", (("adt", "Node", ()),))]]), rg.Adt("Up", 0, "struct", [[Data]], upstream=True),
                 rg.Adt("Arc", 1, "struct", [[("var", 0)]], upstream=True)],
                [rg.Trait("Send", auto=True), rg.Trait("Sync", auto=True)],
                [rg.Impl(1, ("Send", (("adt", "Rc", (("var", 0),)),)), [], False, upstream=True),
                 rg.Impl(1, ("Sync", (("adt", "Arc", (("var", 0),)),)), [("Send", (("var", 0),))], True, upstream=True),
                 rg.Impl(0, ("Sync", (("tuple", (Data, Data)),)), [], False, upstream=True)], [], "corpus")
    gs = [(tr, (t,)) for tr in ("Send", "Sync") for t in (Data, RcD, ("adt", "Holder", ()), ("adt", "Node", ()), ("adt", "Up", ()),
                                                           ("adt", "Arc", (Data,)), ("adt", "Arc", (RcD,)), ("tuple", (Data, Data)), ("tuple", (RcD, Data)),
                                                           ("tuple", (Data,)), ("ref", False, ("adt", "Node", ())))]
    out.append((p, gs))
    # coinduction.rs coinductive_unsound shapes: C1orC2-style cycle that depends on a false goal
    p = rg.Prog([rg.Adt("A"), rg.Adt("B"), rg.Adt("C")], [rg.Trait("C1", coind=True), rg.Trait("C2", coind=True), rg.Trait("C3", coind=True)],
                [rg.Impl(0, ("C1", (A,)), [("C2", (A,)), ("C3", (A,))]), rg.Impl(0, ("C2", (A,)), [("C1", (A,))]),
                 rg.Impl(0, ("C1", (B,)), [("C2", (B,))]), rg.Impl(0, ("C2", (B,)), [("C1", (B,))]),
                 rg.Impl(0, ("C3", (B,)), [("C1", (B,)), ("C2", (B,))])], [], "corpus")
    gs = [(t, (x,)) for t in ("C1", "C2", "C3") for x in (A, B, ("adt", "C", ()))]
    out.append((p, gs))
    return out


def run(ctx):
    ok, why = ctx.proof_stage("Props.C05", ["auto_clauses_spec", "auto_fixed_point", "auto_clause_set", "impl_provided_for_spec",
                                            "coinductive_spec", "evalR_correct", "evalRg_correct"])
    if not ok:
        # a theorem no longer checks: look for a concrete failing input first (the oracle functions may
        # still build); if none is found, report the broken theorem itself
        try:
            _body(ctx)
        except Exception as e:  # noqa: BLE001
            core.log("search for a failing input did not complete: %s" % e)
        if not ctx.violations:
            ctx.violation({"kind": "proof", "broken": why}, no_input=True)
        return
    _body(ctx)


def _body(ctx):
    core.build_harness(bins=["solve", "rules"])
    progs, cases = rl.gen_programs(ctx, "auto", ctx.n(30, 400), ctx.n(7, 12))
    # corpus programs ride along as additional programs
    for p, gs in corpus_cases():
        p.text, p.model = rg.to_text(p), rg.to_model(p)
        pidx = len(progs)
        progs.append(p)
        for a in gs:
            c = rl.Case(pidx, p, a, "goal")
            c.text = rg.goal_text(a)
            cases.append(c)
    hs = histories(ctx, progs[:-3], ctx.n(1, 6))
    # the F7 witness itself (A: Send then B: Send), and the coinductive_unsound shapes in several orders
    cp = len(progs) - 3
    hs.append((cp, [("Send", (("adt", "A", ()),)), ("Send", (("adt", "B", ()),)), ("Send", (("adt", "X", ()),)), ("Send", (("adt", "Y", ()),))]))
    hs.append((cp + 1, [("Send", (("adt", "Node", ()),)), ("Send", (("adt", "Holder", ()),)), ("Send", (("adt", "Rc", (("adt", "Data", ()),)),))]))
    hs.append((cp + 2, [("C1", (("adt", "B", ()),)), ("C2", (("adt", "B", ()),)), ("C3", (("adt", "B", ()),)), ("C1", (("adt", "A", ()),)), ("C2", (("adt", "A", ()),))]))
    hs.append((cp + 2, [("C3", (("adt", "B", ()),)), ("C2", (("adt", "A", ()),)), ("C1", (("adt", "A", ()),)), ("C1", (("adt", "B", ()),))]))
    # the deliberate family "cycle that leans on something false + bystander behind a non-head member": every
    # field order of the minimal witness, random members of the wider family; histories in ALL orders
    shape_idx = []
    for p, gs in rg.cycle_fail_programs(ctx.rng, ctx.n(6, 40)):
        p.text, p.model = rg.to_text(p), rg.to_model(p)
        pidx = len(progs)
        progs.append(p)
        shape_idx.append((pidx, gs))
        for a in gs:
            c = rl.Case(pidx, p, a, "goal")
            c.text = rg.goal_text(a)
            cases.append(c)
        hs += [(pidx, list(o)) for o in itertools.permutations(gs)]
    conjs = conj_goals(ctx, progs, shape_idx)
    # every history / conjunction atom is also a fresh-solver case (gives its oracle verdict)
    have = {(c.pidx, c.atom) for c in cases}
    for pidx, atoms in hs + [(c.pidx, [a for _, a in c.lits]) for c in conjs]:
        for a in atoms:
            if (pidx, a) not in have:
                have.add((pidx, a))
                c = rl.Case(pidx, progs[pidx], a, "history-goal")
                c.text = rg.goal_text(a)
                cases.append(c)
    cases, defs = rl.main_pipeline(ctx, progs, cases, cpu=ctx.n(3, 8), extra_exprs=conjs)
    cnt, fam, ctors = rl.judge(ctx, "C05", progs, cases, defs)
    verdicts = {(c.pidx, c.atom): c.oracle for c in cases}
    import time
    th = time.time()
    hcnt = run_histories(ctx, progs, defs, hs, verdicts, cpu=ctx.n(3, 8))
    ctx.cov.setdefault("phase_s", {})["histories"] = round(time.time() - th, 1)
    th = time.time()
    ccnt = run_conj(ctx, progs, defs, conjs, verdicts, cpu=ctx.n(3, 8))
    ctx.cov["phase_s"]["single_query_conjunctions"] = round(time.time() - th, 1)

    n_ver = cnt["oracle_true"] + cnt["oracle_false"]
    ctx.cov["rule"] = ("evaluations = (solver, program, goal) triples whose Unique/NoSolution answer was compared with the verified oracle "
                       "evalR, plus every goal of every history and every single-query conjunction (evalRg); non-trivial = self type is an ADT or has components (fresh solver), "
                       "not the first goal (history); distinct by (solver, program text, goal text / history prefix)")
    ctx.cov["input_distribution"] = {
        "programs": len(progs), "goals": len(cases), "goals_by_trait_kind": dict(fam), "self_type_constructors": dict(ctors),
        "histories": len(hs), "history_goals": hcnt["history_goals"],
        "cycle_fail_family_programs": len(shape_idx), "single_query_conjunctions": len(conjs),
        "conjunction_verdicts": {"true": ccnt["conj_true"], "false": ccnt["conj_false"]},
    }
    ctx.cov["verdict_share"] = {"true": round(cnt["oracle_true"] / max(1, n_ver), 3), "false": round(cnt["oracle_false"] / max(1, n_ver), 3)}
    ctx.cov["clause_correspondence"] = {"equal": cnt["clauses_equal"], "mismatch": cnt["clause_mismatch"], "not_compared": cnt["clauses_not_compared"]}
    ctx.cov["known_class_share"] = {"F7 (share of history goals)": round(hcnt["known_F7"] / max(1, hcnt["history_goals"]), 4),
                                    "F7q (share of fresh SLG answers)": round(cnt["known_F7q"] / max(1, n_ver), 4)}
    ctx.cov["known_class_hits"] = {"F7": hcnt["known_F7"], "F7q": cnt["known_F7q"], "F7/F7q in single-query conjunctions": ccnt["known_conj"]}
    ctx.cov["inconclusive"] = (cnt["oracle_inconclusive"] + hcnt["oracle_inconclusive"] + ccnt["oracle_inconclusive"] + cnt["ambiguous_near_max_size"]
                               + sum(v for k, v in list(cnt.items()) + list(hcnt.items()) + list(ccnt.items()) if k.startswith("solver_")))
    ctx.cov["counters"] = {k: v for k, v in list(cnt.items()) + [("hist:" + k, v) for k, v in hcnt.items()] + [("conj:" + k, v) for k, v in ccnt.items()]}


def replay(ctx, obj):
    if obj.get("kind") == "wrong-answer-in-history":
        core.build_harness(bins=["solve"])
        cases = [pg.case(obj["program"], obj["history"], sv, "History", [("Cpu", 10)]) for _, sv in rl.SOLVERS]
        res = logic.solve_cases(cases, timeout=120)
        for (sname, _), r in zip(rl.SOLVERS, res):
            print(sname + ":", [sx.to_sexp(g[1]) if g[0] != "error" else g[1] for g in r["goals"]] if r["ok"] else r["error"])
        exp = "Unique" if obj.get("oracle") else "NoSolution"
        r = res[0 if obj.get("solver") == "slg" else 1]
        g = r["goals"][obj["position"]] if r["ok"] else None
        return 0 if (g is not None and g[0] != "error" and sx.head(g[1]) == exp) else 1
    return rl.replay_case(ctx, obj)
