"""C17 — combining candidate answers only generalizes."""
import json
import os

from vlib import core, irgen, sx
from vlib.sx import Pair

META = {
    "id": "C17",
    "level": "proof",
    "technique": "Coq theorems (instance_of_spec, aggregate_generalizes, merge_generalizes, merge_all_generalizes, make_solution_covers / _refuted, may_invalidate_conservative / _sound_outside_f1 / _fixed_conservative / _refuted, combine_comm, combine_no_more, with_priorities_comm) over Gallina models of AntiUnifier / merge_into_guidance / is_trivial / MayInvalidate / Solution::combine / with_priorities + differential correspondence through hook H2 + the property evaluated on the implementation's own outputs with the verified matcher instance_of",
    "level_text": "Machine-checked proofs (Coq 8.16, axiom-free) that the model of chalk's anti-unifier and of merge_into_guidance only generalises (every merged answer is an instance of the result, for pairs and sequences), that the model of the may-invalidate check of the code as it is never wrongly says 'cannot change' outside the recorded class F1 (and that the model of the repaired check never does), that Solution::combine is commutative and never claims more than either candidate, and that with_priorities is commutative. 'Instance' is decided by an executable matcher proved equivalent to 'exists a substitution' w.r.t. the C25 model of chalk's Subst::apply. The models are tied to /repo on every run: real AntiUnifier::aggregate_generic_args, merge_into_guidance, is_trivial, Substitution::may_invalidate, AggregateOps::make_solution (over scripted answer streams), Solution::combine, with_priorities, calculate_inputs are called through hook H2 on an exhaustive head-constructor sweep and on generated inputs and compared with the models evaluated in Coq; in addition the property itself is evaluated on the implementation's outputs.",
    "level_note": "Trusted: Coq kernel; hand-written models coq/Agg/*.v (tied by correspondence on generated inputs of bounded size only); harness conversion sexp<->chalk_ir (harness/src/ir.rs, bin/agg.rs). Const types are usize (ChalkIr); substitutions compared have equal kinds position by position. Finding F1 is a recorded class (guidance repeating a variable where the unchanged and the repaired model differ); the repair is kept as corpus/C17/f1_proposed_fix.patch because the pinned suite blesses the defective output (tests/test/projection.rs nested_proj_eq_nested_proj_should_flounder).",
    "design_ref": "DESIGN.md section 4 C17, section 5 F1, section 7 H2",
    "bins": ["agg"],
    "assumptions": ["const types are usize (ChalkIr lowering); the anti-unifier itself does not compare const types",
                    "substitutions merged / compared belong to the same goal: equal length and kinds position by position",
                    "combine / with_priorities commutativity is claimed for two solutions of one goal: two trivially-true solutions are identical",
                    "panic sites are compared as panic / no panic only",
                    "answers handed to make_solution are canonical (binders = the variables used, in order of first occurrence), as every real answer is"],
    "quick_s": 75, "thorough_s": 600,
}

F1_CLASS = "F1-guidance-repeats-var"
N = irgen.node
IMPORTS = ["Ir.Syntax", "Ir.Fold", "Agg.Instance", "Agg.AntiUnify", "Agg.MayInv", "Agg.Solution", "Agg.Loop", "Agg.Check"]
U8 = N(("HScalar", ("Uint", "U8")))
I32 = N(("HScalar", ("Int", "I32")))
U32 = N(("HScalar", ("Uint", "U32")))
BOOL = N(("HScalar", "Bool"))
STR = N("HStr")
USIZE = irgen.USIZE
KINDS3 = [("VTy", "General"), "VLt", "VConst"]


def binders(n, u=0):
    """Disciplined canonical binders: index i has kind i % 3 (type, lifetime, const)."""
    return [Pair(KINDS3[i % 3], u) for i in range(n)]


B6 = binders(6)


def gkind(t):
    if t[0] == "Var":
        return "T" if t[1] == "STy" else "L"
    if t[0] == "CVar":
        return "C"
    h = irgen.head_name(t)
    if h in ("HLInfer", "HLPlaceholder", "HLStatic", "HLErased", "HLError"):
        return "L"
    if h in ("HCInfer", "HCPlaceholder", "HCConcrete"):
        return "C"
    return "T"


# ---------------------------------------------------------------------------------------------
# generators
# ---------------------------------------------------------------------------------------------

ARITY = {"HAdt": 3, "HAssocTy": 2, "HOpaqueTy": 2, "HFnDef": 2, "HClosure": 2, "HCoroutine": 2, "HCoroutineWitness": 2,
         "HProjection": 2, "HOpaqueAlias": 2}


def normalize(t):
    """Give every id-carrying head a fixed number of arguments (id % ARITY, projections >= 1), so that two
    terms with the same name take the same number of arguments, as in well-formed chalk IR."""
    if t[0] != "Node":
        return t
    h, cs = t[1], [normalize(c) for c in t[2]]
    name = h if isinstance(h, str) else h[0]
    if name in ARITY:
        want = h[1] % ARITY[name] + (1 if name == "HProjection" else 0)
        cs = cs[:want] + [U8] * (want - len(cs))
    return ("Node", h, cs)


class Gen:
    def __init__(self, rng, depth):
        self.r = rng
        # patterns: canonical values, variables ^0.i (kind i % 3), no inference variables
        self.pat = irgen.IrGen(rng, max_depth=depth, max_width=2, free_levels=1, disciplined=True, infer=False, errors=False, leaf_bias=0.4)
        self.gnd = irgen.IrGen(rng, max_depth=depth, max_width=2, free_levels=0, disciplined=True, infer=False, errors=False, leaf_bias=0.4)
        self.flat = irgen.IrGen(rng, max_depth=depth, max_width=2, free_levels=1, disciplined=True, infer=False, errors=False, leaf_bias=0.4,
                                dyn=False, fnptr=False)

    def term(self, g, k, d=None):
        t = g.ty(d) if k == "T" else (g.lifetime(0) if k == "L" else g.const(0))
        return normalize(t)

    def kind(self):
        x = self.r.random()
        return "T" if x < 0.75 else ("L" if x < 0.85 else "C")

    def mutate(self, t, p, g):
        """A term of the same kind that shares structure with t."""
        if self.r.random() < p:
            return self.term(g, gkind(t), 2)
        if t[0] == "Node":
            name = irgen.head_name(t)
            if name in ("HDyn", "HFnPtr") or gkind(t) == "C":
                return t
            if self.r.random() < p / 3 and isinstance(t[1], tuple) and t[1][0] in ("HAdt", "HRef", "HRaw", "HScalar", "HPlaceholder"):
                hn = t[1][0]
                if hn == "HAdt":
                    alt = ("HAdt", (t[1][1] + 3) % 6)
                elif hn in ("HRef", "HRaw"):
                    alt = (hn, "Mut" if t[1][1] == "Not" else "Not")
                elif hn == "HScalar":
                    alt = ("HScalar", "Char")
                else:
                    alt = ("HPlaceholder", t[1][1], t[1][2] + 1)
                return normalize(("Node", alt, [self.mutate(c, p, g) for c in t[2]]))
            return ("Node", t[1], [self.mutate(c, p, g) if gkind(c) in "TLC" and irgen.head_name(c) != "HBinders" else c for c in t[2]])
        return t

    def instantiate(self, t, env, consistent=True):
        """Replace the canonical variables (depth 0, outside binders) of a flat pattern."""
        if t[0] in ("Var", "CVar"):
            i = t[3] if t[0] == "Var" else t[2]
            if consistent:
                if i not in env:
                    env[i] = self.term(self.gnd, gkind(t), 2)
                return env[i]
            return self.term(self.gnd, gkind(t), 2)
        if irgen.head_name(t) in ("HDyn", "HFnPtr"):
            return t
        return ("Node", t[1], [self.instantiate(c, env, consistent) for c in t[2]])

    def linearize(self, ts):
        """Rename the canonical variables of flat patterns so that none is repeated."""
        cnt = [0]

        def go(t):
            if t[0] in ("Var", "CVar"):
                k = "TLC".index(gkind(t))
                i = 3 * cnt[0] + k
                cnt[0] += 1
                return ("Var", t[1], 0, i) if t[0] == "Var" else ("CVar", 0, i, USIZE)
            if irgen.head_name(t) in ("HDyn", "HFnPtr"):
                return t
            return ("Node", t[1], [go(c) for c in t[2]])
        out = [go(t) for t in ts]
        return out, 3 * cnt[0] + 3

    def pattern_list(self, kinds, flat=True):
        g = self.flat if flat else self.pat
        return [self.term(g, k) for k in kinds]


def max_var(ts):
    m = -1
    for t in ts:
        for s in irgen.subterms(t):
            if s[0] == "Var":
                m = max(m, s[3])
            elif s[0] == "CVar":
                m = max(m, s[2])
    return m


def ty_reps():
    c3 = N(("HCConcrete", 3), [USIZE])
    c4 = N(("HCConcrete", 4), [USIZE])
    tr = lambda i: N("HDyn", [N(("HBinders", [("VTy", "General")]), [N("HList", [N(("HBinders", []), [N("HImplemented", [N(("HTraitRef", i), [("Var", "STy", 1, 0)])])])])]), N("HLStatic")])
    fp = lambda nb, args: N(("HFnPtr", nb, "AbiRust", "Safe", False), args)
    reps = [
        N(("HAdt", 1), [I32]), N(("HAdt", 1), [U32]), N(("HAdt", 4), [I32]), N(("HAdt", 1), [I32, U8]), N(("HAdt", 0), []),
        N(("HAssocTy", 1), [I32]), N(("HAssocTy", 1), [U32]), N(("HAssocTy", 3), [I32]),
        I32, U32, BOOL, N(("HScalar", ("Float", "F64"))),
        N(("HTuple", 2), [I32, U8]), N(("HTuple", 2), [I32, STR]), N(("HTuple", 1), [I32]), N(("HTuple", 0), []),
        N("HArray", [I32, c3]), N("HArray", [U32, c4]), N("HArray", [I32, ("CVar", 0, 2, USIZE)]),
        N("HSlice", [I32]), N("HSlice", [U32]),
        N(("HRaw", "Mut"), [I32]), N(("HRaw", "Not"), [I32]), N(("HRaw", "Mut"), [U32]),
        N(("HRef", "Not"), [N("HLStatic"), I32]), N(("HRef", "Not"), [N("HLErased"), I32]), N(("HRef", "Mut"), [N("HLStatic"), I32]),
        N(("HRef", "Not"), [N("HLStatic"), U32]), N(("HRef", "Not"), [("Var", "SLt", 0, 1), I32]),
        N(("HOpaqueTy", 1), [I32]), N(("HOpaqueTy", 1), [U32]), N(("HOpaqueTy", 3), [I32]),
        N(("HFnDef", 1), [I32]), N(("HFnDef", 1), [U32]), N(("HFnDef", 3), [I32]),
        STR, N("HNever"),
        N(("HClosure", 1), [I32]), N(("HClosure", 1), [U32]), N(("HClosure", 3), [I32]),
        N(("HCoroutine", 1), [I32]), N(("HCoroutine", 1), [U32]), N(("HCoroutine", 3), [I32]),
        N(("HCoroutineWitness", 1), [I32]), N(("HCoroutineWitness", 1), [U32]), N(("HCoroutineWitness", 3), [I32]),
        N(("HForeign", 0)), N(("HForeign", 1)), N("HError"),
        N(("HPlaceholder", 0, 0)), N(("HPlaceholder", 1, 0)), N(("HPlaceholder", 0, 1)),
        tr(0), tr(1),
        N(("HProjection", 0), [I32]), N(("HProjection", 0), [U32]), N(("HProjection", 2), [I32]),
        N(("HOpaqueAlias", 1), [I32]), N(("HOpaqueAlias", 1), [U32]), N(("HOpaqueAlias", 3), [I32]),
        fp(0, [I32, U8]), fp(0, [U32, U8]), fp(1, [N(("HRef", "Not"), [("Var", "SLt", 0, 0), I32]), U8]),
        N(("HInfer", 1000, "General")), N(("HInfer", 1001, "General")), N(("HInfer", 1000, "Integer")),
        ("Var", "STy", 0, 0), ("Var", "STy", 0, 3),
    ]
    return reps


def lt_reps():
    return [N("HLStatic"), N("HLErased"), N("HLError"), N(("HLPlaceholder", 0, 0)), N(("HLPlaceholder", 1, 0)),
            N(("HLInfer", 1000)), N(("HLInfer", 1001)), ("Var", "SLt", 0, 1), ("Var", "SLt", 0, 4)]


def const_reps():
    return [N(("HCConcrete", 3), [USIZE]), N(("HCConcrete", 4), [USIZE]), N(("HCPlaceholder", 0, 0), [USIZE]), N(("HCPlaceholder", 1, 0), [USIZE]),
            N(("HCInfer", 1000), [USIZE]), N(("HCInfer", 1001), [USIZE]), ("CVar", 0, 2, USIZE), ("CVar", 0, 5, USIZE)]


# ---------------------------------------------------------------------------------------------
# harness / coq plumbing
# ---------------------------------------------------------------------------------------------

def parse(o):
    """Harness line -> python value; panics become ('Panic','OtherPanic'); None if the case could not run."""
    try:
        v = sx.parse_sexp(o)
    except Exception:
        return None
    if isinstance(v, tuple) and not isinstance(v, Pair) and v[0] == "Panic":
        return ("Panic", "OtherPanic")
    if v == "Timeout" or (isinstance(v, tuple) and not isinstance(v, Pair) and v[0] in ("BadInput", "Abort")):
        return None
    return v


def is_panic(v):
    return isinstance(v, tuple) and not isinstance(v, Pair) and len(v) == 2 and v[0] == "Panic"


def hrun(cases, timeout=600):
    outs = core.run_harness("agg", cases, timeout=timeout)
    res = [parse(o) for o in outs]
    for c, o, r in zip(cases, outs, res):
        if r is None:
            raise core.CheckFailure("harness could not run case %s: %s" % (sx.to_sexp(c)[:400], o))
    return res


def okres(v):
    return v if is_panic(v) else ("Ok", v)


def coq_bad(ctx, tag, fn, eqb, in_ty, out_ty, pairs):
    if not pairs:
        return []
    return core.coq_mismatches(ctx.work, tag, IMPORTS, fn=fn, eqb=eqb, in_ty=in_ty, out_ty=out_ty, pairs=pairs,
                               shard=max(300, (len(pairs) + 11) // 12))


def coq_bools(ctx, tag, fn, in_ty, inputs):
    """Evaluate a boolean Coq function on inputs: list of python bools."""
    bad = set(coq_bad(ctx, tag, fn, "Bool.eqb", in_ty, "bool", [(x, True) for x in inputs]))
    return [i not in bad for i in range(len(inputs))]


def coq_verdicts(ctx, tag, fn, in_ty, inputs):
    """Evaluate an N-valued verdict function (0 / 1 / 2) with at most two Coq runs."""
    bad0 = coq_bad(ctx, tag + "0", fn, "N.eqb", in_ty, "N", [(x, 0) for x in inputs])
    out = [0] * len(inputs)
    if bad0:
        bad1 = set(coq_bad(ctx, tag + "1", fn, "N.eqb", in_ty, "N", [(inputs[i], 1) for i in bad0]))
        for k, i in enumerate(bad0):
            out[i] = 2 if k in bad1 else 1
    return out


def agg_expected(u, out):
    if is_panic(out):
        return out
    kinds, t = out
    return ("Ok", Pair([Pair(k, u) for k in kinds], t))


# ---------------------------------------------------------------------------------------------
# the run
# ---------------------------------------------------------------------------------------------

class State:
    def __init__(self, ctx):
        self.ctx = ctx
        self.viol = 0
        self.mism = {}
        self.known = 0

    def violation(self, obj, **kw):
        if self.viol < 4:
            self.ctx.violation(obj, **kw)
        self.viol += 1


def shrink_cands(t):
    """Strictly smaller terms of the same kind (sub-terms of the same kind pulled up, or one child shrunk);
    const types and binder-carrying subterms are left alone."""
    out = []
    if t[0] != "Node" or gkind(t) == "C" or irgen.head_name(t) in ("HDyn", "HFnPtr"):
        if gkind(t) == "T" and t[0] == "Node":
            out.append(U8)
        return out
    k = gkind(t)
    for c in t[2]:
        if c[0] in ("Node", "Var", "CVar") and irgen.head_name(c) not in ("HBinders", "HList") and gkind(c) == k:
            out.append(c)
    if k == "T" and t != U8:
        out.append(U8)
    for i, c in enumerate(t[2]):
        if irgen.head_name(c) in ("HBinders", "HList"):
            continue
        for c2 in shrink_cands(c):
            out.append(("Node", t[1], t[2][:i] + [c2] + t[2][i + 1:]))
    return out


def shrink_terms(terms, fails, rounds=12):
    """Greedy delta debugging of a list of terms (kinds preserved); `fails(list_of_candidate_lists) -> list of bools`."""
    cur = list(terms)
    for _ in range(rounds):
        cands = []
        for i, t in enumerate(cur):
            for c in shrink_cands(t):
                if irgen.tsize(c) < irgen.tsize(t):
                    cands.append(cur[:i] + [c] + cur[i + 1:])
        cands = cands[:80]
        if not cands:
            break
        res = fails(cands)
        nxt = [c for c, f in zip(cands, res) if f]
        if not nxt:
            break
        cur = min(nxt, key=lambda l: sum(irgen.tsize(t) for t in l))
    return cur


def stage_aggregate(ctx, st, G):
    r = ctx.rng
    cases = []   # (family, u, a, b)
    reps = ty_reps()
    for a in reps:
        for b in reps:
            cases.append(("sweep-ty", 1, a, b))
    for a in lt_reps():
        for b in lt_reps():
            cases.append(("sweep-lt", 2, a, b))
    for a in const_reps():
        for b in const_reps():
            cases.append(("sweep-const", 0, a, b))
    for _ in range(ctx.n(1200, 30000)):
        k = G.kind()
        a = G.term(G.pat, k)
        x = r.random()
        if x < 0.6:
            b = G.mutate(a, 0.25, G.pat)
        elif x < 0.8:
            b = G.instantiate(a, {}) if k == "T" else G.mutate(a, 0.5, G.pat)
        else:
            b = G.term(G.pat, k)
        cases.append(("random", r.randrange(4), a, b))
    outs = hrun([("Agg", u, a, b) for _, u, a, b in cases])
    for (fam, u, a, b), o in zip(cases, outs):
        ctx.count("aggregate:" + fam, sx.to_sexp([a, b]), nontrivial=(not is_panic(o)) and a != b and irgen.tsize(a) > 1)
    ctx.sample({"op": "Agg", "a": sx.to_sexp(cases[-1][2])[:300], "b": sx.to_sexp(cases[-1][3])[:300], "real": sx.to_sexp(outs[-1])[:300]})
    # one Coq pass: (a) model == implementation, (b) the property on the implementation alone: both inputs are
    # instances (by the verified matcher) of the REAL output
    codes = coq_verdicts(ctx, "agg", "chk_agg_code", "(N * (tm * tm)) * res (binders * tm)",
                         [Pair(Pair(u, Pair(a, b)), agg_expected(u, o)) for (_, u, a, b), o in zip(cases, outs)])
    for i, code in enumerate(codes):
        if code != 2:
            continue
        if st.viol < 3:
            fam, u, a, b = cases[i]

            def fails(cands, u=u):
                o2 = hrun([("Agg", u, c[0], c[1]) for c in cands])
                ii = [k for k, o in enumerate(o2) if not is_panic(o)]
                g2 = coq_bools(ctx, "agg_shr", "chk_inst2", "(tm * tm) * tm", [Pair(Pair(cands[k][0], cands[k][1]), o2[k][1]) for k in ii])
                res = [False] * len(cands)
                for k, g in zip(ii, g2):
                    res[k] = not g
                return res
            a2, b2 = shrink_terms([a, b], fails)
            o2 = hrun([("Agg", u, a2, b2)])[0]
            st.violation({"kind": "property", "law": "aggregate_generalizes", "op": "Agg", "universe": u, "a": sx.to_sexp(a2), "b": sx.to_sexp(b2),
                          "real_output": sx.to_sexp(o2), "original": sx.to_sexp([a, b])[:2000],
                          "what": "an argument of AntiUnifier::aggregate_generic_args is not an instance of its result"})
        else:
            st.viol += 1
    bad = [i for i, c in enumerate(codes) if c == 1]
    st.mism["aggregate"] = [("Agg",) + cases[i][1:] for i in bad]
    ctx.cov["families"].setdefault("model==impl:aggregate", {"cases": len(cases), "nontrivial": sum(1 for o in outs if not is_panic(o))})["mismatches"] = len(bad)


def gen_answers(ctx, G, n_pos):
    """A (possibly non-linear) first answer and related later answers of the same kinds."""
    r = ctx.rng
    kinds = [G.kind() for _ in range(n_pos)]
    first = G.pattern_list(kinds)
    if r.random() < 0.5:
        first, _ = G.linearize(first)
    answers = []
    for _ in range(r.randint(1, 4)):
        x = r.random()
        if x < 0.4:
            env = {}
            answers.append([G.instantiate(t, env) for t in first])
        elif x < 0.7:
            answers.append([G.mutate(t, 0.2, G.gnd) for t in (answers[-1] if answers and r.random() < 0.5 else [G.instantiate(t, {}) for t in first])])
        elif x < 0.85:
            answers.append([G.instantiate(t, {}, consistent=False) for t in first])
        else:
            answers.append([G.term(G.pat, k) for k in kinds])
    root = [Pair(KINDS3["TLC".index(k)], r.randrange(3)) for k in kinds]
    return root, first, answers


def cs(values):
    return Pair(binders(max(max_var(values) + 1, 0)), values)


def stage_merge(ctx, st, G):
    r = ctx.rng
    seqs = []
    for _ in range(ctx.n(500, 12000)):
        root, first, answers = gen_answers(ctx, G, r.randint(1, 4))
        seqs.append((root, [first] + answers))
    # corpus-like fixed cases: repeated variables, short root (slice index panic), lifetimes at top level
    seqs.append(([Pair(("VTy", "General"), 0)] * 2, [[N(("HAdt", 1), [("Var", "STy", 0, 0)]), ("Var", "STy", 0, 0)], [N(("HAdt", 1), [I32]), U32]]))
    seqs.append(([Pair(("VTy", "General"), 0)], [[I32, U32], [I32, I32]]))
    seqs.append(([Pair("VLt", 1), Pair(("VTy", "General"), 2)], [[N("HLStatic"), I32], [N("HLStatic"), I32], [N("HLErased"), U32]]))
    cases = [("MergeSeq", root, [cs(v) for v in vals]) for root, vals in seqs]
    outs = hrun(cases)
    for (root, vals), o in zip(seqs, outs):
        ctx.count("merge:sequence", sx.to_sexp(vals), nontrivial=not is_panic(o) and len(vals) > 1)
        ctx.count("merge:pair", sx.to_sexp(vals[:2]), nontrivial=not is_panic(o))
    ctx.sample({"op": "MergeSeq", "answers": sx.to_sexp(seqs[0][1])[:400], "real": sx.to_sexp(outs[0])[:400]})
    # one Coq pass: model == implementation and (b) every answer merged so far is an instance of the real guidance at that point
    codes = coq_verdicts(ctx, "mergeseq", "chk_mergeseq_code", "(binders * list csubst) * res (list csubst)",
                         [Pair(Pair(c[1], c[2]), okres(o)) for c, o in zip(cases, outs)])
    for k, code in enumerate(codes):
        if code != 2:
            continue
        if st.viol < 3:
            root, vals = seqs[k]

            def fails_seq(cand_seqs, root=root):
                o2 = hrun([("MergeSeq", root, [cs(v) for v in c]) for c in cand_seqs])
                cc = coq_verdicts(ctx, "merge_shr", "chk_mergeseq_code", "(binders * list csubst) * res (list csubst)",
                                  [Pair(Pair(root, [cs(v) for v in c]), okres(o)) for c, o in zip(cand_seqs, o2)])
                return [x == 2 for x in cc]
            # drop answers, then shrink terms
            progress = True
            while progress and len(vals) > 2:
                progress = False
                cands = [vals[:m] + vals[m + 1:] for m in range(len(vals))]
                for c, ff in zip(cands, fails_seq(cands)):
                    if ff:
                        vals, progress = c, True
                        break
            npos = len(vals[0])
            flat = [t for v in vals for t in v]
            nv = len(vals)
            shr = shrink_terms(flat, lambda cl: fails_seq([[c[m * npos:(m + 1) * npos] for m in range(nv)] for c in cl]), rounds=8)
            vals = [shr[m * npos:(m + 1) * npos] for m in range(nv)]
            o2 = hrun([("MergeSeq", root, [cs(v) for v in vals])])[0]
            st.violation({"kind": "property", "law": "merge_all_generalizes", "op": "MergeSeq", "root": sx.to_sexp(root), "answers": [sx.to_sexp(v) for v in vals],
                          "real_output": sx.to_sexp(o2)[:3000],
                          "what": "an answer merged by merge_into_guidance is not an instance of the resulting guidance"})
        else:
            st.viol += 1
    bad = [i for i, c in enumerate(codes) if c == 1]
    st.mism["merge"] = [cases[i] for i in bad]
    ctx.cov["families"].setdefault("model==impl:merge", {"cases": len(cases), "nontrivial": len(cases)})["mismatches"] = len(bad)


def stage_is_trivial(ctx, st, G):
    r = ctx.rng
    cases = []
    for _ in range(ctx.n(300, 6000)):
        n = r.randint(0, 4)
        x = r.random()
        if x < 0.4:
            kinds = [r.choice("TTC") for _ in range(n)]
            vals = [("Var", "STy", 0, i) if k == "T" else ("CVar", 0, i, USIZE) for i, k in enumerate(kinds)]
            if r.random() < 0.4 and n:
                j = r.randrange(n)
                vals[j] = r.choice([("Var", "STy", 0, (j + 1) % 4), ("Var", "SLt", 0, j), I32, ("Var", "STy", 1, j), N(("HCConcrete", 1), [USIZE])])
        else:
            vals = [G.term(G.pat, G.kind(), 2) for _ in range(n)]
        b = [Pair(r.choice(KINDS3), r.randrange(3)) for _ in range(n)]
        cases.append(Pair(b, vals))
    outs = hrun([("IsTrivial", c) for c in cases])
    for c, o in zip(cases, outs):
        ctx.count("is_trivial", sx.to_sexp(c[1]), nontrivial=len(c[1]) > 0)
    bad = coq_bad(ctx, "istriv", "is_trivial", "Bool.eqb", "csubst", "bool", [(c, o) for c, o in zip(cases, outs) if isinstance(o, bool)])
    st.mism["is_trivial"] = [("IsTrivial", cases[i]) for i in bad]
    ctx.cov["families"].setdefault("model==impl:is_trivial", {"cases": len(cases), "nontrivial": len(cases)})["mismatches"] = len(bad)


def mayinv_eval(ctx, tag, pairs, detail=False):
    """For (new, cur_values) pairs: real may_invalidate, and where it says false the real merge and the
    Coq-evaluated verdict of the property on the real outputs.  Returns list of dicts."""
    mi = hrun([("MayInv", new, cs(cur)) for new, cur in pairs])
    res = [{"mi": m, "holds": True, "f1": False} for m in mi]
    idx = [i for i, m in enumerate(mi) if m is False]
    roots = [[Pair(KINDS3["TLC".index(gkind(t))], 0) for t in pairs[i][1]] for i in idx]
    mg = hrun([("Merge", roots[j], cs(pairs[i][1]), cs(pairs[i][0])) for j, i in enumerate(idx)])
    ok_idx = [(j, i) for j, i in enumerate(idx) if not is_panic(mg[j])]
    q = [Pair(Pair(pairs[i][0], pairs[i][1]), mg[j][1]) for j, i in ok_idx]
    ver = coq_verdicts(ctx, tag + "_v", "chk_mi_verdict", "(list tm * list tm) * list tm", q)
    for (j, i), v in zip(ok_idx, ver):
        res[i].update({"merged": mg[j], "verdict": v, "holds": v == 0, "f1": v == 1})
    if detail:
        var = coq_bools(ctx, tag + "_var", "chk_variant", "list tm * list tm", [Pair(mg[j][1], pairs[i][1]) for j, i in ok_idx])
        inst = coq_bools(ctx, tag + "_inst", "chk_inst_list", "list tm * list tm", [Pair(pairs[i][0], pairs[i][1]) for j, i in ok_idx])
        rep = coq_bools(ctx, tag + "_rep", "chk_repeats", "list tm", [pairs[i][1] for j, i in ok_idx])
        for (j, i), v, s_, rp in zip(ok_idx, var, inst, rep):
            res[i].update({"variant": v, "instance": s_, "repeats": rp})
    for j, i in enumerate(idx):
        if is_panic(mg[j]):
            res[i].update({"merged": mg[j], "merge_panicked": True})
    return res


def stage_may_invalidate(ctx, st, G):
    r = ctx.rng
    pairs = []   # (family, new, cur)
    for a in ty_reps():
        for b in ty_reps():
            pairs.append(("sweep-ty", [a], [b]))
    for a in lt_reps():
        for b in lt_reps():
            pairs.append(("sweep-lt", [a], [b]))
    for a in const_reps():
        for b in const_reps():
            pairs.append(("sweep-const", [a], [b]))
    for _ in range(ctx.n(1500, 40000)):
        n = r.randint(1, 3)
        kinds = [r.choice("TTTTC") for _ in range(n)]
        cur = G.pattern_list(kinds)
        lin = r.random() < 0.55
        if lin:
            cur, _ = G.linearize(cur)
        x = r.random()
        if x < 0.45:
            env = {}
            new = [G.instantiate(t, env) for t in cur]
        elif x < 0.65:
            new = [G.instantiate(t, {}, consistent=False) for t in cur]
        elif x < 0.9:
            env = {}
            new = [G.mutate(G.instantiate(t, env), 0.12, G.pat) for t in cur]
        else:
            new = [G.term(G.pat, k, 2) for k in kinds]
        pairs.append(("random-linear" if lin else "random-repeating", new, cur))
    pairs.append(("corpus", [N(("HAdt", 1), [I32]), U32], [N(("HAdt", 1), [("Var", "STy", 0, 0)]), ("Var", "STy", 0, 0)]))      # F1
    pairs.append(("corpus", [N(("HAdt", 1), [I32]), I32], [N(("HAdt", 1), [("Var", "STy", 0, 0)]), ("Var", "STy", 0, 0)]))
    pairs.append(("corpus", [N("HArray", [I32, N(("HCConcrete", 1), [USIZE])]), N("HArray", [I32, N(("HCConcrete", 2), [USIZE])])],
                  [N("HArray", [I32, ("CVar", 0, 2, USIZE)]), N("HArray", [I32, ("CVar", 0, 2, USIZE)])]))
    mi = hrun([("MayInv", new, cs(cur)) for _, new, cur in pairs])
    idx = [i for i, m in enumerate(mi) if m is False]
    mg = hrun([("Merge", [Pair(KINDS3["TLC".index(gkind(t))], 0) for t in pairs[i][2]], cs(pairs[i][2]), cs(pairs[i][1])) for i in idx])
    merged = ["None"] * len(pairs)
    for j, i in enumerate(idx):
        if not is_panic(mg[j]):
            merged[i] = ("Some", mg[j][1])
    nfalse = len(idx)
    for (fam, new, cur), m in zip(pairs, mi):
        ctx.count("may_invalidate:" + fam, sx.to_sexp([new, cur]), nontrivial=m is False)
    ctx.sample({"op": "MayInv", "new": sx.to_sexp(pairs[-3][1]), "cur": sx.to_sexp(pairs[-3][2]), "real": sx.to_sexp(mi[-3]), "merged": sx.to_sexp(merged[-3])[:300]})
    ctx.cov["may_invalidate_false_share"] = round(nfalse / max(1, len(pairs)), 3)
    # one Coq pass. code = (unchanged model differs ? 1 : 0) + 4 * verdict, verdict of the property on the REAL outputs:
    # "cannot change" => the answer is an instance of the guidance and (unless the guidance repeats a variable) really
    # merging it leaves the guidance unchanged up to renaming; 1 = fails inside the known class F1, 2 = fails outside
    TY = "((list tm * csubst) * res bool) * option (list tm)"
    inp = [Pair(Pair(Pair(new, cs(cur)), okres(m)), mo) for (_, new, cur), m, mo in zip(pairs, mi, merged)]
    bad0 = coq_bad(ctx, "mi0", "chk_mi_code", "N.eqb", TY, "N", [(x, 0) for x in inp])
    verdict = [0] * len(pairs)
    old_bad = []
    if bad0:
        bad4 = coq_bad(ctx, "mi4", "chk_mi_code", "N.eqb", TY, "N", [(inp[i], 4) for i in bad0])
        rest = [bad0[k] for k in bad4]
        for i in set(bad0) - set(rest):
            verdict[i] = 1
        if rest:   # rare: look at the two components separately
            ob = set(coq_bad(ctx, "mi_old", "(chk_mayinv MOld)", "(rs_eqb Bool.eqb)", "list tm * csubst", "res bool", [(inp[i][0][0], inp[i][0][1]) for i in rest]))
            old_bad = [rest[k] for k in sorted(ob)]
            vi = [i for i in rest if merged[i] != "None"]
            vv = coq_verdicts(ctx, "mi_v", "chk_mi_verdict", "(list tm * list tm) * list tm", [Pair(Pair(pairs[i][1], pairs[i][2]), merged[i][1]) for i in vi])
            for i, v in zip(vi, vv):
                verdict[i] = v
    known_hits = 0
    for i, ((fam, new, cur), v) in enumerate(zip(pairs, verdict)):
        if v == 0:
            continue
        if v == 1:
            known_hits += 1
            f = ctx.match_known(None, F1_CLASS)
            if f is not None:
                ctx.known_finding(f, "e.g. new=%s current=%s: may_invalidate=false, merged guidance %s" % (sx.to_sexp(new)[:160], sx.to_sexp(cur)[:160], sx.to_sexp(merged[i][1])[:160]))
                continue
        if st.viol < 3:
            def fails(cands, k=len(new)):
                rr = mayinv_eval(ctx, "mi_shr", [(c[:k], c[k:]) for c in cands])
                return [x["mi"] is False and x.get("verdict", 0) == v for x in rr]
            sh = shrink_terms(new + cur, fails, rounds=8)
            new2, cur2 = sh[:len(new)], sh[len(new):]
            r2 = mayinv_eval(ctx, "mi_rep", [(new2, cur2)], detail=True)[0]
            st.violation({"kind": "property", "law": "may_invalidate_conservative", "op": "MayInv", "new": sx.to_sexp(new2), "current": sx.to_sexp(cur2),
                          "real_may_invalidate": False, "real_merged_guidance": sx.to_sexp(r2.get("merged", "n/a"))[:2000],
                          "new_is_instance_of_current": r2.get("instance"), "merged_is_variant_of_current": r2.get("variant"),
                          "current_repeats_var": r2.get("repeats"), "in_known_class_F1": r2.get("f1"),
                          "original": sx.to_sexp([new, cur])[:2000],
                          "what": "may_invalidate says the answer cannot change the guidance, but the answer is not an instance of the guidance / merging it changes the guidance"})
        else:
            st.viol += 1
    ctx.cov["known_class_share"] = round(known_hits / max(1, nfalse), 4)
    ctx.cov["known_class_cases"] = known_hits
    # (a) model == implementation: the code as it is (MOld) or the repaired code (MFix), consistently
    mode, bad = "unchanged", old_bad
    if old_bad:
        bad_fix = coq_bad(ctx, "mi_fix", "(chk_mayinv MFix)", "(rs_eqb Bool.eqb)", "list tm * csubst", "res bool", [(x[0][0], x[0][1]) for x in inp])
        if not bad_fix:
            mode, bad = "repaired", []
        else:
            mode, bad = "neither", (old_bad if len(old_bad) <= len(bad_fix) else bad_fix)
    ctx.cov["may_invalidate_model"] = mode
    st.mism["may_invalidate"] = [("MayInv", pairs[i][1], cs(pairs[i][2])) for i in bad]
    ctx.cov["families"].setdefault("model==impl:may_invalidate", {"cases": len(pairs), "nontrivial": nfalse})["mismatches"] = len(bad)


def canon_cs(values):
    """Canonical form of a flat pattern list: binders are exactly the variables used, numbered by first occurrence
    (what every real answer looks like; make_solution re-canonicalises its first answer through Canonical::map)."""
    m, bs = {}, []

    def go(t):
        if t[0] in ("Var", "CVar"):
            i = t[3] if t[0] == "Var" else t[2]
            if i not in m:
                m[i] = len(bs)
                bs.append(Pair(KINDS3["TLC".index(gkind(t))], 0))
            return ("Var", t[1], 0, m[i]) if t[0] == "Var" else ("CVar", 0, m[i], USIZE)
        if irgen.head_name(t) in ("HDyn", "HFnPtr"):
            return t
        return ("Node", t[1], [go(c) for c in t[2]])
    vals = [go(t) for t in values]
    return Pair(bs, vals)


def stage_make_solution(ctx, st, G):
    """AggregateOps::make_solution over scripted answer streams."""
    r = ctx.rng
    scripts = []
    for _ in range(ctx.n(350, 8000)):
        root, first, answers = gen_answers(ctx, G, r.randint(1, 3))
        if any(gkind(t) == "L" for t in first) and r.random() < 0.7:
            continue   # lifetimes make every check say "may change"; keep a few
        evs = [("EAnswer", canon_cs(first), [], r.random() < 0.15)]
        for a in answers:
            x = r.random()
            if x < 0.06:
                evs.append("EFloundered")
            elif x < 0.1:
                evs.append("EQuantum")
            evs.append(("EAnswer", cs(a), [], r.random() < 0.1))
        if r.random() < 0.1:
            evs = evs[:1]
        if r.random() < 0.04:
            evs.insert(0, r.choice(["EFloundered", "EQuantum"]))
        strands = []
        if r.random() < 0.3:
            env = {}
            strands.append([G.instantiate(t, env, consistent=r.random() < 0.6) for t in canon_cs(first)[1]])
        scripts.append((root, evs, strands))
    f1 = [N(("HAdt", 1), [("Var", "STy", 0, 0)]), ("Var", "STy", 0, 0)]
    r2 = [Pair(("VTy", "General"), 0)] * 2
    scripts.append((r2, [("EAnswer", canon_cs(f1), [], False), ("EAnswer", cs([N(("HAdt", 1), [I32]), U32]), [], False)], []))          # F1
    scripts.append((r2, [("EAnswer", canon_cs(f1), [], False), ("EAnswer", cs([N(("HAdt", 1), [I32]), I32]), [], False)], []))
    scripts.append((r2, [("EAnswer", canon_cs(f1), [], False)], [[N(("HAdt", 1), [I32]), U32]]))
    scripts.append(([], [], []))
    cases = [("MakeSolution", root, evs, strands) for root, evs, strands in scripts]
    outs = hrun(cases)
    for c, o in zip(cases, outs):
        ctx.count("make_solution", sx.to_sexp(list(c[1:])), nontrivial=not is_panic(o) and len(c[2]) > 1)
    ctx.sample({"op": "MakeSolution", "script": sx.to_sexp(list(cases[-4][1:]))[:500], "real": sx.to_sexp(outs[-4])[:300]})
    TY = "((binders * list event) * list (list tm)) * res (option solution)"
    inp = [Pair(Pair(Pair(root, evs), strands), okres(o)) for (root, evs, strands), o in zip(scripts, outs)]
    ver = coq_verdicts(ctx, "ms_v", "chk_ms_verdict", TY, inp)
    known = 0
    for (root, evs, strands), o, v in zip(scripts, outs, ver):
        if v == 0:
            continue
        if v == 1:
            known += 1
            f = ctx.match_known(None, F1_CLASS)
            if f is not None:
                ctx.known_finding(f, "make_solution over the answers %s returns %s" % (sx.to_sexp(evs)[:300], sx.to_sexp(o)[:200]))
                continue
        if st.viol < 3:
            # minimise: drop events after the first, then strands, while the verdict stays the same
            def verdict_of(cands):
                oo = hrun([("MakeSolution", root, e, s_) for e, s_ in cands])
                return [x == v for x in coq_verdicts(ctx, "ms_shr", "chk_ms_verdict", TY,
                                                     [Pair(Pair(Pair(root, e), s_), okres(q)) for (e, s_), q in zip(cands, oo)])]
            progress = True
            while progress:
                progress = False
                cands = [(evs[:k] + evs[k + 1:], strands) for k in range(1, len(evs))] + [(evs, strands[:k] + strands[k + 1:]) for k in range(len(strands))]
                if not cands:
                    break
                for c, keep in zip(cands, verdict_of(cands)):
                    if keep:
                        evs, strands, progress = c[0], c[1], True
                        break
            o = hrun([("MakeSolution", root, evs, strands)])[0]
        st.violation({"kind": "property", "law": "make_solution_covers", "op": "MakeSolution", "root": sx.to_sexp(root), "events": sx.to_sexp(evs), "strands": sx.to_sexp(strands),
                      "real_output": sx.to_sexp(o), "in_known_class_F1": v == 1,
                      "what": "make_solution returns definite guidance of which an answer of the stream is not an instance"})
    ctx.cov["make_solution_known_class_cases"] = known
    exp = [(x[0], x[1]) for x in inp]
    bad_old = coq_bad(ctx, "ms_old", "(chk_ms MOld)", "(rs_eqb osol_eqb)", "(binders * list event) * list (list tm)", "res (option solution)", exp)
    mode, bad = "unchanged", bad_old
    if bad_old:
        bad_fix = coq_bad(ctx, "ms_fix", "(chk_ms MFix)", "(rs_eqb osol_eqb)", "(binders * list event) * list (list tm)", "res (option solution)", exp)
        if not bad_fix:
            mode, bad = "repaired", []
        else:
            mode, bad = "neither", (bad_old if len(bad_old) <= len(bad_fix) else bad_fix)
    ctx.cov["make_solution_model"] = mode
    st.mism["make_solution"] = [cases[i] for i in bad]
    ctx.cov["families"].setdefault("model==impl:make_solution", {"cases": len(cases), "nontrivial": len(cases)})["mismatches"] = len(bad)


def solution_pool():
    b0, b1 = [], [Pair(("VTy", "General"), 0)]
    b2 = [Pair(("VTy", "General"), 0), Pair(("VTy", "General"), 0)]
    s_a, s_b = [I32, U32], [I32, I32]
    s_v = [N(("HAdt", 1), [("Var", "STy", 0, 0)]), ("Var", "STy", 0, 0)]
    ident = [("Var", "STy", 0, 0), ("Var", "STy", 0, 1)]
    con = [N("HConstraint", [N("HList", []), N("HLtOutlives", [N("HLStatic"), N("HLErased")])])]
    con2 = [N("HConstraint", [N("HList", []), N("HTyOutlives", [I32, N("HLStatic")])])]
    pool = [("Unique", b0, s_a, []), ("Unique", b0, s_b, []), ("Unique", b0, s_a, con), ("Unique", b0, s_a, con2), ("Unique", b1, s_v, []),
            ("Unique", b2, ident, []), ("Unique", b2, ident, con), ("Unique", [Pair(("VTy", "General"), 0), Pair(("VTy", "General"), 1)], ident, []),
            ("Unique", b0, [], []), ("Unique", b0, [], con)]
    for g in ("Definite", "Suggested"):
        pool += [("Ambig", (g, b0, s_a)), ("Ambig", (g, b0, s_b)), ("Ambig", (g, b1, s_v)), ("Ambig", (g, b2, ident)),
                 ("Ambig", (g, [Pair(("VTy", "General"), 1)], s_v))]
    pool.append(("Ambig", "Unknown"))
    return pool


def sol_kind(s):
    return "unique" if s[0] == "Unique" else ("unknown" if s[1] == "Unknown" else s[1][0].lower())


def is_trivially_true(s):
    if s[0] != "Unique" or s[3]:
        return False
    return all((t[0] == "Var" and t[2] == 0 and t[3] == i) or (t[0] == "CVar" and t[1] == 0 and t[2] == i) for i, t in enumerate(s[2]))


def guidance_of(s):
    return ("Definite", s[1], s[2]) if s[0] == "Unique" else s[1]


def stage_combine(ctx, st):
    pool = solution_pool()
    pairs = [(a, b) for a in pool for b in pool]
    outs = hrun([("Combine", a, b) for a, b in pairs])
    kinds_seen = set()
    for (a, b), o in zip(pairs, outs):
        kinds_seen.add((sol_kind(a), sol_kind(b)))
        ctx.count("combine:%s*%s" % (sol_kind(a), sol_kind(b)), sx.to_sexp([a, b]), nontrivial=a != b)
    ctx.cov["combine_kind_pairs"] = len(kinds_seen)
    ctx.sample({"op": "Combine", "a": sx.to_sexp(pairs[17][0]), "b": sx.to_sexp(pairs[17][1]), "real": sx.to_sexp(outs[17])})
    by = {(sx.to_sexp(a), sx.to_sexp(b)): o for (a, b), o in zip(pairs, outs)}
    incompatible = 0
    for (a, b), o in zip(pairs, outs):
        if is_panic(o):
            st.violation({"kind": "implementation-failure", "op": "Combine", "a": sx.to_sexp(a), "b": sx.to_sexp(b), "what": "Solution::combine panicked"})
            continue
        # never claims more than either candidate
        ok = o == a or o == b
        if not ok and o[0] == "Ambig":
            g = o[1]
            ok = g == "Unknown" or (g == guidance_of(a) and g == guidance_of(b))
        if not ok:
            st.violation({"kind": "property", "law": "combine_no_more", "op": "Combine", "a": sx.to_sexp(a), "b": sx.to_sexp(b), "real_output": sx.to_sexp(o),
                          "what": "Solution::combine claims more than a candidate: the result is neither candidate nor ambiguous with guidance shared by both"})
        # same result in either order (two trivially-true solutions of one goal are identical)
        if is_trivially_true(a) and is_trivially_true(b) and a != b:
            incompatible += 1
            continue
        o2 = by[(sx.to_sexp(b), sx.to_sexp(a))]
        if o != o2:
            st.violation({"kind": "property", "law": "combine_comm", "op": "Combine", "a": sx.to_sexp(a), "b": sx.to_sexp(b), "a_then_b": sx.to_sexp(o), "b_then_a": sx.to_sexp(o2),
                          "what": "Solution::combine depends on the order of its arguments"})
    ctx.cov["combine_incompatible_pairs_skipped"] = incompatible
    bad = coq_bad(ctx, "combine", "chk_combine", "solution_eqb", "solution * solution", "solution",
                  [(Pair(a, b), o) for (a, b), o in zip(pairs, outs) if not is_panic(o)])
    st.mism["combine"] = [("Combine",) + pairs[i] for i in bad]
    ctx.cov["families"].setdefault("model==impl:combine", {"cases": len(pairs), "nontrivial": len(pairs)})["mismatches"] = len(bad)
    return pool


def stage_with_priorities(ctx, st, pool):
    r = ctx.rng
    proj = lambda args: N(("HProjection", 0), args)
    alias_eq = lambda al, ty: N("HHolds", [N("HAliasEq", [al, ty])])
    dgs = [alias_eq(proj([("Var", "STy", 0, 0)]), ("Var", "STy", 0, 1)),
           alias_eq(proj([I32]), ("Var", "STy", 0, 1)),
           alias_eq(N(("HOpaqueAlias", 1), [("Var", "STy", 0, 1)]), ("Var", "STy", 0, 0)),
           N("HHolds", [N("HImplemented", [N(("HTraitRef", 0), [("Var", "STy", 0, 0), ("Var", "STy", 0, 1)])])]),
           alias_eq(proj([("Var", "STy", 0, 3)]), I32),          # index beyond the substitution: slice index panic
           alias_eq(proj([("Var", "STy", 1, 0)]), I32),          # variable of an outer binder: assertion
           N("HWfTy", [("Var", "STy", 0, 0)])]
    sols = [s for s in pool if s[0] != "Unique" or len(s[2]) == 2]
    sols = sols[:4] + sols[5:7] + [x for x in sols[8:] if x[0] == "Ambig"][::2] + [("Unique", [], [N("HLStatic"), I32], [])]
    cases = []
    for dg in dgs:
        for a in sols:
            for b in sols:
                if r.random() < ctx.n(0.45, 1.0):
                    pa, pb = r.choice(["High", "Low"]), r.choice(["High", "Low"])
                    cases.append((dg, a, pa, b, pb))
    cases = cases + [(dg, b, pb, a, pa) for dg, a, pa, b, pb in cases]
    outs = hrun([("WithPrio",) + c for c in cases])
    by = {}
    for c, o in zip(cases, outs):
        by[sx.to_sexp(list(c))] = o
        ctx.count("with_priorities:%s/%s" % (c[2], c[4]), sx.to_sexp(list(c)), nontrivial=c[1] != c[3] and not is_panic(o))
    ctx.sample({"op": "WithPrio", "case": sx.to_sexp(list(cases[5]))[:500], "real": sx.to_sexp(outs[5])[:300]})
    for c, o in zip(cases, outs):
        dg, a, pa, b, pb = c
        if is_trivially_true(a) and is_trivially_true(b) and a != b:
            continue
        o2 = by[sx.to_sexp([dg, b, pb, a, pa])]
        if o != o2:
            st.violation({"kind": "property", "law": "with_priorities_comm", "op": "WithPrio", "case": sx.to_sexp(list(c)), "a_then_b": sx.to_sexp(o), "b_then_a": sx.to_sexp(o2),
                          "what": "with_priorities depends on the order of its arguments"})
    bad = coq_bad(ctx, "withprio", "chk_with_prio", "(rs_eqb solprio_eqb)", "tm * ((solution * priority) * (solution * priority))", "res (solution * priority)",
                  [(Pair(dg, Pair(Pair(a, pa), Pair(b, pb))), okres(o)) for (dg, a, pa, b, pb), o in zip(cases, outs)])
    st.mism["with_priorities"] = [("WithPrio",) + cases[i] for i in bad]
    ctx.cov["families"].setdefault("model==impl:with_priorities", {"cases": len(cases), "nontrivial": len(cases)})["mismatches"] = len(bad)
    icases = [(dg, a) for dg in dgs for a in sols]
    iouts = hrun([("Inputs", dg, a) for dg, a in icases])
    bad = coq_bad(ctx, "inputs", "chk_inputs", "(rs_eqb tms_eqb)", "tm * solution", "res (list tm)", [(Pair(dg, a), okres(o)) for (dg, a), o in zip(icases, iouts)])
    for c in icases:
        ctx.count("calculate_inputs", sx.to_sexp(list(c)), nontrivial=True)
    st.mism["calculate_inputs"] = [("Inputs",) + icases[i] for i in bad]
    ctx.cov["families"].setdefault("model==impl:calculate_inputs", {"cases": len(icases), "nontrivial": len(icases)})["mismatches"] = len(bad)


E2E = [
    # (name, program, goal, goal pinned to a known solution, expected to be in class F1 on the unchanged tree)
    ("F1-witness", "trait Foo<U>{} struct Vec<T>{} struct I32{} struct U32{} impl<T> Foo<T> for Vec<T>{} impl Foo<U32> for Vec<I32>{}",
     "exists<A,B> { A: Foo<B> }", "exists<A,B> { A = Vec<I32>, B = U32, A: Foo<B> }"),
    ("control-instances-only", "trait Foo<U>{} struct Vec<T>{} struct I32{} struct U32{} impl<T> Foo<T> for Vec<T>{} impl Foo<I32> for Vec<I32>{}",
     "exists<A,B> { A: Foo<B> }", "exists<A,B> { A = Vec<I32>, B = I32, A: Foo<B> }"),
    ("control-two-distinct", "trait Foo<U>{} struct Vec<T>{} struct I32{} struct U32{} impl Foo<I32> for Vec<U32>{} impl Foo<U32> for Vec<I32>{}",
     "exists<A,B> { A: Foo<B> }", "exists<A,B> { A = Vec<I32>, B = U32, A: Foo<B> }"),
]


def stage_e2e(ctx, st):
    """The SLG solver end to end: definite guidance must cover a known solution."""
    cases = []
    for name, prog, goal, pinned in E2E:
        cases += [("Solve", sx.Str(prog), sx.Str(goal)), ("Solve", sx.Str(prog), sx.Str(pinned))]
    outs = [parse(o) for o in core.run_harness("agg", cases, timeout=120, shards=len(cases))]
    q, meta = [], []
    for k, (name, prog, goal, pinned) in enumerate(E2E):
        s, p = outs[2 * k], outs[2 * k + 1]
        ctx.count("e2e-slg", name, nontrivial=True)
        if s is None or p is None or is_panic(s) or is_panic(p) or s == "NoSolution" or p == "NoSolution" or p[0] != "Unique":
            ctx.cov.setdefault("e2e_inconclusive", []).append(name)
            continue
        known = p[2][:2]
        g = s[2] if s[0] == "Unique" else (s[1][2] if s[1] != "Unknown" and s[1][0] == "Definite" else None)
        if g is None:
            continue
        q.append(Pair(known, g))
        meta.append((name, prog, goal, known, s))
    ver = coq_verdicts(ctx, "e2e", "chk_e2e_verdict", "list tm * list tm", q)
    for (name, prog, goal, known, s), v in zip(meta, ver):
        if v == 0:
            continue
        f = ctx.match_known(None, F1_CLASS) if v == 1 else None
        if f is not None:
            ctx.known_finding(f, "SLG end to end (%s): %s yields %s although %s is a solution" % (name, goal, sx.to_sexp(s)[:200], sx.to_sexp(known)))
        else:
            st.violation({"kind": "property", "law": "definite guidance covers every solution", "op": "Solve", "program": prog, "goal": goal,
                          "real_solution": sx.to_sexp(s), "known_solution": sx.to_sexp(known),
                          "what": "the SLG solver returns definite guidance of which a solution of the goal is not an instance"})


def run_all(ctx):
    import time
    st = State(ctx)
    G = Gen(ctx.rng, ctx.n(3, 4))
    timing = ctx.cov.setdefault("stage_seconds", {})

    def timed(name, f, *a):
        t0 = time.time()
        r = f(*a)
        timing[name] = round(time.time() - t0, 1)
        core.log("C17 stage %s: %.1fs" % (name, timing[name]))
        return r
    timed("e2e", stage_e2e, ctx, st)
    timed("may_invalidate", stage_may_invalidate, ctx, st, G)
    timed("aggregate", stage_aggregate, ctx, st, G)
    timed("merge", stage_merge, ctx, st, G)
    timed("make_solution", stage_make_solution, ctx, st, G)
    timed("is_trivial", stage_is_trivial, ctx, st, G)
    pool = timed("combine", stage_combine, ctx, st)
    timed("with_priorities", stage_with_priorities, ctx, st, pool)
    return st


def run(ctx):
    thms = ["instance_of_spec", "instance_of_list_spec", "aggregate_generalizes", "merge_generalizes", "merge_all_generalizes",
            "may_invalidate_conservative", "may_invalidate_refuted", "may_invalidate_sound_outside_f1", "f1_class_repeats_var",
            "may_invalidate_fixed_conservative", "merge_never_repeats", "make_solution_covers", "make_solution_refuted",
            "combine_comm", "combine_no_more", "with_priorities_comm"]
    ok, why = ctx.proof_stage("Props.C17", thms, extra_targets=["Agg/Check.vo"])
    core.build_harness(bins=["agg"])
    ctx.cov["rule"] = ("exhaustive ordered sweep over representatives of every TyKind (several per head: same/different name, arguments, mutability; "
                       "bound and inference variables, fn pointers, dyn, aliases, placeholders, error) x the same, every lifetime x lifetime and const x const head, "
                       "for aggregate_generic_args and may_invalidate; seeded random related pairs (mutations / consistent and inconsistent instances of patterns, "
                       "linear and variable-repeating guidance) for aggregate, merge_into_guidance (pairs and sequences of 2-5 answers, per-position universes), "
                       "is_trivial, may_invalidate; all ordered pairs of a 21-element pool of solutions (4x4 kinds) for combine; with_priorities over 7 domain goals x pool x priorities in both orders; "
                       "3 end-to-end SLG programs. non-trivial = non-panicking with distinct arguments; distinct by printed case")
    st = None
    if ok or True:
        st = run_all(ctx)
        total_mism = sum(len(v) for v in st.mism.values())
        ctx.cov["model_mismatches"] = {k: len(v) for k, v in st.mism.items()}
        if total_mism and st.viol == 0:
            # the property holds on every explored input of the implementation, yet a model differs
            fam = [k for k, v in st.mism.items() if v][0]
            c = st.mism[fam][0]
            ctx.violation({"kind": "correspondence", "family": fam, "case": sx.to_sexp(list(c))[:4000],
                           "real_output": sx.to_sexp(hrun([c])[0])[:3000], "mismatching_cases": {k: len(v) for k, v in st.mism.items()},
                           "broken": "correspondence Agg model (%s) = real chalk function; the theorems of Props/C17.v are about the model. All instances of the property evaluated on the implementation held." % fam},
                          no_input=True)
    if not ok:
        ctx.violation({"kind": "proof", "broken": why}, no_input=True)


def replay(ctx, obj):
    core.build_harness(bins=["agg"])
    op = obj.get("op")
    P = sx.parse_sexp
    if op == "Agg":
        a, b, u = P(obj["a"]), P(obj["b"]), obj["universe"]
        o = hrun([("Agg", u, a, b)])[0]
        print("real:", sx.to_sexp(o))
        if is_panic(o):
            return 0
        good = coq_bools(ctx, "replay", "chk_inst2", "(tm * tm) * tm", [Pair(Pair(a, b), o[1])])[0]
        print("both arguments are instances of the result:", good)
        return 0 if good else 1
    if op == "MayInv":
        new, cur = P(obj["new"]), P(obj["current"])
        r = mayinv_eval(ctx, "replay", [(new, cur)], detail=True)[0]
        print({k: (sx.to_sexp(v) if k == "merged" else v) for k, v in r.items()})
        return 1 if (r["mi"] is False and not r.get("holds", True) and not r.get("f1", False)) else 0
    if op == "MergeSeq":
        root, vals = P(obj["root"]), [P(v) for v in obj["answers"]]
        o = hrun([("MergeSeq", root, [cs(v) for v in vals])])[0]
        print("real:", sx.to_sexp(o))
        if is_panic(o):
            return 0
        good = coq_bools(ctx, "replay", "chk_inst_all", "list (list tm) * list tm", [Pair(vals, o[-1][1])])[0]
        print("every answer is an instance of the final guidance:", good)
        return 0 if good else 1
    if op == "MakeSolution":
        c = ("MakeSolution", P(obj["root"]), P(obj["events"]), P(obj["strands"]))
        o = hrun([c])[0]
        print("real:", sx.to_sexp(o))
        v = coq_verdicts(ctx, "replay", "chk_ms_verdict", "((binders * list event) * list (list tm)) * res (option solution)",
                         [Pair(Pair(Pair(c[1], c[2]), c[3]), okres(o))])[0]
        print("verdict (0 holds, 1 fails in class F1, 2 fails):", v)
        return 1 if v == 2 else 0
    if op == "Combine":
        a, b = P(obj["a"]), P(obj["b"])
        o1, o2 = hrun([("Combine", a, b), ("Combine", b, a)])
        print("a,b:", sx.to_sexp(o1), " b,a:", sx.to_sexp(o2))
        return 0 if o1 == o2 else 1
    if op == "WithPrio":
        c = P(obj["case"])
        o1, o2 = hrun([("WithPrio",) + tuple(c), ("WithPrio", c[0], c[3], c[4], c[1], c[2])])
        print("a,b:", sx.to_sexp(o1), " b,a:", sx.to_sexp(o2))
        return 0 if o1 == o2 else 1
    if op == "Solve":
        o = core.run_harness("agg", [("Solve", sx.Str(obj["program"]), sx.Str(obj["goal"]))], timeout=120, shards=1)[0]
        print("real:", o, " known solution:", obj.get("known_solution"))
        return 1
    print(json.dumps(obj, indent=1)[:3000])
    return 1
