"""C22 — printing a program and reparsing it gives back an equivalent program.

proof:  Props/C22.v over Text/Print.v + Text/Parse.v (core fragment; see the theorem list).
tie:    (1) end-to-end on the real code for ALL item kinds/features the property lists:
            text -> program_ir -> write_items -> parse+lower -> structural comparison of the two
            Programs (up to consistent renaming of disambiguated item names; where-clauses and
            bounds as sets, which covers an equality bound appearing with the trait bound it
            implies) -> write again: identical text (or, when an equality bound is present,
            the same program again);
        (2) core fragment: tokens of the Coq printer == tokens of the real writer, and the
            lowered reparse == the model's program."""
from __future__ import annotations

import os
import re

from vlib import core, sx
from . import text_common as tc, text_gen22, text_core22

META = {
    "id": "C22", "level": "proof",
    "technique": "Coq theorems parse_print / print_idempotent over a Gallina printer and recursive-descent parser of the core .chalk fragment + differential round trip of the real writer/parser/lowering on generated programs across all listed item kinds",
    "level_text": "Core fragment (Text/RoundTrip.v: structs/enums with flags incl. one_zst, repr(C), repr(packed); traits with flags; positive/negative/upstream impls; parameters of every kind (type, lifetime, const, int, float); quantified where-clauses of the three kinds without associated types; types: parameters, ADT applications with type/lifetime/const arguments, scalars, tuples, references, raw pointers, slices, arrays, str, never, fn pointers (for<..>, unsafe, variadic), dyn with forall bounds): machine-checked that parse (print p) = Some p and that printing the reparsed program reproduces the text, for all well-formed lowered programs (parse_print_partial, print_idempotent_partial; axiom-free). Everything else the property lists (associated types/values and equality bounds, variances, repr(int), lang attributes, opaque types, fn definitions): differential test of the real write -> parse -> lower -> compare -> write cycle on a feature sweep, the pinned test programs and random combinations.",
    "level_note": "Partial by construction: outside the Coq fragment only the end-to-end test applies (a differential test, not a theorem); the LALRPOP grammar is not translated: the model parser is a hand-written recursive descent over tokens, tied to the real code per run by (a) token equality of the model printer with the real write_items, (b) equality of the real lowering of the source with the model program, (c) the real round trip itself.",
    "design_ref": "DESIGN.md §4 C22",
    "bins": ["text"],
    "assumptions": [
        "programs are compared through a structural dump written for this check (harness/src/bin/text/roundtrip.rs): ids, kinds, flags, variances, reprs, types, where-clause/bound SETS; parameter, field and variant names are not part of the lowered program",
        "item kinds the writer does not handle (closures, coroutines, foreign types, custom clauses) are outside the property's quantifier and are not generated",
    ],
    "quick_s": 60, "thorough_s": 600,
}

THEOREMS = ["parse_print_partial", "print_idempotent_partial", "parse_print_fuel_partial", "parse_print_ast", "resolve_unresolve"]


def classify_known(text):
    """Point findings keyed by a feature of the INPUT program."""
    keys = []
    if re.search(r'extern\s+"C"', text):
        keys.append("feature:extern-abi")
    if re.search(r"\b(struct|enum|trait|type|fn)\s+_\d+_\d+\b", text):
        keys.append("feature:item-named-like-parameter")
    fn_names = set(re.findall(r"\bfn\s+([A-Za-z_]\w*)", text))
    if fn_names:
        # a fn definition used as a type: its name occurs in a type position, i.e. anywhere
        # besides its own declaration
        for n in fn_names:
            if len(re.findall(r"\b%s\b" % re.escape(n), text)) > 1:
                keys.append("feature:fn-def-as-type")
                break
    return keys


def run_rt(texts, timeout=300):
    lines = [sx.to_sexp(("RT", tc.S(t))) for t in texts]
    outs = core.run_harness("text", lines, args=["roundtrip"], timeout=timeout)
    res = []
    for o in outs:
        try:
            res.append(sx.parse_sexp(o) if o else ("Abort", sx.Str("no output")))
        except ValueError:
            res.append(("Garbled", sx.Str((o or "")[:200])))
    return res


NAME_POS = {"Adt": 2, "Trait": 2, "AssocTy": 2, "Opaque": 2, "FnDef": 2}


def split_dump(d):
    """{(kind, id): (name or None, body-with-name-blanked)}"""
    assert sx.head(d) == "Program", d
    items = {}
    for it in d[1]:
        kind, ident = it[0], it[1]
        nm = None
        body = list(it)
        if kind in NAME_POS:
            nm = str(body[NAME_POS[kind]])
            body[NAME_POS[kind]] = "_"
        items[(kind, ident)] = (nm, tuple(body))
    return items, d[2]


def compare_dumps(d1, d2):
    """None if equivalent, else a short description of the first difference."""
    a, ua = split_dump(d1)
    b, ub = split_dump(d2)
    if set(a) != set(b):
        return "items differ: only in original %s, only in reparsed %s" % (sorted(set(a) - set(b))[:4], sorted(set(b) - set(a))[:4])
    ren = {}
    for k in sorted(a):
        (n1, b1), (n2, b2) = a[k], b[k]
        if b1 != b2:
            return "item %s %s differs:\n  original %s\n  reparsed %s" % (k[0], k[1], sx.to_sexp(b1)[:600], sx.to_sexp(b2)[:600])
        if n1 is not None:
            ns = "assoc" if k[0] == "AssocTy" else k[0]
            if n2 != n1 and not re.fullmatch(re.escape(n1) + r"_\d+", n2):
                return "item %s %s renamed %s -> %s (not a disambiguation suffix)" % (k[0], k[1], n1, n2)
            ren.setdefault(ns, {})
            # consistent and injective per namespace *per id* is automatic (ids are keys);
            # two different ids must not collapse onto one written name unless they shared it
            ren[ns].setdefault(n2, set()).add(n1)
    for ns, m in ren.items():
        for n2, olds in m.items():
            if len(olds) > 1:
                return "names %s of namespace %s all written as %s" % (sorted(olds), ns, n2)
    return None


def has_eq_bound(d):
    s = sx.to_sexp(d)
    return "AliasEq" in s


def judge(ctx, fam, feature, text, r):
    """Evaluate the property on one round-trip result. Returns (status, detail)."""
    h = sx.head(r)
    if h == "InputError":
        return "input-error", tc.unpct(r[1])[:200]
    if h in ("Abort", "Garbled") or r == "Timeout":
        return "violation", "harness died: %s" % str(r)[:200]
    d1x = next((x for x in r[1:] if sx.head(x) == "Program"), None) if isinstance(r, tuple) else None
    if d1x is not None and any(int(x) for x in d1x[2][1:]):
        return "out-of-scope", "program has closures/coroutines/foreign types/custom clauses, which the writer does not print"
    if h == "WritePanic":
        return "violation", "writer panicked (pass %s): %s" % (r[1], tc.unpct(r[2])[:300])
    if h == "ReparseError":
        return "violation", "writer output does not lower (pass %s): %s\n--- written:\n%s" % (r[1], tc.unpct(r[2])[:300], tc.unpct(r[3])[:1500])
    if h != "RT":
        return "violation", "unexpected harness result %s" % str(r)[:200]
    d1, t2, d2, t3, d3 = r[1:6]
    if any(int(x) for x in d1[2][1:]):
        return "out-of-scope", "program has closures/coroutines/foreign types/custom clauses, which the writer does not print"
    diff = compare_dumps(d1, d2)
    if diff:
        return "violation", "reparsed program differs: %s\n--- written:\n%s" % (diff, tc.unpct(t2)[:1500])
    if sx.head(d3) != "Program":
        return "violation", "second writer output does not lower: %s" % sx.to_sexp(d3)[:300]
    if t2 != t3:
        if not has_eq_bound(d1):
            return "violation", "second rendering differs from the first although no equality bound is present:\n%s\n---\n%s" % (tc.unpct(t2)[:1200], tc.unpct(t3)[:1200])
        diff = compare_dumps(d2, d3)
        if diff:
            return "violation", "third program differs from the second: " + diff
        return "ok-eqbound", ""
    return "ok", ""


def core_fragment(ctx, n):
    """Core fragment: tokens of the Coq printer == tokens of the real writer; the real lowering of
    the source == the model's program (dump); Coq parse (print p) == Some p by evaluation."""
    rng = ctx.rng
    g = text_core22.Gen(rng)
    progs = [g.program() for _ in range(n)]
    srcs = [text_core22.Src(p).render() for p in progs]
    outs = core.run_harness("text", [sx.to_sexp(("TK", tc.S(s))) for s in srcs], args=["tokens"], timeout=300)
    pairs, idx, problems = [], [], []
    for i, (p, s, o) in enumerate(zip(progs, srcs, outs)):
        try:
            r = sx.parse_sexp(o)
        except (ValueError, TypeError):
            r = ("Garbled", o)
        if sx.head(r) != "TK":
            problems.append((i, "real writer/lowering failed on a core-fragment program: %s" % str(r)[:300]))
            continue
        toks = [tc.unpct(t) for t in r[1]]
        names = {text_core22.item_name(it[1]): it[1] for it in p if it[0] != "IImpl"}
        terms = [text_core22.tok_term(t, names) for t in toks]
        ctx.count("core", s, nontrivial=True)
        if None in terms:
            problems.append((i, "real writer emitted a token outside the fragment's vocabulary: %r" % toks[terms.index(None)]))
            continue
        if sx.to_sexp(text_core22.expected_dump(p)) != sx.to_sexp(r[2]):
            problems.append((i, "lowered source differs from the model program:\n expected %s\n real     %s"
                             % (sx.to_sexp(text_core22.expected_dump(p))[:800], sx.to_sexp(r[2])[:800])))
            continue
        pairs.append((p, terms))
        idx.append(i)
    imports = ["Text.Syntax22", "Text.Print", "Text.Parse", "Text.TokEq"]
    bad = core.coq_mismatches(ctx.work, "print22", imports, fn="print", eqb="toks_eqb", in_ty="program", out_ty="list tok",
                              pairs=pairs, shard=120)
    for b in bad:
        problems.append((idx[b], "tokens of Text.Print.print differ from the tokens of the real write_items"))
    bad2 = core.coq_mismatches(ctx.work, "parse22", imports, fn="fun p => parse (print p)", eqb="oprogram_eqb", in_ty="program",
                               out_ty="option program", pairs=[(p, ("Some", p)) for p, _ in pairs], shard=120)
    for b in bad2:
        problems.append((idx[b], "Text.Parse.parse (print p) <> Some p by evaluation (generated program not well-formed, or the model is broken)"))
    ctx.cov["core_compared"] = len(pairs)
    if pairs:
        ctx.sample({"family": "core", "source": srcs[idx[0]][:400], "model_tokens": len(pairs[0][1])})
    return [(srcs[i], why) for i, why in problems]


def run(ctx):
    ok, why = (True, "")
    if THEOREMS:
        ok, why = ctx.proof_stage("Props.C22", THEOREMS, extra_targets=["Text/TokEq.vo"])
    core.build_harness(bins=["text"])
    rng = ctx.rng
    core_problems = core_fragment(ctx, ctx.n(400, 4000))
    cases = [("sweep", f, p) for f, p in text_gen22.feature_sweep()]
    # seeds of the pinned display tests, harvested at run time (they must keep passing)
    progs, _ = tc.harvest_seeds()
    disp = [p for p in progs if len(p) < 3000]
    rng.shuffle(disp)
    for p in disp[:ctx.n(150, 600)]:
        cases.append(("seed", "pinned-test-program", p))
    g = text_gen22.Gen(rng)
    for _ in range(ctx.n(1200, 15000)):
        cases.append(("random", "combination", g.program()))
    res = run_rt([c[2] for c in cases])
    stats = {}
    first_violation = {}
    for (fam, feature, text), r in zip(cases, res):
        status, detail = judge(ctx, fam, feature, text, r)
        stats[(fam, status)] = stats.get((fam, status), 0) + 1
        nontrivial = status in ("ok", "ok-eqbound", "violation")
        ctx.count(fam, text, nontrivial=nontrivial)
        if status == "input-error":
            if fam == "sweep":
                raise core.CheckFailure("feature sweep program does not lower (%s): %s\n%s" % (feature, detail, text))
            continue
        if status == "violation":
            keys = classify_known(text)
            f = next((ctx.match_known(k) for k in keys if ctx.match_known(k)), None)
            if f is not None:
                ctx.known_finding(f, feature)
                stats[(fam, "known")] = stats.get((fam, "known"), 0) + 1
                continue
            sig = re.sub(r"\d+", "N", detail.split("\n")[0])[:120]
            if sig in first_violation:
                first_violation[sig][3] += 1
                if len(text) < len(first_violation[sig][1]):
                    first_violation[sig][1] = text
                    first_violation[sig][2] = detail
                continue
            first_violation[sig] = [feature, text, detail, 1]
        elif len(ctx.cov["samples"]) < 6 and fam != "seed":
            ctx.sample({"family": fam, "feature": feature, "program": text[:400], "written": tc.unpct(r[2])[:400]})
    ctx.cov["roundtrip_outcomes"] = {"%s/%s" % k: v for k, v in sorted(stats.items())}
    n_rand = sum(v for (f, s), v in stats.items() if f == "random")
    n_bad_input = stats.get(("random", "input-error"), 0)
    ctx.cov["random_input_error_share"] = round(n_bad_input / max(1, n_rand), 3)
    ctx.cov["known_class_share"] = round(sum(v for (f, s), v in stats.items() if s == "known") / max(1, len(cases)), 4)
    if n_rand and n_bad_input > 0.25 * n_rand:
        raise core.CheckFailure("generator produces too many programs that do not lower: %d of %d" % (n_bad_input, n_rand))
    for sig, (feature, text, detail, n) in first_violation.items():
        text = shrink_program(text, sig)
        ctx.violation({"kind": "roundtrip", "feature": feature, "program": text, "detail": detail, "occurrences": n,
                       "how": "text roundtrip: program_ir -> write_items -> program_ir -> dump comparison -> write_items"})
    # model and implementation disagree on the core fragment: evaluate the property itself on the
    # implementation for those programs
    if core_problems:
        srcs = [s for s, _ in core_problems[:50]]
        rs = run_rt(srcs)
        hit = False
        for (src, why_), r in zip(core_problems, rs):
            st, det = judge(ctx, "core", "core-fragment", src, r)
            if st == "violation" and not any(ctx.match_known(k) for k in classify_known(src)):
                hit = True
                ctx.violation({"kind": "roundtrip", "feature": "core-fragment", "program": src, "detail": det, "model_disagreement": why_})
                break
        if not hit and not first_violation:
            ctx.violation({"kind": "model-mismatch", "count": len(core_problems), "program": core_problems[0][0], "what": core_problems[0][1],
                           "broken": "correspondence `Text.Print.print p == tokens of chalk_solve::display::write_items` / `lowered source == p` "
                                     "(theorems parse_print_partial/print_idempotent_partial are about a model that no longer matches the code); "
                                     "the real round trip itself holds on these programs"}, no_input=True)
    if not ok and not first_violation and not core_problems:
        ctx.violation({"kind": "proof", "broken": why, "theorems": THEOREMS}, no_input=True)


def shrink_program(text, sig):
    """Greedy item/line-level reduction that keeps the same first line of the diagnosis."""
    class Dummy:
        pass

    def same(cands):
        rs = run_rt(cands, timeout=120)
        out = []
        for c, r in zip(cands, rs):
            st, det = judge(None, "", "", c, r)
            out.append(st == "violation" and re.sub(r"\d+", "N", det.split("\n")[0])[:120] == sig)
        return out

    units = text.split("\n")
    if len(units) >= 2:
        units = tc.ddmin(units, lambda cs: same(["\n".join(c) for c in cs]), budget=200)
        if same(["\n".join(units)])[0]:
            text = "\n".join(units)
    return text


def replay(ctx, obj):
    core.build_harness(bins=["text"])
    text = obj.get("program", "")
    r = run_rt([text])[0]
    st, det = judge(ctx, "replay", "", text, r)
    print(st, det)
    print("REPRODUCED" if st == "violation" else "not reproduced")
    return 1 if st == "violation" else 0
