"""C03 — SLG answer enumeration (solve_multiple) is sound, duplicate-free and complete; the
'more answers follow' flag is accurate."""
import collections
import hashlib
import itertools

from vlib import core, logic, sx
from checks import histlib
from vlib import proggen as pg

META = {
    "id": "C03", "level": "proof",
    "technique": "Coq theorems over a Gallina model of Table::push_answer / ForestSolver::peek_answer,next_answer / "
                 "root_answer / SLGSolver::solve_multiple driven by an arbitrary stream of strand events "
                 "(push_answer_nodup, yields_nodup, flag_accurate, solve_multiple_prefix) + alarm-sound executable "
                 "contract checker check_enum (enum_alarm_sound) evaluated in Coq on the real enumerations of generated "
                 "programs x existential goals against the verified evaluator; model run compared with the real "
                 "(items, flags, return value) for several consumer budgets",
    "level_text": "The table/stream/loop mechanism is proved duplicate-free and flag-accurate for every event stream. "
                  "Soundness of each yielded Definite answer and coverage of every solution (bounded candidate universe) "
                  "are decided by the Coq kernel with the verified oracle (eval_correct) on the implementation's own "
                  "output; every alarm is a real violation of the property's contract (enum_alarm_sound).",
    "level_note": "What the strands produce is abstracted into events: that the real strands deliver exactly the sound and "
                  "complete set of answers is not proved but checked per case (soundness: all instances via generic "
                  "placeholders; completeness: ground candidates up to depth 3, only for drained enumerations without "
                  "Floundered items).  The implementation side is a finite seeded case stream.",
    "design_ref": "DESIGN.md §4 C03",
    "assumptions": [
        "harness translation of chalk_ir answers to first-order terms; user-level exists variables re-ordered by the harness",
        "runs with different consumer budgets use fresh solvers on the same program/goal and are compared as prefixes (the engine is deterministic)",
        "on a used solver the order of the answers may differ from the fresh enumeration (tables already filled); drained enumerations are compared as sets, and a table that floundered yields only Floundered items afterwards",
        "event reconstruction: the yielded items of the longest run, in order, are the root table's answer events (duplicates and invalid answers are invisible at this interface)",
    ],
    "bins": ["solve"],
    "quick_s": 60, "thorough_s": 600,
}

KMAX = 12                      # the longest run takes KMAX+1 items
BUDGETS = [1, 3, KMAX + 1]
FUEL = 1500
SHAPES = [pg.shape_growing, pg.shape_growing, pg.shape_poly_rec, pg.shape_nested_chain, pg.shape_mutual, pg.shape_overlap,
          pg.shape_diamond, pg.shape_ind_cycle, pg.shape_co_cycle, pg.shape_auto, pg.shape_chain,
          pg.shape_random, pg.shape_random, pg.shape_random, pg.shape_random]


def shape_cycle3(rng, witness=False):
    """A positive cycle through three or more SLG tables with the same unknown:
        Chain(A) :- Link(A), Step(A).   Link(A) :- [Mid(A) :-] Step(A).   Step(W<A>) :- [Never(A),] Chain(A).   Step(<fact>).
    The head has two subgoals that both lead into the cycle, and the fact of the bottom table is reached
    only after the first pass around the cycle (the bottom table still owns an un-pursued strand when the
    intermediate table runs out of strands).  With `Never` (no impl) the solution set is finite."""
    four = (not witness) and rng.random() < 0.35
    never = witness or rng.random() < 0.6
    adts = [pg.Adt("S"), pg.Adt("W", 1)] + ([] if witness else [pg.Adt("Z")])
    names = ["Chain", "Link", "Step"] + (["Mid"] if four else []) + (["Never"] if never else [])
    traits = [pg.Trait(n) for n in names]
    A = pg.var(0)
    head_wcs = [("Link", (A,)), ("Step", (A,))]
    if not witness and rng.random() < 0.3:
        head_wcs.reverse()
    impls = [pg.Impl(1, ("Chain", (A,)), head_wcs)]
    if four:
        impls += [pg.Impl(1, ("Link", (A,)), [("Mid", (A,))]), pg.Impl(1, ("Mid", (A,)), [("Step", (A,))])]
    else:
        impls.append(pg.Impl(1, ("Link", (A,)), [("Step", (A,))]))
    rec_wcs = ([("Never", (A,))] if never else []) + [("Chain", (A,))]
    if not witness and never and rng.random() < 0.3:
        rec_wcs.reverse()
    impls.append(pg.Impl(1, ("Step", (pg.adt("W", A),)), rec_wcs))
    fact = pg.adt("W", pg.adt("S")) if (witness or rng.random() < 0.6) else pg.adt(rng.choice(["S", "Z"]))
    impls.append(pg.Impl(0, ("Step", (fact,))))
    if not witness and never and rng.random() < 0.3:
        impls.append(pg.Impl(0, ("Never", (pg.adt("Z"),))))
    if not witness and rng.random() < 0.3:
        impls.append(pg.Impl(0, ("Step", (pg.adt("Z"),))))
    return pg.Prog(adts, traits, impls, "cycle3" + ("-witness" if witness else ""))


def cycle3_goals(p):
    gs = []
    k = 900
    for t in p.traits:
        k += 1
        gs.append(("exists", (k,), ("atom", (t.name, (pg.var(k),)))))
    k += 1
    gs.append(("exists", (k,), ("atom", ("Chain", (pg.adt("W", pg.var(k)),)))))
    return gs


def gen_goals(rng, p, n):
    gg = pg.GoalGen(rng, p)
    out = []
    # targeted: every trait with all-variable / partially applied arguments
    for t in p.traits:
        vs = tuple(gg.fresh() for _ in range(1 + t.nextra))
        out.append(("exists", vs, ("atom", (t.name, tuple(pg.var(v) for v in vs)))))
        ws = [a for a in p.adts if a.nparams == 1]
        if ws and rng.random() < 0.7:
            v = gg.fresh()
            args = [("adt", ws[0].name, (pg.var(v),))] + [gg.pick_ty() for _ in range(t.nextra)]
            out.append(("exists", (v,), ("atom", (t.name, tuple(args)))))
    if len(p.traits) >= 1 and rng.random() < 0.6:
        a, b = gg.fresh(), gg.fresh()
        t1, t2 = rng.choice(p.traits), rng.choice(p.traits)
        if t1.nextra == 0 and t2.nextra == 0:
            out.append(("exists", (a, b), ("and", (("atom", (t1.name, (pg.var(a),))), ("atom", (t2.name, (pg.var(b),)))))))
            out.append(("exists", (a,), ("and", (("atom", (t1.name, (pg.var(a),))), ("atom", (t2.name, (pg.var(a),)))))))
    while len(out) < n:
        out.append(gg.exists_goal())
    res, seen = [], set()
    for g in out:
        if pg.is_floundering_prone(g):
            continue
        t = pg.goal_text(g)
        if t not in seen:
            seen.add(t)
            res.append(g)
    return res[:n]


def cand_tuples(rng, p, g, limit):
    """candidate ground solutions: tuples over the bounded universe (+ the prefix placeholders in scope)"""
    prefix, _, evars = pg.peel(g)
    n = len(evars)
    if n == 0:
        return [[]]
    ubs, seen = [], 0
    for pr in prefix:
        if pr[0] == "A":
            seen += 1
        else:
            ubs.append(seen)
    per = {1: 40, 2: 7, 3: 4}.get(n, 3)
    univ = pg.universe(p, depth=3, limit=60)
    small = [t for t in univ if pg.ty_depth(t) <= 2]
    base = (small + [t for t in univ if t not in small])[:per] if n > 1 else univ[:per]
    pools = [base + [("ph", k) for k in range(ub)] for ub in ubs]
    out = []
    for tup in itertools.product(*pools):
        out.append(list(tup))
        if len(out) >= limit:
            break
    return out


def eitem_model(item, st, prefix):
    """harness item -> sx of Coq type eitem (or None when it cannot be translated)"""
    h = sx.head(item)
    if item == "Floundered" or h == "Floundered":
        return "EFloundered"
    m = pg.answer_model(item, st, prefix, None)
    if m is None:
        return None
    return ("EDefinite" if h == "Definite" else "EAmbiguous", m[1], m[2])


def item_id(item):
    return "F" if item == "Floundered" else sx.to_sexp(item)


class Run:
    def __init__(self, ans):
        self.ok = sx.head(ans) == "Answers"
        self.raw = ans
        if self.ok:
            self.items = list(ans[1])
            self.complete = ans[2] is True
            self.flags = [f is True for f in ans[3]] if len(ans) > 3 else None


def expected_codes(run, ids):
    """the Coq encoding (SlgTable.enc_run) of a real run"""
    out = []
    for it, fl in zip(run.items, run.flags):
        f = 1 if fl else 0
        if it == "Floundered":
            out.append(4 + f)
        else:
            n = ids[item_id(it)]
            out.append(8 * n + (0 if sx.head(it) == "Definite" else 2) + f)
    out.append(1 if run.complete else 0)
    return out


def events_of(longest, ids):
    """event codes (SlgTable.event_of) reconstructed from the longest run"""
    evs = []
    items = longest.items
    for j, it in enumerate(items):
        if it == "Floundered":
            rest = items[j:]
            # a Floundered item that is followed only by Floundered items up to the consumer's cut is the
            # floundered root table (it repeats for ever); otherwise it is an ambiguous identity answer
            # (a floundered table flags every item `true`, so a `false` flag means an answer)
            if not longest.complete and all(x == "Floundered" for x in rest) and all(longest.flags[j:]):
                evs.append(3)
                break
            evs.append(2)
        else:
            n = ids.setdefault(item_id(it), len(ids) + 1)
            evs.append(4 * n + (0 if sx.head(it) == "Definite" else 1))
    else:
        # the consumer stopped the longest run while the look-ahead had seen a further item: one more
        # (unobserved) answer event follows
        if not longest.complete and items and longest.flags and longest.flags[-1]:
            evs.append(4 * (len(ids) + 1000))
    return evs


def property_on_runs(runs):
    """The property itself on the implementation's own output: returns a list of problems.
    runs: dict budget -> Run (all ok)."""
    probs = []
    ks = sorted(runs)
    longest = runs[ks[-1]]
    for k in ks:
        r = runs[k]
        n = len(r.items)
        if r.flags is None or len(r.flags) != n:
            probs.append("run %d: %d flags for %d items" % (k, len(r.flags or []), n))
            continue
        if n > k:
            probs.append("run %d yields %d items" % (k, n))
        if [item_id(x) for x in r.items] != [item_id(x) for x in longest.items[:n]]:
            probs.append("run %d is not a prefix of run %d" % (k, ks[-1]))
        if r.complete != (n < k):
            probs.append("run %d: returned %s with %d items" % (k, r.complete, n))
        if n < k and n != len(longest.items):
            probs.append("run %d drained with %d items but run %d has %d" % (k, n, ks[-1], len(longest.items)))
        for i in range(n):
            follows = (i + 1 < len(longest.items)) if (i + 1 < ks[-1]) else None
            if follows is not None and r.flags[i] != follows:
                probs.append("run %d: flag of item %d is %s but %s" % (k, i, r.flags[i], "another item follows" if follows else "no item follows"))
    # no item twice (textual identity of the canonical answers; variants are decided in Coq)
    seen = set()
    for it in longest.items:
        if it == "Floundered":
            continue
        if sx.to_sexp(it) in seen:
            probs.append("item yielded twice: %s" % sx.to_sexp(it))
        seen.add(sx.to_sexp(it))
    return probs


def build_cases(rng, ctx):
    work = []          # (prog, text, [goals])
    for p, goals in pg.corpus():
        gs = [g for g in goals if pg.has_exists(g) and not pg.is_floundering_prone(g)]
        if gs:
            work.append((p, pg.to_text(p), gs))
    w = shape_cycle3(rng, witness=True)
    work.append((w, pg.to_text(w), cycle3_goals(w)))
    for _ in range(ctx.n(6, 40)):
        p = shape_cycle3(rng)
        if rng.random() < 0.4:
            p = pg.permute(p, rng)
        work.append((p, pg.to_text(p), cycle3_goals(p)))
    for _ in range(ctx.n(36, 200)):
        p = rng.choice(SHAPES)(rng)
        if rng.random() < 0.4:
            p = pg.permute(p, rng)
        work.append((p, pg.to_text(p), gen_goals(rng, p, ctx.n(6, 8))))
    return work


def solve_all(work, budgets, cpu, timeout):
    cases, meta = [], []
    for w, (p, text, goals) in enumerate(work):
        for k in budgets:
            cases.append(pg.case(text, [pg.goal_text(g) for g in goals], pg.SLG, ("Multiple", k), [("Cpu", cpu)]))
            meta.append((w, k))
    res = logic.solve_cases(cases, timeout=timeout)
    out = {}
    for (w, k), r in zip(meta, res):
        out[(w, k)] = r
    return out


def _match_ty(pat, t, b):
    hp = sx.head(pat)
    if hp == "BV":
        k = pat[1]
        if k in b:
            return sx.to_sexp(b[k]) == sx.to_sexp(t)
        b[k] = t
        return True
    if pat == "Free":
        return True
    ht = sx.head(t)
    if hp != ht:
        return False
    if hp == "App":
        if str(pat[1]) != str(t[1]) or len(pat[2]) != len(t[2]):
            return False
        return all(_match_ty(x, y, b) for x, y in zip(pat[2], t[2]))
    return sx.to_sexp(pat) == sx.to_sexp(t)


def item_covers(a, b):
    """item b is an instance of item a (binder universes ignored; Floundered covers nothing)"""
    if a == "Floundered" or b == "Floundered":
        return False
    if len(a[2]) != len(b[2]):
        return False
    bind = {}
    return all(_match_ty(x, y, bind) for x, y in zip(a[2], b[2]))


def equivalent_enumerations(xs, ys):
    """the two drained enumerations describe the same set of solutions: every item of one is an instance
    of an item of the other (an earlier trivial answer makes the engine drop the remaining strands — the
    green cut —, so on a used solver subsumed answers may be missing and the order may differ)"""
    return all(any(item_covers(y, x) for y in ys) for x in xs) and all(any(item_covers(x, y) for x in xs) for y in ys)


def used_solver_problems(steps):
    """The property on the enumerations of ONE goal made one after the other on the same solver.
    steps: [(budget, Run)] in history order.  Returns a list of problems."""
    probs = []
    for j, (k, r) in enumerate(steps):
        n = len(r.items)
        if r.flags is None or len(r.flags) != n:
            probs.append("enumeration %d: %d flags for %d items" % (j, len(r.flags or []), n))
            continue
        if n > k:
            probs.append("enumeration %d (budget %d) yields %d items" % (j, k, n))
        if r.complete != (n < k):
            probs.append("enumeration %d (budget %d): returned %s with %d items" % (j, k, r.complete, n))
        # how many items does the stream have?  known from this run if drained, else from a later, longer one
        later = [len(r2.items) for (k2, r2) in steps[j + 1:]]
        total_at_least = max([n] + later)
        for i in range(n):
            if i + 1 < n:
                follows = True
            elif r.complete:
                follows = False
            elif total_at_least > n:
                follows = True
            else:
                follows = None
            if follows is not None and r.flags[i] != follows:
                probs.append("enumeration %d (budget %d): flag of item %d is %s but %s" % (
                    j, k, i, r.flags[i], "another item follows" if follows else "no item follows"))
        seen = set()
        for it in r.items:
            if it == "Floundered":
                continue
            if sx.to_sexp(it) in seen:
                probs.append("enumeration %d: item yielded twice: %s" % (j, sx.to_sexp(it)))
            seen.add(sx.to_sexp(it))
        # the table is persistent: a later enumeration repeats the earlier one as a prefix (unless the table
        # floundered in between: mark_floundered drops the stored answers and every later item is Floundered)
        for (k2, r2) in steps[j + 1:]:
            if "Floundered" in r.items or "Floundered" in r2.items:
                continue
            m = min(n, len(r2.items))
            if [item_id(x) for x in r.items[:m]] != [item_id(x) for x in r2.items[:m]]:
                probs.append("enumeration %d and a later one on the same solver disagree on their common prefix" % j)
                break
    return probs


def history_stage(ctx, rng, work, fresh, defs, exprs, emeta, mexprs, mmeta, hist, not_eval):
    """Enumerations on a USED solver: the goal solved first and then enumerated, enumerated twice,
    enumerated partially and then again, enumerated after related goals that share its tables."""
    K = KMAX + 1
    cases, meta = [], []
    for w, (p, text, goals) in enumerate(work):
        idx = [gi for gi in range(len(goals)) if (w, gi) in fresh]
        if not idx:
            continue
        chosen = idx[:1] + rng.sample(idx[1:], min(len(idx) - 1, ctx.n(1, 3)))
        for n_c, gi in enumerate(chosen):
            gt = pg.goal_text(goals[gi])
            others = [pg.goal_text(goals[j]) for j in idx if j != gi]
            pat = "twice" if n_c == 0 else rng.choice(["solve-first", "twice", "partial-first", "related-first"])
            if pat == "related-first" and not others:
                pat = "partial-first"
            if pat == "solve-first":
                gts, steps = [gt, gt, gt], ["S", ("M", K), ("M", K)]
            elif pat == "twice":
                gts, steps = [gt, gt], [("M", K), ("M", K)]
            elif pat == "partial-first":
                gts, steps = [gt, gt, gt], [("M", rng.choice([1, 2, 3])), ("M", K), ("M", K)]
            else:
                o = rng.choice(others)
                gts, steps = [o, o, gt, gt], ["S", ("M", K), ("M", rng.choice([2, K])), ("M", K)]
            cases.append(pg.case(text, gts, pg.SLG, ("HistoryMulti", steps), [("Cpu", ctx.n(4, 6))]))
            meta.append((w, gi, pat, gts, steps))
    res = logic.solve_cases(cases, timeout=ctx.n(600, 3000))
    for (w, gi, pat, gts, steps), r in zip(meta, res):
        p, text, goals = work[w]
        gt = pg.goal_text(goals[gi])
        if not r["ok"] or len(r["goals"]) != len(gts):
            not_eval["history-case-failed"] += 1
            continue
        enum = []          # (budget, Run) for the enumerations of the goal under test
        raw = []
        dead = False
        for t, st_, gr in zip(gts, steps, r["goals"]):
            raw.append(sx.to_sexp(gr[1])[:1200] if gr[0] != "error" else "error")
            if gr[0] == "error" or logic.is_death(gr[1]) or sx.head(gr[1]) == "Panic":
                dead = True
                break
            if t == gt and st_ != "S":
                rn = Run(gr[1])
                if not rn.ok:
                    dead = True
                    break
                enum.append((st_[1], rn))
        if dead or not enum:
            not_eval["history-died"] += 1
            continue
        hist["history:%s" % pat] += 1
        key = hashlib.sha1((text + "##H##" + "|".join(gts) + sx.to_sexp(steps)).encode()).hexdigest()[:16]
        ctx.count("history:" + p.shape, key, nontrivial=any(len(rn.items) >= 2 for _, rn in enum))
        desc = {"shape": p.shape, "program": text, "goal": gt, "history": [[a, sx.to_sexp(b)] for a, b in zip(gts, steps)],
                "answers": raw, "pattern": pat}
        probs = used_solver_problems(enum)
        if probs:
            d = dict(desc)
            d.update({"kind": "enumeration-mechanism-used-solver", "problems": probs[:5]})
            ctx.violation(d)
            continue
        # against the fresh solver
        flongest, prefix = fresh[(w, gi)]
        last_k, last = enum[-1]
        # the ORDER of the answers may depend on what the tables already hold; the SET of a drained
        # enumeration may not
        both_drained = last.complete and flongest.complete and "Floundered" not in last.items and "Floundered" not in flongest.items
        # class F7 (history dependence of SLG after a coinductive cycle), decided on (program, history)
        hgoals, hidx = [], []
        for t in gts:
            gobj = next(g_ for g_ in goals if pg.goal_text(g_) == t)
            if not hidx or hgoals[hidx[-1]] is not gobj:
                if gobj not in hgoals:
                    hgoals.append(gobj)
                hidx.append(hgoals.index(gobj))
        try:
            in_f7 = bool(histlib.f7_class(p, hgoals, hidx))
        except Exception:          # noqa: BLE001  (the predicate is total on the fragment; be safe)
            in_f7 = False
        desc["f7_class"] = in_f7
        if both_drained and not equivalent_enumerations(last.items, flongest.items):
            f = ctx.match_known(None, "F7-slg-coinductive-cycle") if in_f7 else None
            if f:
                ctx.known_finding(f, gt)
                hist["history:known-F7"] += 1
            else:
                d = dict(desc)
                d.update({"kind": "used-solver-enumeration-differs-from-fresh", "fresh": sx.to_sexp(flongest.raw)[:1500]})
                ctx.violation(d)
            continue
        # the model on a pre-filled table
        ids, pre = {}, []
        conj = []
        for (k, rn) in enum:
            evs_all = events_of(rn, ids)
            pre_codes = [c for c in pre]
            rest = evs_all[len(pre_codes):] if evs_all[:len(pre_codes)] == pre_codes else None
            if rest is None:
                pre_codes, rest = [], evs_all
            exp = expected_codes(rn, ids)
            conj.append("ns_eqb (model_run_used %d %s %s) %s" % (
                k, sx.to_coq([int(x) for x in pre_codes]) if pre_codes else "[]",
                sx.to_coq([int(x) for x in rest]) if rest else "[]", sx.to_coq([int(x) for x in exp])))
            # what the table certainly holds afterwards: the observed answers (not the synthetic look-ahead event)
            obs = [c for c in evs_all if c < 4 * 1000]
            if len(obs) > len(pre):
                pre = obs
        mexprs.append(([], logic.bb(" && ".join(conj))))
        mmeta.append((desc, [k for k, _ in enum]))
        # the contract on the last enumeration of the used solver
        if any(it != "Floundered" and it[3] is True for it in last.items):
            continue
        items = [eitem_model(it, p.symtab(), prefix) for it in last.items]
        if any(x is None for x in items):
            continue
        g = goals[gi]
        q, _ = pg.query_model(g, p.symtab())
        drained = last.complete
        cands = [[pg.ty_model(t, p.symtab(), None) for t in tup] for tup in cand_tuples(rng, p, g, ctx.n(30, 80))] if drained else []
        qn = "qh%d_%d_%d" % (w, gi, len(exprs))
        defs[qn] = ("query", q)
        pname = "P%d" % w
        exprs.append(([pname, qn], "verdict_code (check_enum %d %s [] %s %s %s %s)" % (
            FUEL, pname, qn, sx.to_coq(items) if items else "[]", "true" if drained else "false",
            ("(%s : list (list ty))" % sx.to_coq(cands)) if cands else "[]")))
        emeta.append((desc, p, g, qn, pname, items, drained, len(cands), None))


def run(ctx):
    thms = ["flag_accurate_used", "yields_nodup_used", "push_answer_nodup", "yields_nodup", "flag_accurate", "solve_multiple_prefix", "peek_answer_total",
            "enum_alarm_sound", "enum_f14_refuted"]
    ok, why = ctx.proof_stage("Props.C03", thms)
    proof_broken = None if ok else why
    core.build_harness(bins=["solve"])
    rng = ctx.rng
    work = build_cases(rng, ctx)
    budgets = BUDGETS
    import time
    t_h = time.time()
    res = solve_all(work, budgets, cpu=ctx.n(4, 6), timeout=ctx.n(600, 3000))
    ctx.cov["phase_s"] = {"harness": round(time.time() - t_h, 1)}
    t_c = time.time()

    not_eval = collections.Counter()
    defs, exprs, emeta = {}, [], []          # contract checker
    mexprs, mmeta = [], []                   # model runs
    hist = collections.Counter()
    fresh = {}
    for w, (p, text, goals) in enumerate(work):
        rs = {k: res[(w, k)] for k in budgets}
        if not all(r["ok"] for r in rs.values()):
            ctx.violation({"kind": "infrastructure", "broken": "a generated program failed to lower", "program": text,
                           "detail": str([r["error"] for r in rs.values()])[:1000]}, no_input=True)
            return
        st = p.symtab()
        pname = "P%d" % w
        defs[pname] = ("program", pg.to_model(p))
        for gi, g in enumerate(goals):
            gt = pg.goal_text(g)
            runs, bad = {}, None
            prefix = None
            for k in budgets:
                gr = rs[k]["goals"][gi]
                if gr[0] == "error":
                    bad = "goal-error"
                    break
                prefix = gr[0]
                rn = Run(gr[1])
                if not rn.ok:
                    bad = logic.answer_kind(gr[1])
                    break
                runs[k] = rn
            if bad:
                not_eval[bad] += 1
                continue
            key = hashlib.sha1((text + "##" + gt).encode()).hexdigest()[:16]
            longest = runs[budgets[-1]]
            fresh[(w, gi)] = (longest, prefix)
            kinds = collections.Counter("Floundered" if it == "Floundered" else sx.head(it) for it in longest.items)
            drained = longest.complete
            hist["drained" if drained else "cut"] += 1
            hist["items:%s" % ("0" if not longest.items else "1" if len(longest.items) == 1 else "2-5" if len(longest.items) <= 5 else "6+")] += 1
            if any(it != "Floundered" and it[3] is True for it in longest.items):
                not_eval["region-constraints"] += 1
                continue
            ctx.count(p.shape, key, nontrivial=len(longest.items) >= 1)
            desc = {"shape": p.shape, "program": text, "goal": gt,
                    "runs": {str(k): sx.to_sexp(runs[k].raw)[:1500] for k in budgets}}
            # (1) the property on the observable behaviour
            probs = property_on_runs(runs)
            if probs:
                d = dict(desc)
                d.update({"kind": "enumeration-mechanism", "problems": probs[:5]})
                ctx.violation(d)
                continue
            # (2) the model on the same events
            ids = {}
            evs = events_of(longest, ids)
            conj = []
            for k in budgets:
                exp = expected_codes(runs[k], ids)
                conj.append("ns_eqb (model_run %d %s) %s" % (k, sx.to_coq([int(x) for x in evs]) if evs else "[]",
                                                            sx.to_coq([int(x) for x in exp])))
            mexprs.append(([], logic.bb(" && ".join(conj))))
            mmeta.append((desc, budgets))
            # (3) the contract: soundness / duplicates up to renaming / coverage
            items = [eitem_model(it, st, prefix) for it in longest.items]
            if any(x is None for x in items):
                not_eval["untranslatable-item"] += 1
                continue
            q, _ = pg.query_model(g, st)
            cands = [[pg.ty_model(t, st, None) for t in tup] for tup in cand_tuples(rng, p, g, ctx.n(50, 120))] if drained else []
            qn = "q%d_%d" % (w, gi)
            defs[qn] = ("query", q)
            exprs.append(([pname, qn], "verdict_code (check_enum %d %s [] %s %s %s %s)" % (
                FUEL, pname, qn, sx.to_coq(items) if items else "[]", "true" if drained else "false",
                ("(%s : list (list ty))" % sx.to_coq(cands)) if cands else "[]")))
            emeta.append((desc, p, g, qn, pname, items, drained, len(cands), kinds))
            if len(longest.items) >= 2:
                ctx.sample({"program": text[:300], "goal": gt, "items": [sx.to_sexp(x)[:80] for x in longest.items[:4]],
                            "flags": longest.flags[:4], "drained": drained})

    t_hist = time.time()
    history_stage(ctx, rng, work, fresh, defs, exprs, emeta, mexprs, mmeta, hist, not_eval)
    ctx.cov["phase_s"]["histories"] = round(time.time() - t_hist, 1)
    t_c = time.time()

    imports = ("Engine.SlgTable",)
    mcodes, mfail = logic.coq_codes(ctx.work, "model", {}, mexprs, shard=max(80, len(mexprs) // 2 + 1), imports=imports)
    if mfail:
        raise core.CheckFailure("coq evaluation failed: %s" % (mfail[0],))
    for (desc, k), c in zip(mmeta, mcodes):
        if c != 1:
            # the property itself held on this output (step 1 passed): the model no longer describes the code
            d = dict(desc)
            d.update({"kind": "correspondence", "budget": k,
                      "broken": "SlgTable.solve_multiple (model of solve_multiple/peek_answer/push_answer) disagrees with the real run although the observable property holds"})
            ctx.violation(d, no_input=True)
            break
    codes, fail = logic.coq_codes(ctx.work, "enum", defs, exprs, shard=max(8, len(exprs) // 8 + 1), imports=imports, timeout=1200)
    if fail:
        raise core.CheckFailure("coq evaluation failed: %s" % (fail[0],))
    verdicts = collections.Counter()
    known_hits = 0
    for (desc, p, g, qn, pname, items, drained, ncands, kinds), c in zip(emeta, codes):
        name = {0: "ok", 1: "inconclusive", 11: "alarm:definite-item-has-false-instance", 12: "alarm:solution-not-covered",
                14: "alarm:item-yielded-twice"}.get(c, "alarm:%s" % c)
        verdicts[name] += 1
        if c in (0, 1):
            continue
        cl_cands = [[pg.ty_model(t, p.symtab(), None) for t in tup] for tup in cand_tuples(rng, p, g, 40)] if pg.has_exists(g) else []
        cl_expr = ("N.add (N.add (if f14_class P q then 1%%N else 0%%N) (if f14b_class P q then 2%%N else 0%%N)) "
                   "(if f7q_query %d P q %s then 4%%N else 0%%N)" % (FUEL, ("(%s : list (list ty))" % sx.to_coq(cl_cands)) if cl_cands else "[]"))
        cc, fl = logic.coq_codes(ctx.work, "cls_%s" % qn, {"P": defs[pname], "q": defs[qn]}, [(["P", "q"], cl_expr)], imports=imports)
        bits = cc[0] if (not fl and cc[0] is not None) else 0
        f = None
        if bits & 1 and c == 11:
            f = ctx.match_known(None, "F14")
        if f is None and bits & 2 and c == 12:
            f = ctx.match_known(None, "F14b")
        if f is None and bits & 4 and c == 12:
            f = ctx.match_known(None, "F7q")
        if f is None and c == 12 and desc.get("history") and desc.get("f7_class"):
            f = ctx.match_known(None, "F7-slg-coinductive-cycle")
        if f:
            ctx.known_finding(f, desc["goal"])
            known_hits += 1
            continue
        d = dict(desc)
        d.update({"kind": "contract", "verdict": name, "items": sx.to_sexp(items), "drained": drained, "candidates": ncands,
                  "relation": "SlgTable.check_enum raised an alarm (enum_alarm_sound: the enumeration violates the contract)"})
        ctx.violation(d)

    ctx.cov["phase_s"]["coq_eval"] = round(time.time() - t_c, 1)
    if proof_broken and not ctx.violations:
        ctx.violation({"kind": "proof", "broken": proof_broken}, no_input=True)
    ctx.cov["rule"] = ("evaluations = (program, existential goal) pairs whose enumeration was run with budgets %s and checked "
                       "(mechanism property on the runs, model run, contract checker); non-trivial = at least one item; "
                       "distinct by (program text, goal text)" % budgets)
    ctx.cov["input_distribution"] = {"programs": len(work), "runs": dict(hist), "verdicts": dict(verdicts),
                                     "not_evaluated": dict(not_eval), "model_runs_compared": len(mexprs)}
    ctx.cov["known_class_share"] = round(known_hits / max(1, len(exprs)), 4)
    ctx.cov["inconclusive"] = verdicts.get("inconclusive", 0) + sum(not_eval.values())


def replay(ctx, obj):
    core.build_harness(bins=["solve"])
    if obj.get("history"):
        gts = [h[0] for h in obj["history"]]
        steps = [sx.parse_sexp(h[1]) for h in obj["history"]]
        res = logic.solve_cases([pg.case(obj["program"], gts, pg.SLG, ("HistoryMulti", steps), [("Cpu", 10)])], timeout=300)
        r = res[0]
        if not r["ok"]:
            print(r["error"])
            return 0
        enum = []
        for t, st_, gr in zip(gts, steps, r["goals"]):
            print(t, sx.to_sexp(st_), ":", gr[1] if gr[0] == "error" else sx.to_sexp(gr[1]))
            if gr[0] != "error" and t == obj["goal"] and st_ != "S":
                rn = Run(gr[1])
                if rn.ok:
                    enum.append((st_[1], rn))
        probs = used_solver_problems(enum)
        print("problems on the used solver:", probs)
        return 1 if probs else 0
    budgets = BUDGETS
    cases = [pg.case(obj["program"], [obj["goal"]], pg.SLG, ("Multiple", k), [("Cpu", 10)]) for k in budgets]
    res = logic.solve_cases(cases, timeout=300)
    runs = {}
    for k, r in zip(budgets, res):
        print("budget", k, ":", r["error"] or sx.to_sexp(r["goals"][0][1]))
        if r["ok"] and r["goals"][0][0] != "error":
            rn = Run(r["goals"][0][1])
            if rn.ok:
                runs[k] = rn
    if len(runs) != len(budgets):
        print("not comparable")
        return 0
    probs = property_on_runs(runs)
    print("mechanism problems:", probs)
    return 1 if probs else 0
