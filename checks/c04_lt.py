"""C04, lifetime stage: programs with lifetime-parameterised traits and ADTs, goals with lifetime
unknowns.  The main C04 stage maps every lifetime of an answer to one constant (lifetime values
are entangled with region constraints); here the lifetimes of the substitution are kept
structural and the same Coq relation `Contract.compatible` is evaluated on the two real answers,
but only where the entanglement cannot occur: a `Unique` answer takes part only when it carries
NO region constraints (the harness reports the flag), so a lifetime entry of its substitution is
exactly what the solver derived by unification.  Lifetime constraints themselves are never
compared (as the property states)."""
import collections
import re

from vlib import core, logic, sx
from vlib import proggen as pg
from vlib import solvercheck as sc

LT_TRAITS = [("L1", 1), ("M1", 1), ("L2", 2), ("M2", 2), ("P0", 0)]
LT_ADTS = [("X", 0, 0), ("Y", 0, 0), ("Z", 0, 0), ("R", 1, 0), ("Q", 2, 0), ("W", 0, 1)]   # name, lifetimes, types

HEADER = ("trait L1<'a> { } trait M1<'a> { } trait L2<'a, 'b> { } trait M2<'a, 'b> { } trait P0 { } "
          "struct X { } struct Y { } struct Z { } struct R<'a> { } struct Q<'a, 'b> { } struct W<T> { } ")


def _lt(rng, params):
    r = rng.random()
    if params and r < 0.7:
        return rng.choice(params)
    return "'static"


def _ty(rng, params, depth=1):
    name, nl, nt = rng.choice(LT_ADTS if depth > 0 else LT_ADTS[:5])
    if rng.random() < 0.12 and depth > 0:
        return "&%s %s" % (_lt(rng, params), _ty(rng, params, 0))
    args = [_lt(rng, params) for _ in range(nl)] + [_ty(rng, params, depth - 1) for _ in range(nt)]
    return name + ("<%s>" % ", ".join(args) if args else "")


def _tref(rng, params, self_ty=None):
    t, n = rng.choice(LT_TRAITS)
    args = [_lt(rng, params) for _ in range(n)]
    return "%s: %s%s" % (self_ty or _ty(rng, params), t, "<%s>" % ", ".join(args) if args else "")


def gen_program(rng):
    """returns (program text, [impl header strings])"""
    impls, heads = [], []
    for _ in range(rng.choice([4, 5, 6, 7])):
        np = rng.choice([0, 1, 1, 2])
        params = ["'a", "'b"][:np]
        # where clauses mostly point at earlier impl headers so that they are provable
        head = _tref(rng, params)
        self_ty, tr = head.split(": ", 1)
        # Rust requires impl parameters to occur in the header; keep that discipline
        used = [p for p in params if p in head]
        wcs = []
        for _ in range(rng.choice([0, 1, 1, 2])):
            if heads and rng.random() < 0.8:
                h = rng.choice(heads)
                # re-target the earlier header's lifetimes at this impl's parameters / 'static
                wcs.append(re.sub(r"'(a|b|static)\b", lambda m: _lt(rng, used), h))
            else:
                wcs.append(_tref(rng, used))
        heads.append(head)
        impls.append("impl%s %s for %s%s { }" % ("<%s>" % ", ".join(used) if used else "", tr, self_ty,
                                               " where " + ", ".join(wcs) if wcs else ""))
    return HEADER + " ".join(impls), heads


def gen_goal(rng, heads):
    """a goal aimed at one (or two) impl headers: their lifetimes become unknowns, `'static`
    or a universally quantified lifetime"""
    ex = []

    def aim(h):
        def sub(m):
            r = rng.random()
            if r < 0.6 or not ex:
                if len(ex) < 3 and (not ex or rng.random() < 0.6):
                    ex.append("'xyz"[0] + "xyz"[len(ex)])
                return rng.choice(ex)
            if r < 0.8:
                return "'static"
            return "'f"
        return re.sub(r"'(a|b|static)\b", sub, h)
    body = aim(rng.choice(heads))
    if rng.random() < 0.3:
        body = "%s, %s" % (body, aim(rng.choice(heads)))
    if not ex:
        ex.append("'x")
        body = "%s, %s" % (body, _tref(rng, ex))
    g = "exists<%s> { %s }" % (", ".join(ex), body)
    if "'f" in body:
        g = "forall<'f> { %s }" % g
    return g


CORPUS = [
    # the witness of the seeded change C04-trivial-subst-ignores-lifetime-entries and neighbours
    ("trait Foo<'a> { } trait Bar<'a> { } struct X { } struct Y { } impl Foo<'static> for X { } impl<'a> Bar<'a> for Y where X: Foo<'a> { }",
     ["exists<'a> { Y: Bar<'a> }", "forall<'f> { exists<'a> { Y: Bar<'a> } }", "exists<'a> { X: Foo<'a> }"]),
    ("trait Quux<'a, 'b> { } trait Pq<'a, 'b> { } struct X { } struct Y { } impl<'a> Quux<'a, 'a> for X { } impl<'a, 'b> Pq<'a, 'b> for Y where X: Quux<'a, 'b> { }",
     ["exists<'a, 'b> { Y: Pq<'a, 'b> }", "exists<'a, 'b> { X: Quux<'a, 'b> }", "forall<'f> { exists<'a> { Y: Pq<'a, 'f> } }",
      "forall<'f> { exists<'a> { Y: Pq<'f, 'a> } }"]),
    ("trait Foo<'a> { } trait Bar<'a> { } trait Baz<'a> { } struct X { } struct R<'a> { } impl<'a> Foo<'a> for R<'a> { } "
     "impl<'a> Bar<'a> for X where R<'static>: Foo<'a> { } impl<'a> Baz<'a> for X where X: Bar<'a> { }",
     ["exists<'a> { X: Bar<'a> }", "exists<'a> { X: Baz<'a> }", "exists<'a, 'b> { R<'a>: Foo<'b> }"]),
]


def lt_ty(t):
    """harness ty -> abstract ty with lifetimes kept structural"""
    h = sx.head(t)
    if h == "App":
        label = str(t[1])
        name = label[4:] if label.startswith("adt:") else "#" + label
        return ("adt", name, tuple(lt_ty(a) for a in t[2]))
    if h == "BV":
        return ("var", t[1])
    if h == "Ph":
        return ("ph", (t[1], t[2]))
    if h == "Free":
        return ("free",)
    if h == "Lt":
        return lt_ty(t[1])
    return ("adt", "#" + sx.to_sexp(t), ())


def lt_model(ans, prefix, labels):
    """harness answer -> Contract.answer with structural lifetimes (symbols allocated by label)"""
    h = sx.head(ans)
    if h == "NoSolution":
        return "ANone"
    if h == "AmbigUnknown":
        return "AUnknown"
    phmap, ubs, per_u = pg.prefix_phmap(prefix)
    vubs = [pg.universe_ub(per_u, u) for u in ans[1]]
    out = []

    def model(a):
        if a[0] == "var":
            return ("TVar", sx.Nat(a[1]))
        if a[0] == "ph":
            return ("TPh", phmap[a[1]])
        sym = labels.setdefault(a[1], 5000 + len(labels))
        return ("tapp", sym, [model(x) for x in a[2]])
    for j, t in enumerate(ans[2]):
        a = lt_ty(t)
        if a == ("free",):
            out.append(("TVar", sx.Nat(len(vubs))))
            vubs.append(ubs[j] if j < len(ubs) else 0)
        else:
            out.append(model(a))
    ctor = {"Unique": "AUnique", "AmbigDefinite": "ADefinite", "AmbigSuggested": "ASuggested"}[h]
    return (ctor, vubs, out)


def has_constraints(ans):
    return sx.head(ans) == "Unique" and str(ans[3]).lower() == "true"


def comparable(a1, a2):
    """both answers real, every Unique among them free of region constraints, and the pair is one
    that `compatible` constrains"""
    if not (sc.is_real(a1) and sc.is_real(a2)):
        return False
    if has_constraints(a1) or has_constraints(a2):
        return False
    return True


def items_for(rng, n_progs, goals_per):
    items, pidx = [], 300000
    for text, goals in CORPUS:
        for g in goals:
            items.append(sc.Item(pidx, None, text, None, g, "lt:corpus", "lt"))
        pidx += 1
    for _ in range(n_progs):
        text, heads = gen_program(rng)
        seen = []
        for _ in range(goals_per):
            g = gen_goal(rng, heads)
            if g not in seen:
                seen.append(g)
                items.append(sc.Item(pidx, None, text, None, g, "lt:random", "lt"))
        pidx += 1
    return items


def stage(ctx):
    rng = ctx.rng
    items = items_for(rng, ctx.n(60, 700), ctx.n(5, 7))
    _, perr = sc.run_items(items, cpu=ctx.n(4, 6), dump_check=False, timeout=ctx.n(600, 3000))
    if perr:
        ctx.violation({"kind": "infrastructure", "broken": "a generated lifetime program failed to lower", "detail": str(perr[0])[:2000]}, no_input=True)
        return
    exprs, idx = [], []
    hist, skipped = collections.Counter(), collections.Counter()
    for k, it in enumerate(items):
        a1, a2 = it.answers.get("slg", ([], "?"))[1], it.answers.get("rec", ([], "?"))[1]
        k1, k2 = logic.answer_kind(a1), logic.answer_kind(a2)
        if not (sc.is_real(a1) and sc.is_real(a2)):
            skipped["%s/%s" % (k1, k2)] += 1
            continue
        if not comparable(a1, a2):
            skipped["region-constraints"] += 1
            continue
        labels = {}
        m1 = lt_model(a1, it.answers["slg"][0], labels)
        m2 = lt_model(a2, it.answers["rec"][0], labels)
        hist["%s/%s" % (k1, k2)] += 1
        nontrivial = k1 in ("Unique", "AmbigDefinite", "NoSolution") and k2 in ("Unique", "AmbigDefinite", "NoSolution") and "NoSolution" not in (k1 + k2) or (k1 == "Unique") != (k2 == "Unique")
        ctx.count("lifetimes", it.key(), nontrivial=bool(nontrivial))
        exprs.append(([], logic.bb("compatible %s %s" % (sx.to_coq(m1), sx.to_coq(m2)))))
        idx.append(k)
        if nontrivial and k1 == "Unique":
            ctx.sample({"program": it.text[:300], "goal": it.goal_text, "slg": sx.to_sexp(a1)[:200], "rec": sx.to_sexp(a2)[:200]})
    codes, failures = logic.coq_codes(ctx.work, "compat_lt", {}, exprs, shard=max(20, len(exprs) // 16 + 1))
    if failures:
        raise core.CheckFailure("coq evaluation failed: %s" % (failures[0],))
    for j, c in enumerate(codes):
        if c == 0:
            it = items[idx[j]]
            f = ctx.match_known(it.key())
            if f:
                ctx.known_finding(f, it.goal_text)
                continue
            d = it.describe()
            d.update({"kind": "incompatible-answers-lifetimes",
                      "relation": "Contract.compatible = false on the two real answers with the lifetimes of the substitutions kept structural (no Unique answer involved carries region constraints)"})
            ctx.violation(d)
    ctx.cov.setdefault("input_distribution", {})["lifetime_stage"] = {"items": len(items), "answer_pairs": dict(hist), "not_compared": dict(skipped)}


def replay(ctx, obj):
    it = sc.Item(0, None, obj["program"], None, obj["goal"], "replay", "replay")
    sc.run_items([it], cpu=10, dump_check=False)
    a1, a2 = it.answers["slg"][1], it.answers["rec"][1]
    print("slg:", sx.to_sexp(a1))
    print("rec:", sx.to_sexp(a2))
    if not comparable(a1, a2):
        print("not comparable")
        return 0
    labels = {}
    m1, m2 = lt_model(a1, it.answers["slg"][0], labels), lt_model(a2, it.answers["rec"][0], labels)
    codes, fl = logic.coq_codes(ctx.work, "replay_lt", {}, [([], logic.bb("compatible %s %s" % (sx.to_coq(m1), sx.to_coq(m2))))])
    print("compatible (structural lifetimes):", codes[0])
    return 0 if codes[0] == 1 else 1


# ---------------------------------------------------------------------------------------
# coinductive custom clauses whose body has a variable of its own
# ---------------------------------------------------------------------------------------

COIND_BASE = ("#[coinductive] trait C { } trait Is<T> { } struct A { } struct B { } struct S<T> { } "
              "impl<T> Is<T> for T { } forall<T, U> { S<T>: C if %s }")
COIND_GOALS = ["exists<T> { S<T>: C }", "S<A>: C", "S<B>: C", "exists<T> { S<T>: C, T: Is<A> }", "exists<T, V> { S<T>: C, S<V>: C }"]


def coind_custom_items():
    """`S<?T>: C` needs `S<?U>: C` for a FRESH ?U (the same canonical goal): the provisional answer of
    the coinductive cycle changes the bindings of the next iteration, so the recursive solver's
    fixed-point test must compare substitutions, not answer shapes.  All body orders (the recursive
    solver pops obligations from the back) x the four (U, T) pinnings; deterministic."""
    import itertools
    items, pidx = [], 400000
    conds = ["S<U>: C", "U: Is<%(x)s>", "T: Is<%(y)s>"]
    for x, y in [("B", "A"), ("A", "A"), ("B", "B"), ("A", "B")]:
        for perm in itertools.permutations(range(3)):
            text = COIND_BASE % ", ".join(conds[i] % {"x": x, "y": y} for i in perm)
            for g in COIND_GOALS:
                items.append(sc.Item(pidx, None, text, None, g, "wide:coinductive-custom", "wide"))
            pidx += 1
    return items
