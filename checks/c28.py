"""C28 — every returned solution is a well-formed answer for its query."""
import os
import re

from vlib import core, sx
from vlib import proggen as pg
from vlib.sx import Pair

META = {
    "id": "C28",
    "level": "proof",
    "technique": "Coq theorems wf_answer_universes (a well-formed answer keeps the value of every query unknown within that unknown's universe), wf_answer_applies (an answer accepted by the executable wf_answer applies to its query without panic, on the substitution model with panic outcomes) and canon_closed (canonicalization output is closed, well-kinded, one binder per class) + every solution / guidance / enumerated answer of both real solvers on generated programs is passed through the Coq wf_answer and really applied to the query in Rust under catch_unwind; the model of the application is compared with the real result",
    "level_text": "Machine-checked proofs (Coq 8.16, axiom-free): wf_answer q a = true and a closed query imply apply_answer a q = Ok _ (SubstFolder with its three panic sites modelled); canonicalization produces closed, well-kinded values with one binder per unbound class. Tie to /repo on every run: programs and goals (types, lifetimes and consts as unknowns, nested forall/exists, hypotheses) are solved by the real SLG and recursive solvers (forked child, CPU limit) and by solve_multiple; every Canonical<ConstrainedSubst> / guidance substitution is dumped with the query's canonical binders and universe count, checked with the Coq wf_answer (must be true), applied with the real Substitution::apply (must not panic), and the result compared with the model's.",
    "level_note": "Trusted: Coq kernel; models coq/Infer/{Answer,Canon}.v (tied by correspondence on generated cases only); harness conversion chalk_ir->sexp. The answer-construction functions of the engines themselves (root_answer, Fulfill::solve's final canonicalization, make_solution) are NOT modelled: for them the check is a search for a failing input, not a proof (rec_answer_wf / slg_answer_wf of DESIGN are not proved). Region constraints of a ConstrainedSubst are outside wf_answer (the property speaks of the substitution). A solver panic whose location is in the answer/canonicalization layer is reported as a violation; other panics, timeouts and aborts are counted as inconclusive.",
    "design_ref": "DESIGN.md section 4 C28",
    "bins": ["canon"],
    "assumptions": ["const types are usize (ChalkIr lowering)", "solver runs that time out, abort or panic outside the answer layer are inconclusive (counted in coverage)"],
    "quick_s": 60, "thorough_s": 420,
}

# panic locations that belong to answer construction / application / canonicalization (aggregate.rs, resolvent.rs,
# canonicalize / ucanonicalize / instantiate / invert, Substitution::apply, and the folders' own assertions
# `unexpected free variable` / `unexpected inference ...` / `unexpected placeholder` in chalk-ir/src/fold.rs)
ANSWER_LAYER = re.compile(r"(chalk-solve/src/infer/|chalk-solve/src/infer\.rs|chalk-engine/src/slg/resolvent\.rs|chalk-engine/src/slg/aggregate\.rs|"
                          r"chalk-ir/src/lib\.rs|chalk-ir/src/fold\.rs|chalk-ir/src/fold/|chalk-ir/src/visit\.rs|chalk-ir/src/visit/)")


# ---------------------------------------------------------------------------------------------
# an own small generator: types, lifetimes and consts as unknowns, nested forall / exists
# ---------------------------------------------------------------------------------------------

BASE_ITEMS = ["struct S0 {}", "struct S1<T> {}", "struct S2<T, U> {}", "struct S3<T, U, V> {}", "struct R<'a, T> {}", "struct C<const N> {}", "struct I32 {}",
              "trait Tr0 {}", "trait Tr1<T> {}", "trait TrL<'a> {}", "trait TrC<const N> {}", "trait Id {}", "trait Triv {}", "impl Triv for S0 {}",
              "struct Foo {}", "trait TrA { type Assoc; }"]
# (impl text, atom patterns that the impl can satisfy; {T0} {T1} types, {L0} {L1} lifetimes, {C0} {C1} consts)
IMPLS = [
    ("impl Tr0 for S0 {}", ["{T0}: Tr0", "S0: Tr0"]),
    ("impl Tr0 for I32 {}", ["{T0}: Tr0"]),
    ("impl<T> Tr0 for S1<T> where T: Tr0 {}", ["S1<{T0}>: Tr0", "{T0}: Tr0"]),
    ("impl<T> Tr0 for S1<T> {}", ["S1<{T0}>: Tr0", "{T0}: Tr0"]),
    ("impl<T, U> Tr0 for S2<T, U> where T: Tr0, U: Tr0 {}", ["S2<{T0}, {T1}>: Tr0", "S2<{T0}, {T0}>: Tr0"]),
    ("impl<T> Tr1<T> for S1<T> {}", ["S1<{T0}>: Tr1<{T1}>", "{T0}: Tr1<{T1}>", "S1<{T0}>: Tr1<{T0}>"]),
    ("impl<T, U> Tr1<U> for S2<T, U> where T: Tr0 {}", ["S2<{T0}, {T1}>: Tr1<{T1}>", "{T0}: Tr1<{T1}>"]),
    ("impl Tr1<S0> for I32 {}", ["I32: Tr1<{T0}>", "{T0}: Tr1<S0>"]),
    ("impl Tr1<I32> for S0 {}", ["{T0}: Tr1<{T1}>"]),
    ("impl<'a, T> TrL<'a> for R<'a, T> {}", ["R<{L0}, {T0}>: TrL<{L1}>", "{T0}: TrL<{L0}>", "R<{L0}, {T0}>: TrL<{L0}>"]),
    ("impl<'a, 'b, T> TrL<'a> for S2<R<'b, T>, T> {}", ["S2<R<{L0}, {T0}>, {T1}>: TrL<{L1}>", "S2<{T0}, {T1}>: TrL<{L0}>"]),
    ("impl<'a> TrL<'a> for S0 {}", ["S0: TrL<{L0}>", "{T0}: TrL<{L0}>"]),
    ("impl<const N> TrC<N> for C<N> {}", ["C<{C0}>: TrC<{C1}>", "{T0}: TrC<{C0}>", "C<{C0}>: TrC<{C0}>"]),
    ("impl<const N, T> TrC<N> for S2<C<N>, T> where T: Tr0 {}", ["S2<C<{C0}>, {T0}>: TrC<{C1}>", "S2<{T0}, {T1}>: TrC<{C0}>"]),
    ("impl TrC<3> for S0 {}", ["S0: TrC<{C0}>", "{T0}: TrC<3>"]),
    ("impl<T> Id for T {}", ["{T0}: Id", "S1<{T0}>: Id"]),
    ("impl<'a, T> Tr0 for R<'a, T> where T: TrL<'a> {}", ["R<{L0}, {T0}>: Tr0"]),
    ("impl<const N> Tr0 for C<N> {}", ["C<{C0}>: Tr0", "{T0}: Tr0"]),
    ("impl<const N> Tr1<C<N>> for C<N> {}", ["C<{C0}>: Tr1<{T0}>", "C<{C0}>: Tr1<C<{C1}>>", "{T0}: Tr1<C<{C0}>>"]),
    ("impl<'a, T> Tr1<T> for R<'a, T> {}", ["R<{L0}, {T0}>: Tr1<{T1}>", "{T0}: Tr1<{T1}>"]),
    ("impl TrA for S0 { type Assoc = I32; }", ["{T0}: TrA", "S0: TrA"]),
    ("impl<T> TrA for S1<T> { type Assoc = S1<T>; }", ["S1<{T0}>: TrA", "{T0}: TrA"]),
    ("impl TrA for I32 { type Assoc = S0; }", ["{T0}: TrA"]),
]

# groups of impls whose answers agree on a generic sub-term (same constructor, same arguments mentioning an impl
# parameter that stays free) and differ elsewhere: 2- and 3-parameter structs, nested generic arguments
SHARED = [
    ("impl<T> Tr0 for S2<S1<T>, S0> {}\nimpl<T> Tr0 for S2<S1<T>, I32> {}", ["{T0}: Tr0", "S2<{T0}, {T1}>: Tr0"]),
    ("impl<T> Tr0 for S2<S0, S1<T>> {}\nimpl<T> Tr0 for S2<I32, S1<T>> {}", ["{T0}: Tr0", "S2<{T0}, {T1}>: Tr0"]),
    ("impl<T, U> Tr0 for S3<S2<T, U>, S0, S1<T>> {}\nimpl<T, U> Tr0 for S3<S2<T, U>, I32, S1<T>> {}", ["{T0}: Tr0", "S3<{T0}, {T1}, {T0}>: Tr0", "S3<{T0}, {T1}, S1<{T1}>>: Tr0"]),
    ("impl<T> Tr1<S1<S1<T>>> for S0 {}\nimpl<T> Tr1<S1<S1<T>>> for I32 {}", ["{T0}: Tr1<{T1}>", "{T0}: Tr1<S1<{T1}>>"]),
    ("impl<'a, T> Tr0 for S2<R<'a, T>, S0> {}\nimpl<'a, T> Tr0 for S2<R<'a, T>, I32> {}\nimpl<'a, T> Tr0 for S2<R<'a, T>, S1<T>> {}", ["{T0}: Tr0", "S2<{T0}, {T1}>: Tr0", "S2<R<{L0}, {T0}>, {T1}>: Tr0"]),
    ("impl<const N, T> TrC<N> for S3<C<N>, S1<T>, S0> {}\nimpl<const N, T> TrC<N> for S3<C<N>, S1<T>, I32> {}", ["{T0}: TrC<{C0}>", "S3<{T0}, {T1}, {T0}>: TrC<{C0}>", "S3<C<{C0}>, {T0}, {T1}>: TrC<{C1}>"]),
    ("impl<T, U> Tr1<S2<T, U>> for S2<S1<T>, S0> {}\nimpl<T, U> Tr1<S2<T, U>> for S2<S1<T>, I32> {}", ["{T0}: Tr1<{T1}>", "S2<{T0}, {T1}>: Tr1<{T1}>"]),
]


class OwnGen:
    def __init__(self, r):
        self.r = r
        self.n = 0
        self.patterns = []

    def program(self):
        chosen = self.r.sample(IMPLS, self.r.randint(3, 9))
        if self.r.random() < 0.6:
            chosen = chosen[:5] + self.r.sample(SHARED, self.r.choice([1, 1, 2]))
            self.r.shuffle(chosen)
        self.patterns = [p for _, ps in chosen for p in ps]
        return "\n".join(BASE_ITEMS + [t for t, _ in chosen])

    def fresh(self, kind):
        self.n += 1
        return {"T": "T%d", "L": "'l%d", "C": "N%d"}[kind] % self.n

    def ty(self, scope, d=2):
        tv = [v for k, v in scope if k == "T"]
        x = self.r.random()
        if tv and (x < 0.6 or d <= 0):
            return self.r.choice(tv)
        if d <= 0 or x < 0.75:
            return self.r.choice(["S0", "I32"])
        x = self.r.random()
        if x < 0.3:
            return "S1<%s>" % self.ty(scope, d - 1)
        if x < 0.5:
            return "S2<%s, %s>" % (self.ty(scope, d - 1), self.ty(scope, d - 1))
        if x < 0.58:
            return "S3<%s, %s, %s>" % (self.ty(scope, d - 1), self.ty(scope, d - 1), self.ty(scope, d - 1))
        if x < 0.78:
            return "R<%s, %s>" % (self.lt(scope), self.ty(scope, d - 1))
        return "C<%s>" % self.cst(scope)

    def lt(self, scope):
        lv = [v for k, v in scope if k == "L"]
        return self.r.choice(lv) if lv and self.r.random() < 0.85 else "'static"

    def cst(self, scope):
        cv = [v for k, v in scope if k == "C"]
        return self.r.choice(cv) if cv and self.r.random() < 0.8 else str(self.r.randrange(4))

    def atom(self, scope):
        if self.patterns and self.r.random() < 0.85:
            p = self.r.choice(self.patterns)
            fill = {"T0": self.ty(scope, 1), "T1": self.ty(scope, 1), "L0": self.lt(scope), "L1": self.lt(scope), "C0": self.cst(scope), "C1": self.cst(scope)}
            return p.format(**fill)
        return "%s = %s" % (self.ty(scope), self.ty(scope, 1))

    def goal_nonpeel(self):
        """An inner quantifier prefix that into_peeled_goal cannot peel (it sits inside a conjunction), so the query has
        fewer universes than the solver creates internally:  exists<T..> { G0, forall<U..> { exists<'a / V / const N> { T = C<..> } } }
        with the inner unknown in an invariant ADT parameter position (also through & and fn pointers)."""
        if self.r.random() < 0.35:
            return self.goal_nonpeel_assoc()
        t = self.fresh("T")
        outer = [("T", t)]
        if self.r.random() < 0.3:
            outer.append(("T", self.fresh("T")))
        u = self.fresh(self.r.choice(["T", "T", "L", "C"]))
        kind = self.r.choice(["L", "L", "T", "C"])
        a = self.fresh(kind)
        filler = self.r.choice(["S0", "I32", outer[-1][1]])
        if kind == "L":
            val = self.r.choice(["R<%s, %s>" % (a, filler), "S1<R<%s, %s>>" % (a, filler), "&%s %s" % (a, filler), "S2<&%s S0, %s>" % (a, filler),
                                 "fn(R<%s, S0>) -> %s" % (a, filler), "S3<S0, R<%s, I32>, %s>" % (a, filler)])
        elif kind == "T":
            val = self.r.choice(["S1<%s>" % a, "S2<%s, %s>" % (a, filler), "R<'static, %s>" % a, "&'static %s" % a, "fn(%s) -> %s" % (a, filler), "S3<%s, S1<%s>, S0>" % (a, a)])
        else:
            val = self.r.choice(["C<%s>" % a, "S2<C<%s>, %s>" % (a, filler), "S1<C<%s>>" % a, "[%s; %s]" % (filler, a)])
        decl = lambda v: ("const " + v) if v.startswith("N") else v
        eq = "%s = %s" % (t, val) if self.r.random() < 0.7 else "%s = %s" % (val, t)
        inner = "forall<%s> { exists<%s> { %s } }" % (decl(u), decl(a), eq)
        g0 = self.r.choice(["S0: Triv", "S0: Triv", "S0 = S0"])
        body = "%s, %s" % (g0, inner) if self.r.random() < 0.6 else "%s, %s" % (inner, g0)
        if len(outer) == 2 and self.r.random() < 0.5:
            body += ", %s = S1<%s>" % (outer[1][1], outer[0][1])
        return "exists<%s> { %s }" % (", ".join(v for _, v in outer), body)

    def goal_nonpeel_assoc(self):
        """Non-peelable forall around an equation whose right-hand side nests a projection that does not normalise to a
        closed type: `exists<T[,S]> { G0, forall<U> { [if (Foo: TrA<Assoc = U>)] { T = C<<S | Foo | S0 as TrA>::Assoc> } } }`."""
        t = self.fresh("T")
        outer = [t]
        x = self.r.random()
        if x < 0.45:
            sv = self.fresh("T")
            outer.append(sv)
            subj = sv
        elif x < 0.85:
            subj = "Foo"
        else:
            subj = self.r.choice(["S0", "I32", "S1<Foo>"])
        u = self.fresh("T")
        proj = "<%s as TrA>::Assoc" % subj
        filler = self.r.choice(["S0", "I32", u if self.r.random() < 0.2 else "S0"])
        val = self.r.choice(["S1<%s>" % proj, "S2<%s, %s>" % (proj, filler), "S2<%s, %s>" % (filler, proj), "R<'static, %s>" % proj, "&'static %s" % proj,
                             "S1<S1<%s>>" % proj, "S3<%s, S0, %s>" % (proj, proj)])
        eq = "%s = %s" % (t, val) if self.r.random() < 0.6 else "%s = %s" % (val, t)
        if subj == "Foo" and self.r.random() < 0.6 or (subj != "Foo" and self.r.random() < 0.2):
            hyp_subj = subj if subj == "Foo" or self.r.random() < 0.5 else "Foo"
            eq = "if (%s: TrA<Assoc = %s>) { %s }" % (hyp_subj, u, eq)
        inner = "forall<%s> { %s }" % (u, eq)
        g0 = self.r.choice(["S0: Triv", "S0: Triv", "S0 = S0"])
        body = "%s, %s" % (g0, inner) if self.r.random() < 0.6 else "%s, %s" % (inner, g0)
        return "exists<%s> { %s }" % (", ".join(outer), body)

    def goal_mixed(self):
        """unknowns in different universes tied by one atom: exists<outer> { forall<..> { exists<inner> { atom(inner, outer) } } }"""
        ok = [(p, o) for p in self.patterns for o in ("{L0}", "{C0}", "{T1}") if "{T0}" in p and o in p]
        if not ok:
            return self.goal()
        p, o = self.r.choice(ok)
        kind = {"{L0}": "L", "{C0}": "C", "{T1}": "T"}[o]
        outer = self.fresh(kind)
        mid = self.fresh(self.r.choice(["T", "T", "L"]))
        inner = self.fresh("T")
        scope = [(kind, outer), ("T", inner)]
        fill = {"T0": inner, "T1": self.ty(scope, 1), "L0": self.lt(scope), "L1": self.lt(scope), "C0": self.cst(scope), "C1": self.cst(scope)}
        fill[o[1:-1]] = outer
        atoms = [p.format(**fill)]
        if self.r.random() < 0.3:
            atoms.append(self.atom(scope))
        decl = lambda k, v: ("const " + v) if k == "C" else v
        pre = ""
        post = ""
        if self.r.random() < 0.3:
            pre, post = "forall<%s> { " % self.fresh("T"), " }"
        return "%sexists<%s> { forall<%s> { exists<%s> { %s } } }%s" % (pre, decl(kind, outer), mid, inner, ", ".join(atoms), post)

    def goal(self):
        """nested quantifier prefix over a conjunction, possibly with a hypothesis and an inner quantifier"""
        scope = []
        parts = []
        for _ in range(self.r.randint(1, 4)):
            q = "exists" if self.r.random() < 0.65 else "forall"
            vs = []
            for _ in range(self.r.choice([1, 1, 2, 3])):
                kind = self.r.choice(["T", "T", "T", "L", "C"])
                v = self.fresh(kind)
                vs.append((kind, v))
            decl = ", ".join(("const " + v) if k == "C" else v for k, v in vs)
            parts.append("%s<%s> { " % (q, decl))
            scope += vs
        atoms = [self.atom(scope) for _ in range(self.r.choice([1, 1, 2, 2, 3]))]
        body = ", ".join(atoms)
        x = self.r.random()
        if x < 0.2:
            tv = [v for k, v in scope if k == "T"]
            if tv:
                body = "if (%s: Tr0) { %s }" % (self.r.choice(tv), body)
        elif x < 0.35:
            v = self.fresh("T")
            body = "%s, %s<%s> { %s }" % (body, self.r.choice(["exists", "forall"]), v, self.atom(scope + [("T", v)]))
        return "".join(parts) + body + " }" * len(parts)


# ---------------------------------------------------------------------------------------------

def coq_mismatches(*a, **kw):
    """core.coq_mismatches, retried once after rebuilding our .vo files when the shared Coq tree was
    rebuilt underneath us by a concurrent make ("inconsistent assumptions")."""
    try:
        return core.coq_mismatches(*a, **kw)
    except core.CheckFailure as e:
        if "inconsistent assumptions" not in str(e):
            raise
        core.coq_make(["Props/C28.vo", "Infer/Exec.vo"])
        return core.coq_mismatches(*a, **kw)


def load_corpus():
    out = []
    d = os.path.join(core.VERIF, "corpus", "C28")
    if os.path.isdir(d):
        for f in sorted(os.listdir(d)):
            if f.endswith(".sx"):
                for line in open(os.path.join(d, f)):
                    line = line.strip()
                    if line and not line.startswith(";"):
                        out.append(sx.parse_sexp(line))
    return out


def is_panic(x):
    return isinstance(x, tuple) and not isinstance(x, Pair) and x[0] == "Panic"


def panic_site(x):
    m = re.search(r"@ (\S+):(\d+)\s*$", str(x[1]))
    return m.group(1) if m else "?"


def run(ctx):
    ok, why = ctx.proof_stage("Props.C28", ["wf_answer_applies", "wf_answer_universes", "canon_closed", "canon_query_wf", "rec_answer_wf", "slg_merge_wf", "slg_answer_wf", "slg_solution_wf"], extra_targets=["Infer/Exec.vo"])
    core.build_harness(bins=["canon"])
    r = ctx.rng
    k_multi = 6
    cpu = 5
    cases = []   # (family, case): one program with several goals
    for c in load_corpus():
        cases.append(("corpus", c))
    for p, goals in pg.corpus():
        gs = [sx.Str(pg.goal_text(g)) for g in goals if pg.has_exists(g)]
        if gs:
            cases.append(("proggen-corpus", ("Case", sx.Str(pg.to_text(p)), gs, k_multi, cpu)))
    og = OwnGen(r)
    for _ in range(ctx.n(45, 900)):
        prog = og.program()
        cases.append(("own", ("Case", sx.Str(prog), [sx.Str(og.goal_mixed() if j < 2 else (og.goal_nonpeel() if j < 4 else og.goal())) for j in range(6)], k_multi, cpu)))
    for _ in range(ctx.n(25, 600)):
        p = pg.gen_program(r)
        gg = pg.GoalGen(r, p)
        gs = []
        for _ in range(5):
            g = gg.exists_goal()
            if pg.is_floundering_prone(g) and r.random() < 0.5:
                continue
            gs.append(sx.Str(pg.goal_text(g)))
        if gs:
            cases.append(("proggen", ("Case", sx.Str(pg.to_text(p)), gs, k_multi, cpu)))
    outs = core.run_harness("canon", [c[1] for c in cases], args=["answers"], timeout=900)

    fam_of = {}
    pfam = {}
    vfam = {}
    answers = []     # (case, query, source, binders, subst, applied)
    stats = {"goals": 0, "goal_errors": 0, "program_errors": 0, "goal_died": 0, "no_solution": 0, "ambig_unknown": 0, "floundered": 0,
             "solver_panics_other": 0, "answers": 0, "answers_with_binders": 0, "answers_nonground_query": 0, "harness_failures": 0,
             "queries_with_lifetime_or_const_unknowns": 0, "queries_with_2plus_universes": 0}
    viol = 0
    for (fam, case), o in zip(cases, outs):
        try:
            v = sx.parse_sexp(o) if o else None
        except ValueError:
            v = None
        if v is None or not isinstance(v, tuple) or v[0] in ("Abort", "BadInput") or v == "Timeout":
            stats["harness_failures"] += 1
            continue
        if v[0] in ("ProgramError", "Panic"):
            stats["program_errors"] += 1
            continue
        for gtext, gres in zip(case[2], v[1]):
            one = ("Case", case[1], [gtext], case[3], case[4])
            fam_of[sx.to_sexp(one)] = fam
            stats["goals"] += 1
            if gres[0] == "GoalError":
                stats["goal_errors"] += 1
                continue
            if gres[0] == "GoalDied":
                stats["goal_died"] += 1
                continue
            q = gres[1]
            query = Pair(q[1], Pair(q[2], q[3]))
            if any(b[0] in ("VLt", "VConst") for b in q[2]):
                stats["queries_with_lifetime_or_const_unknowns"] += 1
            if q[1] >= 2:
                stats["queries_with_2plus_universes"] += 1
            n_ans = 0
            for a in gres[2]:
                if a[0] == "NoAns":
                    why_ = a[2]
                    if why_ == "NoSolution":
                        stats["no_solution"] += 1
                    elif why_ == "AmbigUnknown":
                        stats["ambig_unknown"] += 1
                    elif why_ == "Floundered":
                        stats["floundered"] += 1
                    elif is_panic(why_):
                        site = panic_site(why_)
                        if ANSWER_LAYER.search(site):
                            pfam[fam] = pfam.get(fam, 0) + 1
                            if viol < 4 or pfam[fam] == 1:
                                ctx.violation({"kind": "property", "what": "the solver panicked while building / matching an answer (panic location %s): no well-formed answer is returned" % site,
                                               "solver": str(a[1]), "family": fam, "panic": str(why_[1])[:600], "case": sx.to_sexp(one)})
                            viol += 1
                        else:
                            stats["solver_panics_other"] += 1
                            ctx.cov.setdefault("other_panic_sites", {}).setdefault(site, 0)
                            ctx.cov["other_panic_sites"][site] += 1
                    continue
                n_ans += 1
                stats["answers"] += 1
                if a[2]:
                    stats["answers_with_binders"] += 1
                if q[2]:
                    stats["answers_nonground_query"] += 1
                answers.append((one, query, str(a[1]), a[2], a[3], a[4]))
            ctx.count(fam, sx.to_sexp(one), nontrivial=n_ans > 0 and len(q[2]) > 0, n=max(1, n_ans))
    for c in cases[:2] + cases[len(cases) // 2:len(cases) // 2 + 2]:
        ctx.sample({"family": c[0], "program": str(c[1][1])[:400], "goals": [str(g) for g in c[1][2]]})
    ctx.cov.update(stats)

    # ---- the real application must not panic ------------------------------------------------------
    for case, query, src, bs, subst, applied in answers:
        if is_panic(applied):
            if viol < 4:
                ctx.violation({"kind": "property", "what": "applying the returned substitution to the query panicked", "solver": src,
                               "panic": str(applied[1])[:600], "case": sx.to_sexp(case), "query": sx.to_sexp(query), "answer": sx.to_sexp(Pair(bs, subst))})
            viol += 1

    # ---- Coq: wf_answer on every real answer, wf_query on every real query, model of apply == real ----
    imports = ["Ir.Syntax", "Ir.Fold", "Infer.Canon", "Infer.Answer", "Infer.Exec"]
    wf_pairs = [(Pair(query, Pair(bs, subst)), True) for _, query, _, bs, subst, _ in answers]
    bad = coq_mismatches(ctx.work, "wf_answer", imports, fn="(fun p => wf_query (fst p) && wf_answer (fst p) (snd p))", eqb="Bool.eqb",
                              in_ty="query * answer", out_ty="bool", pairs=wf_pairs, shard=ctx.n(100, 400))
    ctx.cov["families"]["wf_answer(real answers)"] = {"cases": len(wf_pairs), "nontrivial": sum(1 for a in answers if a[3] or a[1][1][0]), "rejected": len(bad)}
    recorded = 0
    for j in bad:
        case, query, src, bs, subst, applied = answers[j]
        f_ = fam_of.get(sx.to_sexp(case), "?")
        vfam[f_] = vfam.get(f_, 0) + 1
        if (viol < 4 or vfam[f_] == 1) and recorded < 6:
            recorded += 1
            parts = core.coq_eval(ctx.work, "wf_parts", imports, [
                "let q := %s in let a := %s in (wf_query q, kinds_match (a_subst a) (q_binders q), forallb (closed_f (map fst (a_binders a)) 0) (a_subst a), "
                "forallb (fun b => snd b <? q_universes q) (a_binders a), forallb (ph_below (q_universes q)) (a_subst a), "
                "entries_univ_ok (map snd (a_binders a)) (a_subst a) (q_binders q))" % (sx.to_coq(query), sx.to_coq(Pair(bs, subst)))])[0]
            ctx.violation({"kind": "property", "what": "a returned solution is not a well-formed answer for its query (Coq wf_query/wf_answer = false)", "solver": src, "family": f_,
                           "parts(wf_query, one entry per binder of its kind, closed under own binders, binder universes < query universes, placeholder universes < query universes, per unknown: value stays within the unknown's universe)": parts,
                           "case": sx.to_sexp(case), "query": sx.to_sexp(query), "answer": sx.to_sexp(Pair(bs, subst))})
        viol += 1
    ap_pairs = [(Pair(Pair(bs, subst), query), ("Panic", "OtherPanic") if is_panic(applied) else ("Ok", applied[1]), j)
                for j, (_, query, _, bs, subst, applied) in enumerate(answers)]
    bad2 = coq_mismatches(ctx.work, "apply", imports, fn="(fun p => apply_answer (fst p) (snd p))", eqb="(res_any_eqb tm_eqb)",
                               in_ty="answer * query", out_ty="res tm", pairs=[(a, b) for a, b, _ in ap_pairs], shard=ctx.n(100, 400))
    ctx.cov["families"]["model==impl:apply_answer"] = {"cases": len(ap_pairs), "nontrivial": len(ap_pairs), "mismatches": len(bad2)}
    for j in bad2[:2]:
        case, query, src, bs, subst, applied = answers[j]
        if viol == 0:
            model = core.coq_eval(ctx.work, "m_apply", imports, ["apply_answer %s %s" % (sx.to_coq(Pair(bs, subst)), sx.to_coq(query))])[0]
            ctx.violation({"kind": "correspondence", "operation": "apply_answer", "case": sx.to_sexp(case), "query": sx.to_sexp(query), "answer": sx.to_sexp(Pair(bs, subst)),
                           "implementation": sx.to_sexp(applied), "model": model[:3000],
                           "broken": "correspondence Infer.Answer.apply_answer = Substitution::apply; wf_answer_applies is about the model. Every real answer was well-formed and applied without panic."},
                          no_input=True)
    ctx.cov["property_violations"] = viol
    ctx.cov["wf_violations_by_family"] = vfam
    ctx.cov["answer_layer_panics_by_family"] = pfam
    ctx.cov["rule"] = ("programs x goals: (a) own generator: structs with type / lifetime / const parameters, traits with type / lifetime / const parameters, 3-9 impls of a pool of 20; goals = 1-4 nested forall/exists blocks "
                       "binding types, lifetimes and consts, 1-3 atoms (Implemented / equality), optional hypothesis or inner quantifier; (b) vlib.proggen programs with existential goals; (c) goals whose inner forall/exists prefix cannot be peeled (it sits in a conjunction: `exists<T> { G0, forall<U> { exists<'a | V | const N> { T = C<..> } } }`, invariant ADT positions, &, fn pointers; and equations with a nested projection `T = C<<S | Foo as TrA>::Assoc>` with and without a hypothesis `Foo: TrA<Assoc = U>`), so that the query's universe count is smaller than the universes the solver creates; (d) the DESIGN section 5 witnesses. "
                       "Each goal is peeled+canonicalized by the real into_peeled_goal and solved by SLG solve, recursive solve and SLG solve_multiple (<= %d answers), each in a forked child with a %d s CPU limit. "
                       "Every Unique / Definite / Suggested / enumerated answer is counted as one evaluation; non-trivial = the query has at least one unknown and at least one answer came back." % (k_multi, cpu))
    if not ok:
        ctx.violation({"kind": "proof", "broken": why}, no_input=True)


def replay(ctx, obj):
    core.build_harness(bins=["canon"])
    if obj.get("case"):
        out = core.run_harness("canon", [obj["case"]], args=["answers"], timeout=300)
        print("replay case: %s\n  -> %s" % (obj["case"][:2000], (out[0] or "")[:6000]))
    print("what:", obj.get("what") or obj.get("broken"))
    return 1
