#!/bin/sh
# usage: run_seeds.sh <check-id> <patch> ...
cd /verif
id=$1; shift
git -C /var/tmp/main-mut checkout -q -- . ; git -C /var/tmp/main-mut checkout -q --detach $(git -C /repo rev-parse HEAD)
for p in "$@"; do
  git -C /var/tmp/main-mut checkout -q -- . ; git -C /var/tmp/main-mut clean -fdq
  git -C /var/tmp/main-mut apply "$p" || { echo "APPLY FAILED $p"; continue; }
  echo "=== $id $p"
  VERIF_REPO=/var/tmp/main-mut ./vcheck $id 2>&1 | grep -E "VIOLATION|^OK|^FAIL"
  for f in /verif/build/replays-c3689de11d/$id-1-*.json; do python3 -c "
import json,sys
o=json.load(open('$f')); print('  ', o.get('kind'), o.get('law'), o.get('operation'), str(o.get('input') or o.get('a'))[:200], '|', str(o.get('b'))[:120])"; done
  rm -f /verif/build/replays-c3689de11d/$id-1-*.json
done
git -C /var/tmp/main-mut checkout -q -- .
