#!/usr/bin/env python3
"""Regenerate /verif/MANIFEST.json from the META dicts of checks/cXX.py."""
import importlib
import json
import os
import subprocess
import sys

ROOT = os.path.dirname(os.path.dirname(os.path.abspath(__file__)))
sys.path.insert(0, ROOT)

NOT_BUILT = "no check registered yet: model/correspondence for this property is not built (see DESIGN.md section 4 for the plan); not a statement that the technique cannot apply"


def main():
    props = [json.loads(l) for l in open(os.path.join(ROOT, "properties.jsonl")) if l.strip()]
    checks, na = [], []
    overrides = {}
    op = os.path.join(ROOT, "tools", "not_applicable.json")
    if os.path.exists(op):
        overrides = json.load(open(op))
    for p in props:
        pid = p["id"]
        path = os.path.join(ROOT, "checks", pid.lower() + ".py")
        ready = set(open(os.path.join(ROOT, "tools", "ready.txt")).read().split())
        if not os.path.exists(path) or pid in overrides or pid not in ready:
            na.append({"property_id": pid, "reason": overrides.get(pid, NOT_BUILT)})
            continue
        m = importlib.import_module("checks." + pid.lower()).META
        if m.get("disabled"):
            na.append({"property_id": pid, "reason": m["disabled"]})
            continue
        checks.append({
            "property_id": pid,
            "quick_cmd": "./vcheck %s --tier quick" % pid,
            "thorough_cmd": "./vcheck %s --tier thorough" % pid,
            "evidence_file": "/verif/evidence/%s.json" % pid,
            "replay_cmd_template": "./vcheck %s --replay {path}" % pid,
            "engine": m.get("engine", "coq+harness"),
            "level_claimed": {"category": m["level"], "text": m["level_text"], "design_ref": m.get("design_ref", "DESIGN.md section 4")},
            "level_note": m["level_note"],
            "technique": m["technique"],
        })
    try:
        log = subprocess.run(["git", "-C", "/repo", "log", "--format=%H %s"], capture_output=True, text=True).stdout
    except Exception:
        log = ""
    hooks = [l.split()[0] for l in log.splitlines() if " verif hook:" in l]
    man = {
        "version": 1,
        "setup_cmd": "./setup.sh",
        "hooks": {
            "guard": "--cfg chalk_verif",
            "enable": "RUSTFLAGS=\"--cfg chalk_verif\" (set by vlib/core.py build_harness for the harness crate, which path-depends on /repo/chalk-*)",
            "baseline_off_cmd": "cd /repo && cargo test --workspace --no-fail-fast --offline",
            "source_commits": hooks,
            "add_only": True,
        },
        "engines": [
            {"name": "coq+harness", "path": "/verif/coq + /verif/harness + /verif/vlib",
             "serves_properties": [c["property_id"] for c in checks],
             "kind_free_text": "Coq 8.16.1 theorems over hand-written Gallina models (coq/), tied to /repo on every run by a differential correspondence: a Rust harness crate (path deps on /repo/chalk-*, built with --cfg chalk_verif) runs the real functions, the same inputs are evaluated on the model inside Coq with vm_compute, python3 (vlib/) generates, compares, shrinks and writes evidence"},
        ],
        "checks": checks,
        "not_applicable": na,
        "notes": "All checks: ./vcheck <id> [--tier quick|thorough] [--replay file]; env VERIF_SEED, VERIF_TIER honoured. Known findings: /verif/known_findings.json.",
    }
    with open(os.path.join(ROOT, "MANIFEST.json"), "w") as f:
        json.dump(man, f, indent=1)
    print("checks:", [c["property_id"] for c in checks])
    print("not claimed:", [n["property_id"] for n in na])


if __name__ == "__main__":
    main()
