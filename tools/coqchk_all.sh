#!/bin/sh
# Independent re-check of every property theory with coqchk; prints the context summary (axioms).
cd "$(dirname "$0")/../coq" && coqchk -o -silent -Q . Chalk $(ls Props/*.v | sed 's#Props/\(.*\)\.v#Chalk.Props.\1#' | tr '\n' ' ')
