#!/usr/bin/env python3
import json, sys
p = "/verif/seeded/%s/meta.json" % sys.argv[1]
d = json.load(open(p)); d["caught_by"] = sys.argv[2]; json.dump(d, open(p, "w"), indent=1)
