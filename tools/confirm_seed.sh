#!/bin/sh
# Confirm a seeded change in a scratch worktree:  confirm_seed.sh <name> <seed-dir> "<demo apply cmd>" "<demo test cmd>"
#  (a) patch applied: workspace builds and the full pinned suite passes;  (b) demo fails with the patch;  (c) demo passes without.
name=$1; dir=$2; demo_apply=$3; demo_cmd=$4
wt=/var/tmp/seed-confirm
export CARGO_NET_OFFLINE=true CARGO_TARGET_DIR=/var/tmp/seed-confirm-target
[ -d $wt ] || git -C /repo worktree add --detach $wt HEAD -q
cd $wt && git checkout -q --detach $(git -C /repo rev-parse HEAD) && git checkout -q -- . && git clean -fdq
out=/verif/seeded/$name; mkdir -p $out; tmp=/var/tmp/seed-confirm-logs/$name; mkdir -p $tmp
git apply $dir/patch.diff || { echo "$name: PATCH DOES NOT APPLY"; exit 1; }
cargo test --workspace --no-fail-fast --offline > $tmp/suite_with_patch.log 2>&1
suite=$(grep -E "^test result" $tmp/suite_with_patch.log | awk '{p+=$4; f+=$6} END {print p" passed "f" failed"}')
sh -c "$demo_apply" >/dev/null 2>&1
sh -c "$demo_cmd" > $tmp/demo_with_patch.log 2>&1; with=$?
git apply -R $dir/patch.diff
sh -c "$demo_cmd" > $tmp/demo_without_patch.log 2>&1; without=$?
git checkout -q -- . && git clean -fdq
grep -E "^test result|FAILED|failed" $tmp/suite_with_patch.log > $out/suite_with_patch.log
tail -30 $tmp/demo_with_patch.log > $out/demo_with_patch.log
tail -30 $tmp/demo_without_patch.log > $out/demo_without_patch.log
echo "$name: suite_with_patch=[$suite] demo_with_patch_exit=$with demo_without_patch_exit=$without"
