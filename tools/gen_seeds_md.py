#!/usr/bin/env python3
"""Regenerate the table of DESIGN.md section 10 from seeded/*/meta.json."""
import json, glob, os, re
rows = []
for m in sorted(glob.glob("/verif/seeded/*/meta.json")):
    d = json.load(open(m))
    conf = d.get("confirmed_by_coordinator", "")
    ok = "553 passed 0 failed" in conf and "demo_with_patch_exit=101" in conf and "demo_without_patch_exit=0" in conf
    esc = lambda s: re.sub(r"\s+", " ", str(s)).replace("|", "\\|")
    rows.append("| `%s` | %s | %s | %s | %s |" % (d["name"], d["breaks_property"], esc(d["needs_to_manifest"]), esc(d["caught_by"]),
                                                  "confirmed (suite green with patch; demo fails with / passes without)" if ok else esc(conf)))
hdr = ["| Seeded change (`seeded/<name>/`) | Property | Needs to manifest | Caught by | Confirmation |", "|---|---|---|---|---|"]
text = "\n".join(hdr + rows) + "\n"
p = "/verif/DESIGN.md"
s = open(p).read()
b, e = "<!-- SEEDS-BEGIN -->", "<!-- SEEDS-END -->"
if b in s:
    s = s[:s.index(b) + len(b)] + "\n" + text + s[s.index(e):]
else:
    i = s.index("| Seeded change | Property | Needs to manifest | Caught by | Notes |")
    s = s[:i] + b + "\n" + text + e + "\n"
open(p, "w").write(s)
print(len(rows), "seeds")
