#!/usr/bin/env python3
"""Regenerate DESIGN.md section 5a (findings recorded / fixed) from known_findings.json."""
import json, re, subprocess
d = json.load(open("/verif/known_findings.json"))
lines = ["## 5a. Findings and repairs as recorded by the checks (generated from known_findings.json)", "",
         "Recorded, not repaired (each check prints these as `KNOWN-FINDING:` and still reports any violation outside the class / key):", "",
         "| Property | Id | Kind | What fails |", "|---|---|---|---|"]
seen = set()
for f in sorted(d["findings"], key=lambda f: (f["property"], f["id"])):
    what = re.sub(r"\s+", " ", f.get("what", "")).replace("|", "\\|")
    lines.append("| %s | %s | %s | %s |" % (f["property"], f["id"], f.get("kind", ""), what[:700]))
lines += ["", "Repaired by `fix:` commits in /repo (suppress nothing; the checks report the violation again if it returns):", ""]
for x in d["fixed"]:
    lines.append("* " + re.sub(r"\s+", " ", x).replace("|", "\\|")[:600])
lines.append("")
text = "\n".join(lines)
p = "/verif/DESIGN.md"
s = open(p).read()
b, e = "<!-- FINDINGS-BEGIN -->", "<!-- FINDINGS-END -->"
if b in s:
    s = s[:s.index(b) + len(b)] + "\n" + text + "\n" + s[s.index(e):]
else:
    marker = "---------------------------------------------------------------------------------------\n\n## 6. Trusted base"
    s = s.replace(marker, b + "\n" + text + "\n" + e + "\n\n" + marker, 1)
open(p, "w").write(s)
print(len(d["findings"]), "findings,", len(d["fixed"]), "fixed")
