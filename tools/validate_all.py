#!/usr/bin/env python3
"""Validate MANIFEST.json and every evidence file against the given schemas (run with python3-vt)."""
import json, sys, glob
import jsonschema
ok = True
m = json.load(open("/verif/MANIFEST.json"))
try:
    jsonschema.validate(m, json.load(open("/root/.vp/MANIFEST.schema.json")))
    print("MANIFEST ok:", len(m["checks"]), "checks")
except jsonschema.ValidationError as e:
    ok = False; print("MANIFEST INVALID:", e.message)
es = json.load(open("/root/.vp/EVIDENCE.schema.json"))
ids = [c["property_id"] for c in m["checks"]]
for i in ids:
    p = "/verif/evidence/%s.json" % i
    try:
        jsonschema.validate(json.load(open(p)), es)
    except Exception as e:  # noqa
        ok = False; print("EVIDENCE INVALID", p, str(e)[:200])
print("evidence files checked:", len(ids))
sys.exit(0 if ok else 1)
