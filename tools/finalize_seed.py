#!/usr/bin/env python3
"""finalize_seed.py <name> <src-dir> <property> <needs> <caught-by> — copy a confirmed seeded change into seeded/<name>/."""
import json, os, shutil, sys, re
name, src, prop, needs, caught = sys.argv[1:6]
dst = os.path.join("/verif/seeded", name)
os.makedirs(dst, exist_ok=True)
for f in os.listdir(src):
    if f.endswith((".diff", ".rs", ".md")):
        shutil.copy(os.path.join(src, f), os.path.join(dst, f))
conf = [l for l in open("/tmp/confirm_all.log") if l.startswith(name + ":")]
meta = {
    "name": name, "breaks_property": prop, "needs_to_manifest": needs,
    "written_by": "independent sub-agent given only the property text and a scratch worktree",
    "confirmed_by_coordinator": conf[-1].strip() if conf else "NOT CONFIRMED",
    "confirmation_procedure": "tools/confirm_seed.sh in scratch worktree /var/tmp/seed-confirm: patch applied -> cargo test --workspace --no-fail-fast --offline (all pass); demonstration fails (exit 101) with the patch and passes (exit 0) without it",
    "checks_run": "VERIF_REPO=<worktree with patch> ./vcheck %s (quick tier, seed 1)" % prop,
    "caught_by": caught,
}
json.dump(meta, open(os.path.join(dst, "meta.json"), "w"), indent=1)
print(json.dumps(meta, indent=1))
