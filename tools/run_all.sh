#!/bin/sh
# run_all.sh <tier> [ids...] : run checks sequentially, print the verdict lines
tier=${1:-quick}; shift
ids="$@"
[ -z "$ids" ] && ids=$(python3 -c "import json; print(' '.join(c['property_id'] for c in json.load(open('MANIFEST.json'))['checks']))")
for id in $ids; do
  s=$(date +%s)
  ./vcheck $id --tier $tier 2>&1 | grep -E "VIOLATION|KNOWN-FINDING|^OK|^FAIL" | cut -c1-220
  echo "   [$id took $(( $(date +%s) - s )) s]"
done
