"""Seeded generator of abstract chalk programs of the C01 fragment and of goals over them.

Every program/goal is rendered BOTH as `.chalk` text (for the real parser/lowering) and as an
sx value for the Coq model `Chalk.Logic.*` (see /verif/tools/LOGIC_INTERFACE.md).

Abstract syntax (plain tuples, hashable):

  ty    ::= ("adt", name, (ty, ...)) | ("var", k) | ("ph", k)
              k = impl-parameter index inside impls / clauses, variable id inside goals
              ("ph", k) = placeholder constant TPh k (never in source text; produced by `peel`)
  atom  ::= (trait_name, (ty, ...))                 Self first, then the trait's extra parameters
  goal  ::= ("atom", atom) | ("eq", ty, ty) | ("and", (goal, ...)) | ("true",)
          | ("forall", (k, ...), goal) | ("exists", (k, ...), goal)
          | ("if", (hyp, ...), goal) | ("not", goal)
  hyp   ::= ((k, ...), atom, (atom, ...))           forall<k..> { atom :- atoms }

  Prog.adts   : [Adt(name, nparams, kind "struct"|"enum", variants [[ty ...] ...])]
  Prog.traits : [Trait(name, nextra, flags subset of {"coinductive","auto"})]
  Prog.impls  : [Impl(nvars, atom, [atom ...], positive)]
  Prog.order  : item order used for the text rendering (list of ("adt"|"trait"|"impl", index))
"""
from __future__ import annotations

import itertools
import random

from . import sx

# ---------------------------------------------------------------------------------------
# abstract syntax
# ---------------------------------------------------------------------------------------


class Adt:
    def __init__(self, name, nparams=0, kind="struct", variants=None):
        self.name, self.nparams, self.kind = name, nparams, kind
        self.variants = variants if variants is not None else [[]]

    def fields(self):
        return [f for v in self.variants for f in v]


class Trait:
    def __init__(self, name, nextra=0, flags=()):
        self.name, self.nextra, self.flags = name, nextra, frozenset(flags)

    @property
    def coinductive(self):
        return "coinductive" in self.flags or "auto" in self.flags


class Impl:
    def __init__(self, nvars, head, wcs=(), positive=True):
        self.nvars, self.head, self.wcs, self.positive = nvars, head, list(wcs), positive


class Prog:
    def __init__(self, adts, traits, impls, shape="?"):
        self.adts, self.traits, self.impls, self.shape = list(adts), list(traits), list(impls), shape
        self.fixed_goals = None      # when set: the goals to pose for this program (shapes whose goals are part of the design)
        self.order = ([("adt", i) for i in range(len(self.adts))] + [("trait", i) for i in range(len(self.traits))]
                      + [("impl", i) for i in range(len(self.impls))])

    def adt(self, name):
        return next(a for a in self.adts if a.name == name)

    def trait(self, name):
        return next(t for t in self.traits if t.name == name)

    # symbol table of the model: ADT i -> i ; trait j -> 1000 + j ; labels of wider syntax -> 5000+
    def symtab(self):
        st = {}
        for i, a in enumerate(self.adts):
            st["adt:" + a.name] = i
        for j, t in enumerate(self.traits):
            st["trait:" + t.name] = 1000 + j
        return st

    def copy(self):
        p = Prog([Adt(a.name, a.nparams, a.kind, [list(v) for v in a.variants]) for a in self.adts],
                 [Trait(t.name, t.nextra, t.flags) for t in self.traits],
                 [Impl(i.nvars, i.head, list(i.wcs), i.positive) for i in self.impls], self.shape)
        p.order = list(self.order)
        p.fixed_goals = self.fixed_goals
        return p


def adt(name, *args):
    return ("adt", name, tuple(args))


def var(k):
    return ("var", k)


def ty_vars(t, acc=None):
    acc = set() if acc is None else acc
    if t[0] == "var":
        acc.add(t[1])
    elif t[0] == "adt":
        for a in t[2]:
            ty_vars(a, acc)
    return acc


def atom_vars(a):
    acc = set()
    for t in a[1]:
        ty_vars(t, acc)
    return acc


def ty_depth(t):
    if t[0] != "adt" or not t[2]:
        return 1
    return 1 + max(ty_depth(a) for a in t[2])


def ty_size(t):
    if t[0] != "adt":
        return 1
    return 1 + sum(ty_size(a) for a in t[2])


def subst_ty(t, m):
    """m: dict var-id -> ty"""
    if t[0] == "var":
        return m.get(t[1], t)
    if t[0] == "adt":
        return ("adt", t[1], tuple(subst_ty(a, m) for a in t[2]))
    return t


def subst_atom(a, m):
    return (a[0], tuple(subst_ty(t, m) for t in a[1]))


# ---------------------------------------------------------------------------------------
# text rendering
# ---------------------------------------------------------------------------------------

def ty_text(t, vname):
    if t[0] == "var":
        return vname(t[1])
    if t[0] == "ph":
        raise ValueError("placeholders cannot be written in source text")
    if not t[2]:
        return t[1]
    return "%s<%s>" % (t[1], ", ".join(ty_text(a, vname) for a in t[2]))


def atom_text(a, vname):
    tr, args = a
    s = ty_text(args[0], vname) + ": " + tr
    if len(args) > 1:
        s += "<%s>" % ", ".join(ty_text(x, vname) for x in args[1:])
    return s


def _ivar(k):
    return "T%d" % k


def _gvar(k):
    return "X%d" % k


def item_text(p: Prog, kind, i):
    if kind == "adt":
        a = p.adts[i]
        params = "<%s>" % ", ".join(_ivar(k) for k in range(a.nparams)) if a.nparams else ""
        if a.kind == "struct":
            fs = ", ".join("f%d: %s" % (k, ty_text(f, _ivar)) for k, f in enumerate(a.variants[0]))
            return "struct %s%s { %s }" % (a.name, params, fs)
        vs = ", ".join("V%d { %s }" % (n, ", ".join("f%d: %s" % (k, ty_text(f, _ivar)) for k, f in enumerate(v)))
                       for n, v in enumerate(a.variants))
        return "enum %s%s { %s }" % (a.name, params, vs)
    if kind == "trait":
        t = p.traits[i]
        attrs = "".join("#[%s] " % f for f in sorted(t.flags))
        params = "<%s>" % ", ".join("P%d" % k for k in range(t.nextra)) if t.nextra else ""
        return "%strait %s%s { }" % (attrs, t.name, params)
    im = p.impls[i]
    params = "<%s>" % ", ".join(_ivar(k) for k in range(im.nvars)) if im.nvars else ""
    tr, args = im.head
    trp = "<%s>" % ", ".join(ty_text(x, _ivar) for x in args[1:]) if len(args) > 1 else ""
    wc = (" where " + ", ".join(atom_text(w, _ivar) for w in im.wcs)) if im.wcs else ""
    return "impl%s %s%s%s for %s%s { }" % (params, "" if im.positive else "!", tr, trp, ty_text(args[0], _ivar), wc)


def to_text(p: Prog) -> str:
    return "\n".join(item_text(p, k, i) for k, i in p.order)


def goal_text(g) -> str:
    k = g[0]
    if k == "atom":
        return atom_text(g[1], _gvar)
    if k == "eq":
        return "%s = %s" % (ty_text(g[1], _gvar), ty_text(g[2], _gvar))
    if k == "true":
        # chalk has no literal `true`; an empty forall-free tautology
        return "forall<Xtriv> { Xtriv = Xtriv }"
    if k == "and":
        return ", ".join(_paren(goal_text(x), x) for x in g[1])
    if k in ("forall", "exists"):
        return "%s<%s> { %s }" % (k, ", ".join(_gvar(v) for v in g[1]), goal_text(g[2]))
    if k == "if":
        return "if (%s) { %s }" % ("; ".join(hyp_text(h) for h in g[1]), goal_text(g[2]))
    if k == "not":
        return "not { %s }" % goal_text(g[1])
    raise ValueError(g)


def _paren(s, g):
    return "(" + s + ")" if g[0] == "and" else s


def hyp_text(h):
    vs, head, body = h
    inner = atom_text(head, _gvar)
    if body:
        inner += " :- " + ", ".join(atom_text(b, _gvar) for b in body)
    if vs:
        return "forall<%s> { %s }" % (", ".join(_gvar(v) for v in vs), inner)
    return inner


# ---------------------------------------------------------------------------------------
# model rendering (sx values for Chalk.Logic.Program / Sem)
# ---------------------------------------------------------------------------------------

def ty_model(t, st, venv):
    """venv: function var-id -> de Bruijn index (Nat)"""
    if t[0] == "var":
        return ("TVar", sx.Nat(venv(t[1])))
    if t[0] == "ph":
        return ("TPh", t[1])
    return ("tapp", st["adt:" + t[1]], [ty_model(a, st, venv) for a in t[2]])


def atom_model(a, st, venv):
    return ("tapp", st["trait:" + a[0]], [ty_model(t, st, venv) for t in a[1]])


def auto_clauses(p: Prog):
    """The auto-trait rule (clauses.rs push_auto_trait_impls): for every auto trait A and ADT S
    without any impl (positive or negative) of A whose self type is an S<..>:
        A(S<T..>) :- A(f) for every field type f of S."""
    out = []
    for t in p.traits:
        if "auto" not in t.flags:
            continue
        for a in p.adts:
            if any(i.head[0] == t.name and i.head[1][0][0] == "adt" and i.head[1][0][1] == a.name for i in p.impls):
                continue
            self_ty = ("adt", a.name, tuple(var(k) for k in range(a.nparams)))
            body = []
            for f in a.fields():
                at = (t.name, (f,))
                if at not in body:
                    body.append(at)
            out.append(Impl(a.nparams, (t.name, (self_ty,)), body))
    return out


def clauses(p: Prog):
    """All Horn clauses of the program as Impl objects (positive impls + auto-trait rule)."""
    return [i for i in p.impls if i.positive] + auto_clauses(p)


def to_model(p: Prog):
    st = p.symtab()
    ident = lambda k: k  # clause variable k = TVar k
    cls = [("mkClause", atom_model(c.head, st, ident), [atom_model(w, st, ident) for w in c.wcs]) for c in clauses(p)]
    co = [st["trait:" + t.name] for t in p.traits if t.coinductive]
    return ("mkProg", cls, co)


def goal_model(g, st, scope=()):
    """scope: tuple of variable ids, innermost LAST.  de Bruijn index = distance from the end."""
    def venv(k):
        for d, v in enumerate(reversed(scope)):
            if v == k:
                return d
        raise KeyError("unbound goal variable %r" % (k,))
    kind = g[0]
    if kind == "atom":
        return ("GAtom", atom_model(g[1], st, venv))
    if kind == "eq":
        return ("GEq", ty_model(g[1], st, venv), ty_model(g[2], st, venv))
    if kind == "true":
        return "GTrue"
    if kind == "and":
        gs = [goal_model(x, st, scope) for x in g[1]]
        out = gs[-1]
        for x in reversed(gs[:-1]):
            out = ("GAnd", x, out)
        return out
    if kind in ("forall", "exists"):
        inner = goal_model(g[2], st, scope + tuple(g[1]))
        for _ in g[1]:
            inner = ("GForall" if kind == "forall" else "GExists", inner)
        return inner
    if kind == "if":
        hs = []
        for vs, head, body in g[1]:
            # clause variables are the innermost binders: index 0..n-1 (first declared = 0),
            # goal variables are shifted by n
            n = len(vs)
            def henv(k, vs=vs, n=n):
                if k in vs:
                    return vs.index(k)
                return n + venv(k)
            hs.append(("mkHyp", sx.Nat(n), ("mkClause", atom_model(head, st, henv), [atom_model(b, st, henv) for b in body])))
        return ("GIf", hs, goal_model(g[2], st, scope))
    if kind == "not":
        return ("GNot", goal_model(g[1], st, scope))
    raise ValueError(g)


def peel(g):
    """Mirror of chalk's `into_peeled_goal` on the abstract goal: strips the outer quantifiers,
    looking through outer `if`s exactly like chalk does (the hypotheses stay in the body, which
    has the same meaning as moving them into the environment).
    Returns (prefix, body, evars): prefix = list of ("E", var) / ("A", var, ph_id) in binder
    order, the forall variables numbered 0,1,.. in peel order (TPh k); evars = the exists
    variables in peel order; body = the goal without the peeled quantifiers."""
    prefix, evars, nph = [], [], [0]

    def go(g):
        if g[0] in ("forall", "exists"):
            for v in g[1]:
                if g[0] == "forall":
                    prefix.append(("A", v, nph[0]))
                    nph[0] += 1
                else:
                    prefix.append(("E", v))
                    evars.append(v)
            return go(g[2])
        if g[0] == "if":
            return ("if", g[1], go(g[2]))
        return g
    body = go(g)
    return prefix, body, evars


def query_model(g, st):
    """The peeled query for Chalk.Logic.Contract:  (mkQuery m [ub ...] body) — the outer forall
    variables become the placeholders TPh 0.., the outer exists variables are the free
    variables TVar j of the body (j = position in `evars`, de Bruijn: LAST exists var = 0 ...
    no: Contract uses positional variables: TVar j = j-th exists variable), ub_j = number of
    outer foralls before the j-th exists (the placeholders it may name)."""
    prefix, body, evars = peel(g)
    phmap = {p[1]: ("ph", p[2]) for p in prefix if p[0] == "A"}
    ubs, seen = [], 0
    for p in prefix:
        if p[0] == "A":
            seen += 1
        else:
            ubs.append(seen)
    body = subst_goal(body, phmap)
    # Contract.sat_query evaluates the body under rho = rev theta, so that the j-th exists
    # variable is TVar (n-1-j) in de Bruijn terms: scope = evars with innermost last.
    return ("mkQuery", seen, ubs, goal_model(body, st, tuple(evars))), evars


def subst_goal(g, m):
    k = g[0]
    if k == "atom":
        return ("atom", subst_atom(g[1], m))
    if k == "eq":
        return ("eq", subst_ty(g[1], m), subst_ty(g[2], m))
    if k == "true":
        return g
    if k == "and":
        return ("and", tuple(subst_goal(x, m) for x in g[1]))
    if k in ("forall", "exists"):
        return (k, g[1], subst_goal(g[2], m))
    if k == "if":
        return ("if", tuple((vs, subst_atom(h, m), tuple(subst_atom(b, m) for b in body)) for vs, h, body in g[1]),
                subst_goal(g[2], m))
    if k == "not":
        return ("not", subst_goal(g[1], m))
    raise ValueError(g)


def goal_kind(g):
    """Coarse classification used in evidence."""
    ks = set()

    def walk(x):
        ks.add(x[0])
        if x[0] == "and":
            for y in x[1]:
                walk(y)
        elif x[0] in ("forall", "exists"):
            walk(x[2])
        elif x[0] == "if":
            walk(x[2])
        elif x[0] == "not":
            walk(x[1])
    walk(g)
    for k in ("exists", "not", "if", "forall", "and", "eq"):
        if k in ks:
            return k
    return "atom"


def has_exists(g):
    k = g[0]
    if k == "exists":
        return True
    if k == "and":
        return any(has_exists(x) for x in g[1])
    if k == "forall":
        return has_exists(g[2])
    if k == "if":
        return has_exists(g[2])
    if k == "not":
        return has_exists(g[1])
    return False


# ---------------------------------------------------------------------------------------
# the dump comparison: what `solve ... [Dump]` must print for this program
# ---------------------------------------------------------------------------------------

def _dump_ty(t):
    if t[0] == "var":
        return ("BV", t[1])
    return ("App", sx.Str("adt:" + t[1]), [_dump_ty(a) for a in t[2]])


def expected_dump(p: Prog):
    """Canonical (order-insensitive) form of the program, comparable with `normalize_dump`."""
    adts = sorted(sx.to_sexp(("Adt", sx.Str(a.name), a.nparams, sx.Str(a.kind.capitalize()),
                              [[_dump_ty(f) for f in v] for v in a.variants], [])) for a in p.adts)
    traits = sorted(sx.to_sexp(("Trait", sx.Str(t.name), 1 + t.nextra, sorted(t.flags), [], sx.Str(""), 0)) for t in p.traits)
    impls = sorted(sx.to_sexp(("Impl", im.nvars, im.positive, ("TraitRef", sx.Str(im.head[0]), [_dump_ty(x) for x in im.head[1]]),
                               [("Implemented", sx.Str(w[0]), [_dump_ty(x) for x in w[1]]) for w in im.wcs], 0)) for im in p.impls)
    return adts, traits, impls


def normalize_dump(d):
    """d: parsed `(Program [adts] [traits] [impls] (Extra ...))` from the harness."""
    assert sx.head(d) == "Program", d
    _, adts, traits, impls, extra = d
    def flags(t):
        return ("Trait", t[1], t[2], sorted(t[3]), t[4], t[5], t[6])
    return (sorted(sx.to_sexp(a) for a in adts), sorted(sx.to_sexp(flags(t)) for t in traits),
            sorted(sx.to_sexp(i) for i in impls)), extra


def dump_matches(p: Prog, d):
    got, extra = normalize_dump(d)
    exp = expected_dump(p)
    return (list(got[0]), list(got[1]), list(got[2])) == (list(exp[0]), list(exp[1]), list(exp[2])) and \
        tuple(extra[1:]) == (0, 0, 0)


# ---------------------------------------------------------------------------------------
# answers: harness sx -> abstract types / model
# ---------------------------------------------------------------------------------------

def answer_ty(t):
    """harness ty -> abstract ty with ("var", i) for answer-bound variables and ("ph", (u, i))."""
    h = sx.head(t)
    if h == "App":
        label = str(t[1])
        if label.startswith("adt:"):
            return ("adt", label[4:], tuple(answer_ty(a) for a in t[2]))
        return ("adt", "#" + label, tuple(answer_ty(a) for a in t[2]))
    if h == "BV":
        return ("var", t[1])
    if h == "Ph":
        return ("ph", (t[1], t[2]))
    if h == "Free":
        return ("free",)
    if h == "Lt":
        # lifetimes are not compared (their values are entangled with the region constraints)
        return ("adt", "#lifetime", ())
    return ("adt", "#" + sx.to_sexp(t), ())


def answer_ty_model(t, st, phmap, labels=None):
    """abstract answer type -> model sx.  Answer-bound variable i = TVar i (positional, nat).
    phmap: (universe, idx) -> placeholder id.  labels: dict for non-ADT labels (allocates 5000+)."""
    if t[0] == "var":
        return ("TVar", sx.Nat(t[1]))
    if t[0] == "ph":
        return ("TPh", phmap[t[1]])
    name = t[1]
    if name.startswith("#"):
        if labels is None:
            raise KeyError(name)
        sym = labels.setdefault(name, 5000 + len(labels))
    else:
        sym = st["adt:" + name]
    return ("tapp", sym, [answer_ty_model(a, st, phmap, labels) for a in t[2]])


def prefix_phmap(prefix_sx):
    """harness prefix `[E (A u i) ...]` -> ({(u, i): k}, [ub_j ...], {u: number of prefix
    placeholders with universe <= u}); k = position among the foralls (TPh k)."""
    m, ubs, k, per_u = {}, [], 0, {}
    for p in prefix_sx:
        if sx.head(p) == "A":
            m[(p[1], p[2])] = k
            k += 1
            per_u[p[1]] = k
        else:
            ubs.append(k)
    return m, ubs, per_u


def universe_ub(per_u, u):
    """number of prefix placeholders visible from universe u"""
    best = 0
    for uu, k in per_u.items():
        if uu <= u:
            best = max(best, k)
    return best


def answer_model(ans, st, prefix_sx, labels=None):
    """harness answer -> model sx of Chalk.Logic.Contract.answer, or None for non-answers
    (Panic / Timeout / Abort / Skipped / Answers / Lim are handled by the caller).
    `Free` entries (an exists variable that does not occur in the goal) become fresh answer
    variables appended after the solver's own binders."""
    h = sx.head(ans)
    phmap, ubs, per_u = prefix_phmap(prefix_sx)
    if h == "NoSolution":
        return "ANone"
    if h == "AmbigUnknown":
        return "AUnknown"
    if h in ("Unique", "AmbigDefinite", "AmbigSuggested", "Definite", "Ambiguous"):
        vubs = [universe_ub(per_u, u) for u in ans[1]]
        out = []
        for j, t in enumerate(ans[2]):
            a = answer_ty(t)
            if a == ("free",):
                out.append(("TVar", sx.Nat(len(vubs))))
                vubs.append(ubs[j] if j < len(ubs) else 0)
            else:
                out.append(answer_ty_model(a, st, phmap, labels))
        ctor = {"Unique": "AUnique", "AmbigDefinite": "ADefinite", "AmbigSuggested": "ASuggested",
                "Definite": "AUnique", "Ambiguous": "ASuggested"}[h]
        return (ctor, vubs, out)
    return None


# ---------------------------------------------------------------------------------------
# universe of concrete types
# ---------------------------------------------------------------------------------------

def universe(p: Prog, depth=2, limit=200, rng=None):
    """All ground types over the program's ADTs up to the given depth (constants = depth 1),
    truncated to `limit` (deterministically; shuffled with rng first when given)."""
    levels = [[("adt", a.name, ()) for a in p.adts if a.nparams == 0]]
    allt = list(levels[0])
    for _ in range(depth - 1):
        new = []
        for a in p.adts:
            if a.nparams == 0:
                continue
            for args in itertools.product(allt, repeat=a.nparams):
                t = ("adt", a.name, tuple(args))
                if t not in allt and t not in new:
                    new.append(t)
                if len(allt) + len(new) > 4 * limit:
                    break
        allt += new
    if rng is not None:
        head, tail = allt[:len(levels[0])], allt[len(levels[0]):]
        rng.shuffle(tail)
        allt = head + tail
    return allt[:limit]


# ---------------------------------------------------------------------------------------
# permutation (C13)
# ---------------------------------------------------------------------------------------

def permute(p: Prog, rng) -> Prog:
    """Same program, items and where-clauses in a different order (declaration order of the
    *abstract* lists is kept, only the text order and the where-clause order change)."""
    q = p.copy()
    rng.shuffle(q.order)
    for im in q.impls:
        rng.shuffle(im.wcs)
    return q


# ---------------------------------------------------------------------------------------
# deliberate shapes
# ---------------------------------------------------------------------------------------

def _consts(n, pre="S"):
    return [Adt("%s%d" % (pre, i)) for i in range(n)]


def shape_diamond(rng):
    base = rng.random() < 0.7
    adts = _consts(4) + [Adt("W", 1)]
    tr = [Trait("Tr0")]
    A, B, C, D = [adt("S%d" % i) for i in range(4)]
    im = [Impl(0, ("Tr0", (A,)), [("Tr0", (B,)), ("Tr0", (C,))]),
          Impl(0, ("Tr0", (B,)), [("Tr0", (D,))]),
          Impl(0, ("Tr0", (C,)), [("Tr0", (D,))]),
          Impl(1, ("Tr0", (adt("W", var(0)),)), [("Tr0", (var(0),))])]
    if base:
        im.append(Impl(0, ("Tr0", (D,))))
    return Prog(adts, tr, im, "diamond" + ("" if base else "-nobase"))


def shape_ind_cycle(rng):
    base = rng.random() < 0.5
    n = rng.randint(2, 4)
    adts = _consts(n + 1) + [Adt("W", 1)]
    im = [Impl(0, ("Tr0", (adt("S%d" % i),)), [("Tr0", (adt("S%d" % ((i + 1) % n)),))]) for i in range(n)]
    if base:
        im.append(Impl(0, ("Tr0", (adt("S%d" % rng.randrange(n)),))))
    im.append(Impl(1, ("Tr0", (adt("W", var(0)),)), [("Tr0", (var(0),)), ("Tr0", (adt("W", var(0)),))] if rng.random() < 0.5 else [("Tr0", (var(0),))]))
    return Prog(adts, [Trait("Tr0")], im, "ind-cycle" + ("-base" if base else "-nobase"))


def shape_mutual(rng):
    co = rng.random() < 0.3
    fl = ("coinductive",) if co else ()
    adts = _consts(3) + [Adt("W", 1)]
    tr = [Trait("Tr0", 0, fl), Trait("Tr1", 0, fl)]
    im = [Impl(1, ("Tr0", (adt("W", var(0)),)), [("Tr1", (var(0),))]),
          Impl(1, ("Tr1", (adt("W", var(0)),)), [("Tr0", (var(0),))]),
          Impl(0, ("Tr0", (adt("S0"),)), [("Tr1", (adt("S0"),))]),
          Impl(0, ("Tr1", (adt("S0"),)), [("Tr0", (adt("S0"),))])]
    if rng.random() < 0.6:
        im.append(Impl(0, ("Tr0", (adt("S1"),))))
    if rng.random() < 0.4:
        im.append(Impl(0, ("Tr1", (adt("S1"),))))
    return Prog(adts, tr, im, "mutual" + ("-co" if co else ""))


def shape_chain(rng):
    n = rng.randint(4, 12)
    base = rng.random() < 0.7
    adts = _consts(n + 1)
    im = [Impl(0, ("Tr0", (adt("S%d" % i),)), [("Tr0", (adt("S%d" % (i + 1)),))]) for i in range(n)]
    if base:
        im.append(Impl(0, ("Tr0", (adt("S%d" % n),))))
    return Prog(adts, [Trait("Tr0")], im, "chain" + ("" if base else "-nobase"))


def shape_nested_chain(rng):
    adts = _consts(2) + [Adt("W", 1), Adt("P", 2)]
    im = [Impl(1, ("Tr0", (adt("W", var(0)),)), [("Tr0", (var(0),))]),
          Impl(2, ("Tr0", (adt("P", var(0), var(1)),)), [("Tr0", (var(0),)), ("Tr0", (var(1),))]),
          Impl(0, ("Tr0", (adt("S0"),)))]
    return Prog(adts, [Trait("Tr0")], im, "nested-chain")


def shape_poly_rec(rng):
    adts = _consts(2) + [Adt("Vec", 1)]
    im = [Impl(1, ("Tr0", (var(0),)), [("Tr0", (adt("Vec", var(0)),))])]
    if rng.random() < 0.6:
        im.append(Impl(0, ("Tr0", (adt("S0"),))))
    return Prog(adts, [Trait("Tr0")], im, "poly-rec")


def shape_overlap(rng):
    adts = _consts(3) + [Adt("Vec", 1)]
    tr = [Trait("Foo", 1)]
    im = [Impl(1, ("Foo", (adt("Vec", var(0)), var(0)))),
          Impl(0, ("Foo", (adt("Vec", adt("S0")), adt("S1"))))]
    if rng.random() < 0.5:
        im.append(Impl(1, ("Foo", (var(0), adt("S2")))))
    if rng.random() < 0.3:
        im.append(Impl(2, ("Foo", (adt("Vec", var(0)), adt("Vec", var(1)))), [("Foo", (var(0), var(1)))]))
    return Prog(adts, tr, im, "overlap-repeat")


def shape_co_cycle(rng):
    adts = _consts(3) + [Adt("W", 1)]
    tr = [Trait("C0", 0, ("coinductive",))]
    im = [Impl(0, ("C0", (adt("S0"),)), [("C0", (adt("S1"),))]),
          Impl(0, ("C0", (adt("S1"),)), [("C0", (adt("S0"),))])]
    v = rng.randrange(4)
    if v == 0:
        im.append(Impl(1, ("C0", (adt("W", var(0)),)), [("C0", (adt("W", var(0)),))]))
    elif v == 1:
        im.append(Impl(1, ("C0", (adt("W", var(0)),)), [("C0", (var(0),))]))          # F13/F14 class
    elif v == 2:
        im.append(Impl(0, ("C0", (adt("W", adt("S2")),)), [("C0", (adt("S2"),))]))
    else:
        im.append(Impl(0, ("C0", (adt("S2"),)), [("C0", (adt("S2"),)), ("C0", (adt("S0"),))]))
    return Prog(adts, tr, im, "co-cycle")


def shape_growing(rng):
    adts = _consts(2) + [Adt("W", 1)]
    im = [Impl(0, ("Tr0", (adt("S0"),))), Impl(1, ("Tr0", (adt("W", var(0)),)), [("Tr0", (var(0),))])]
    if rng.random() < 0.5:
        im.append(Impl(0, ("Tr0", (adt("S1"),)), [("Tr0", (adt("W", adt("S1")),))]))
    return Prog(adts, [Trait("Tr0")], im, "growing")


def shape_auto(rng):
    v = rng.randrange(3)
    if v == 0:
        adts = [Adt("A", 0, "struct", [[adt("B")]]), Adt("B", 0, "struct", [[adt("A")]]), Adt("N"), Adt("H", 0, "struct", [[adt("A"), adt("N")]])]
        im = [Impl(0, ("Send", (adt("N"),)), [], positive=False)]
    elif v == 1:
        adts = [Adt("Z"), Adt("N"), Adt("W", 1, "struct", [[var(0)]]), Adt("L", 1, "enum", [[], [var(0), adt("L", var(0))]])]
        im = [Impl(0, ("Send", (adt("N"),)), [], positive=False)]
    else:
        adts = [Adt("Z"), Adt("N"), Adt("W", 1, "struct", [[var(0)]]), Adt("Q", 1, "struct", [[adt("N")]])]
        im = [Impl(0, ("Send", (adt("N"),)), [], positive=False), Impl(1, ("Send", (adt("Q", var(0)),)), [("Send", (var(0),))])]
    return Prog(adts, [Trait("Send", 0, ("auto",))], im, "auto")


def shape_co_scc(rng):
    """a root outside a coinductive strongly connected component that is not a simple ring
    (some member has two successors inside the component) — through explicit impls of a
    #[coinductive] trait or through the fields of structs under an #[auto] trait (F7q)"""
    n = rng.randint(3, 5)
    for _ in range(50):
        succ = {i: sorted(rng.sample(range(1, n + 1), rng.choice([1, 1, 2]))) for i in range(1, n + 1)}
        # strongly connected?
        def reach(a):
            seen, todo = set(), [a]
            while todo:
                x = todo.pop()
                for y in succ[x]:
                    if y not in seen:
                        seen.add(y)
                        todo.append(y)
            return seen
        if all(reach(i) == set(range(1, n + 1)) for i in range(1, n + 1)) and any(len(v) > 1 for v in succ.values()):
            break
    succ[0] = [rng.randint(1, n)]
    S = lambda i: adt("S%d" % i)
    if rng.random() < 0.5:
        adts = [Adt("S%d" % i, 0, "struct", [[S(j) for j in succ[i]]]) for i in range(n + 1)]
        return Prog(adts, [Trait("Sync", 0, ("auto",))], [], "co-scc-auto")
    adts = [Adt("S%d" % i) for i in range(n + 1)]
    im = [Impl(0, ("C0", (S(i),)), [("C0", (S(j),)) for j in succ[i]]) for i in range(n + 1)]
    return Prog(adts, [Trait("C0", 0, ("coinductive",))], im, "co-scc")


def _andor_prog(traits, clauses, facts, shape, nstructs=1):
    """traits: [(name, coinductive)], clauses: [(head, [body names])] as blanket impls
    `impl<T> head for T where T: b ..`, facts: [(trait, struct)] as `impl trait for struct`."""
    adts = [Adt(n) for n in ("A", "B")[:nstructs]]
    tr = [Trait(n, 0, ("coinductive",) if co else ()) for n, co in traits]
    im = [Impl(1, (h, (var(0),)), [(b, (var(0),)) for b in body]) for h, body in clauses]
    im += [Impl(0, (t, (adt(s),))) for t, s in facts]
    pr = Prog(adts, tr, im, shape)
    goals = [("atom", (n, (adt(a.name),))) for a in adts for n, _ in traits]
    pr.fixed_goals = goals
    return pr


def shape_andor(rng):
    """Propositional and-or programs: 4-8 parameterless traits, one or two unit structs, blanket
    impls `impl<T> Pi for T where T: Pj, T: Pk ..` (1-3 clauses per trait, 0-3 body atoms) and
    facts `impl Pi for A`; all-inductive / all-coinductive / coinductive on top of inductive
    (no mixed cycles).  Dense cycles, siblings that read a cycle member after it was popped,
    cycle heads whose provisional value changes between iterations.  Goals: every `A: Pi`
    (ground, so the oracle is exact) plus a few conjunctions."""
    mode = rng.choice(["ind", "ind", "co", "co", "co-on-ind"])
    n = rng.randint(4, 8)
    names = ["P%d" % i for i in range(n)]
    if mode == "ind":
        co = [False] * n
    elif mode == "co":
        co = [True] * n
    else:
        k = rng.randint(1, n - 1)
        co = [i >= k for i in range(n)]
    nstructs = rng.choice([1, 1, 2])
    clauses, facts = [], []
    frozen = set()
    if rng.random() < 0.45 and n >= 5:
        # skeleton "a sibling reads a cycle member after it was popped, and the cycle head
        # changes its provisional value": H -> G1 -> H, G2 -> G1, consumer R; X decides H late
        same = [i for i in range(n) if co[i] == co[-1]]
        low = [i for i in range(n) if not co[i] or co[-1] == co[i]]
        if len(same) >= 4:
            h, g1, g2, r = rng.sample(same, 4)
            rest = [i for i in low if i not in (h, g1, g2, r)]
            if rest:
                x = rng.choice(rest)
                H, G1, G2, R, X = names[h], names[g1], names[g2], names[r], names[x]
                if co[h]:
                    # coinductive: H looks fine while the cycle is assumed, X (no clause) refutes it
                    clauses += [(H, [G1, G2, X]), (G1, [H]), (G2, [G1]), (R, [H]), (R, [G2])]
                else:
                    # inductive: H fails on the cycle, X (a fact) proves it later
                    clauses += [(H, [G1]), (H, [G2]), (H, [X]), (G1, [H]), (G2, [G1]), (R, [H, G2])]
                    facts.append((X, "A"))
                frozen = {H, G1, G2, R, X}
    for i in range(n):
        if names[i] in frozen:
            continue
        allowed = [names[j] for j in range(n) if co[i] or not co[j]]
        r = rng.random()
        nclauses = 0 if r < 0.12 else rng.choice([1, 1, 2, 2, 3])
        for _ in range(nclauses):
            nb = rng.choice([0, 1, 1, 2, 2, 3])
            if nb == 0:
                if rng.random() < 0.6:
                    facts.append((names[i], rng.choice(["A", "B"][:nstructs])))
                else:
                    clauses.append((names[i], []))
            else:
                clauses.append((names[i], [rng.choice(allowed) for _ in range(nb)]))
    for c in clauses:
        rng.shuffle(c[1])
    rng.shuffle(clauses)
    pr = _andor_prog(list(zip(names, co)), clauses, facts, "andor-" + mode, nstructs)
    gs = pr.fixed_goals
    for _ in range(2):
        a, b = rng.sample(gs, 2)
        gs.append(("and", (a, b)))
    if rng.random() < 0.5:
        gs.append(("not", rng.choice(gs[:n])))
    # a hypothesis must not leak to the conjuncts that follow its `if`
    h, g1 = rng.sample(gs[:n], 2)
    gs.append(("and", (("if", (((), h[1], ()),), g1), rng.choice([h, g1, ("not", h)]))))
    pr = permute(pr, rng)          # the engines are sensitive to impl and where-clause order
    return pr


def andor_demo_programs():
    """the two witnesses of the `minimums.update_from` seed (provisional result read by a
    sibling after the cycle member was popped)"""
    co = _andor_prog([("R", False), ("Never", False), ("H", True), ("G1", True), ("G2", True)],
                     [("H", ["G1", "G2", "Never"]), ("G1", ["H"]), ("G2", ["G1"]), ("R", ["H"]), ("R", ["G2"])], [], "corpus-andor-co")
    ind = _andor_prog([("R", False), ("Base", False), ("H", False), ("G1", False), ("G2", False)],
                      [("H", ["G1"]), ("H", ["G2"]), ("H", ["Base"]), ("G1", ["H"]), ("G2", ["G1"]), ("R", ["H", "G2"])],
                      [("Base", "A")], "corpus-andor-ind")
    return [co, ind]


def _nest(name, k, base):
    t = base
    for _ in range(k):
        t = ("adt", name, (t,))
    return t


def shape_size_boundary(rng, sizes=(4, 5, 6, 9, 10, 29, 30)):
    """Ground goals whose types have exactly the given node counts, over impls whose
    where-clauses repeat the (whole) header type: every type of the derivation has the size
    of the goal's type, so the search is within a limit `max_size` iff that size <= max_size."""
    v = rng.randrange(4)
    adts = [Adt("X"), Adt("V", 1), Adt("Y")]
    VT = adt("V", var(0))
    if v == 0:
        tr = [Trait("Foo"), Trait("Bar")]
        im = [Impl(1, ("Foo", (VT,)), [("Bar", (VT,))]), Impl(1, ("Bar", (VT,)))]
    elif v == 1:
        tr = [Trait("Foo"), Trait("Bar"), Trait("Baz")]
        im = [Impl(1, ("Foo", (VT,)), [("Bar", (VT,)), ("Baz", (VT,))]), Impl(1, ("Bar", (VT,)), [("Baz", (VT,))]), Impl(1, ("Baz", (VT,)))]
    elif v == 2:
        # true for X-based towers, false for Y-based ones
        tr = [Trait("Foo"), Trait("Bar")]
        im = [Impl(1, ("Foo", (VT,)), [("Bar", (VT,))]), Impl(1, ("Bar", (VT,)), [("Bar", (var(0),))]), Impl(0, ("Bar", (adt("X"),)))]
    else:
        tr = [Trait("Foo", 0, ("coinductive",)), Trait("Bar")]
        im = [Impl(1, ("Foo", (VT,)), [("Foo", (VT,)), ("Bar", (VT,))]), Impl(1, ("Bar", (VT,)))]
    pr = Prog(adts, tr, im, "size-boundary")
    goals = []
    for s in sizes:
        for base in (("X", "Y") if v == 2 else ("X",)):
            if v == 2 and s > 12:
                continue          # variant 2 walks the whole tower: keep it within overflow depth
            goals.append(("atom", ("Foo", (_nest("V", s - 1, adt(base)),))))
    pr.fixed_goals = goals
    return pr


def shape_multi_arg(rng):
    """Multi-parameter structs whose GROUND impl headers differ in an earlier argument only /
    in a later argument only / in both (2- and 3-parameter variants): aggregation of several
    answers has to generalise every differing position (Definite guidance must cover all
    solutions)."""
    three = rng.random() < 0.4
    adts = [Adt("X"), Adt("Y"), Adt("Z"), Adt("P", 3 if three else 2)]
    k = 3 if three else 2
    cs = [adt("X"), adt("Y"), adt("Z")]
    base = [rng.choice(cs) for _ in range(k)]
    mode = rng.choice(["earlier", "later", "both", "middle" if three else "earlier", "three-heads"])
    heads = [tuple(base)]

    def vary(h, positions):
        h = list(h)
        for i in positions:
            h[i] = rng.choice([c for c in cs if c != h[i]])
        return tuple(h)
    if mode == "earlier":
        heads.append(vary(base, [0]))
    elif mode == "later":
        heads.append(vary(base, [k - 1]))
    elif mode == "both":
        heads.append(vary(base, [0, k - 1]))
    elif mode == "middle":
        heads.append(vary(base, [1]))
    else:
        heads.append(vary(base, [0]))
        heads.append(vary(base, [rng.randrange(k)]))
    heads = list(dict.fromkeys(heads))
    tr = [Trait("Foo")]
    im = [Impl(0, ("Foo", (("adt", "P", h),))) for h in heads]
    if rng.random() < 0.3:
        tr.append(Trait("Bar"))
        im.append(Impl(k, ("Bar", (("adt", "P", tuple(var(i) for i in range(k))),)), [("Foo", (("adt", "P", tuple(var(i) for i in range(k))),))]))
    pr = Prog(adts, tr, im, "multi-arg-" + mode)
    vs = tuple(range(10, 10 + k))
    goals = [("exists", (1,), ("atom", ("Foo", (var(1),)))),
             ("exists", vs, ("atom", ("Foo", (("adt", "P", tuple(var(v) for v in vs)),)))),
             ("exists", vs[:1], ("atom", ("Foo", (("adt", "P", (var(vs[0]),) + tuple(base[1:])),)))),
             ("exists", vs[-1:], ("atom", ("Foo", (("adt", "P", tuple(base[:-1]) + (var(vs[-1]),)),)))),
             ("atom", ("Foo", (("adt", "P", heads[-1]),)))]
    if len(tr) > 1:
        goals.append(("exists", (2,), ("atom", ("Bar", (var(2),)))))
    pr.fixed_goals = goals
    return pr


def shape_neg_inv(rng):
    """`not` below hypotheses that mention forall-bound variables: chalk inverts the placeholders
    of the negated subgoal AND of its environment into existentials (the negative literal fails
    iff SOME instantiation of the placeholders makes the subgoal derivable), which differs from
    the generic-constant reading exactly when a hypothesis can be instantiated to feed the
    negated goal.  Family around: impl Bar for A where A: Foo; impl<T> Bar for S<T> where T: Foo;
    impl Foo for B."""
    adts = [Adt("A"), Adt("B"), Adt("S", 1)]
    tr = [Trait("Foo"), Trait("Bar")]
    A, B = adt("A"), adt("B")
    S = lambda t: adt("S", t)
    im = [Impl(0, ("Bar", (A,)), [("Foo", (A,))]), Impl(1, ("Bar", (S(var(0)),)), [("Foo", (var(0),))]), Impl(0, ("Foo", (B,)))]
    v = rng.randrange(4)
    if v == 1:
        im.append(Impl(1, ("Foo", (S(var(0)),)), [("Foo", (var(0),))]))
    elif v == 2:
        tr.append(Trait("Baz"))
        im.append(Impl(1, ("Baz", (var(0),)), [("Bar", (var(0),))]))
    elif v == 3:
        im.append(Impl(0, ("Foo", (S(B),)), [("Bar", (B,))]))
    pr = Prog(adts, tr, im, "neg-inv")
    tys = [A, B, S(A), S(B), S(S(A))]
    names = [t.name for t in tr]
    goals = []
    for _ in range(7):
        nv = rng.choice([1, 1, 2])
        vs = tuple(range(20 + 3 * len(goals), 20 + 3 * len(goals) + nv))
        hyps = []
        for x in vs:
            r = rng.random()
            arg = var(x) if r < 0.7 else S(var(x))
            hyps.append(((), (rng.choice(names), (arg,)), ()))
        if rng.random() < 0.25:
            hyps.append(((), (rng.choice(names), (rng.choice(tys),)), ()))
        neg = ("not", ("atom", (rng.choice(names), (rng.choice(tys),))))
        r = rng.random()
        if r < 0.5:
            body = neg
        elif r < 0.7:
            body = ("and", (neg, ("atom", hyps[0][1])))
        elif r < 0.85:
            body = ("if", (((), (rng.choice(names), (rng.choice(tys),)), ()),), neg)
        else:
            body = ("and", (("atom", hyps[0][1]), neg, ("not", ("atom", (rng.choice(names), (rng.choice(tys),))))))
        goals.append(("forall", vs, ("if", tuple(hyps), body)))
    pr.fixed_goals = goals
    return pr


def neg_inv_shape(g, inscope=False):
    """Python mirror of Inv.neg_inv_shape: a `not` in the scope of a hypothesis that mentions a goal variable"""
    k = g[0]
    if k == "not":
        return inscope
    if k == "and":
        return any(neg_inv_shape(x, inscope) for x in g[1])
    if k in ("forall", "exists"):
        return neg_inv_shape(g[2], inscope)
    if k == "if":
        mention = False
        for vs, h, body in g[1]:
            if any(v not in vs for v in atom_vars(h)):
                mention = True
        return neg_inv_shape(g[2], inscope or mention)
    return False


def _rand_ty(rng, adts, nvars, depth):
    choices = []
    if nvars:
        choices.append("var")
    choices += ["adt"] * 2
    if rng.choice(choices) == "var":
        return var(rng.randrange(nvars))
    cands = [a for a in adts if depth > 1 or a.nparams == 0]
    a = rng.choice(cands)
    return ("adt", a.name, tuple(_rand_ty(rng, adts, nvars, depth - 1) for _ in range(a.nparams)))


def shape_random(rng):
    ncon = rng.randint(2, 3)
    adts = _consts(ncon) + [Adt("W", 1)]
    if rng.random() < 0.4:
        adts.append(Adt("P", 2))
    ntr = rng.randint(1, 3)
    traits = []
    pure = set()      # inductive traits that never depend on a coinductive one (directly or not)
    for j in range(ntr):
        fl = ("coinductive",) if rng.random() < 0.25 else ()
        traits.append(Trait("Tr%d" % j, 1 if rng.random() < 0.25 else 0, fl))
        if not fl and rng.random() < 0.5:
            pure.add("Tr%d" % j)
    impls = []
    for _ in range(rng.randint(2, 6)):
        t = rng.choice(traits)
        nv = rng.choice([0, 0, 1, 1, 2])
        for _attempt in range(20):
            args = tuple(_rand_ty(rng, adts, nv, 2) for _ in range(1 + t.nextra))
            used = set()
            for a in args:
                ty_vars(a, used)
            if used == set(range(nv)):
                break
        else:
            nv = 0
            args = tuple(_rand_ty(rng, adts, 0, 2) for _ in range(1 + t.nextra))
        wcs = []
        for _ in range(rng.choice([0, 1, 1, 2])):
            # no cycle through both kinds of trait: a coinductive head may depend on coinductive
            # traits and on *pure* inductive ones; a pure trait only on pure ones
            if t.coinductive:
                cands = [u for u in traits if u.coinductive or u.name in pure]
            elif t.name in pure:
                cands = [u for u in traits if u.name in pure]
            else:
                cands = list(traits)
            u = rng.choice(cands)
            wcs.append((u.name, tuple(_rand_ty(rng, adts, nv, 2) for _ in range(1 + u.nextra))))
        impls.append(Impl(nv, (t.name, args), wcs))
    return Prog(adts, traits, impls, "random")


def shape_auto_mixed(rng):
    """explicit auto-trait impls whose where-clauses use an ordinary (inductive) trait, and an
    ordinary trait that depends on the auto trait: dependencies through both kinds, no cycle"""
    adts = [Adt("Z"), Adt("N"), Adt("W", 1, "struct", [[var(0)]]), Adt("Q", 1, "struct", [[adt("N")]]),
            Adt("R", 0, "struct", [[adt("Q", adt("Z")), adt("W", adt("Z"))]])]
    tr = [Trait("Send", 0, ("auto",)), Trait("Foo"), Trait("Bar")]
    im = [Impl(0, ("Send", (adt("N"),)), [], positive=False),
          Impl(1, ("Send", (adt("Q", var(0)),)), [("Foo", (var(0),))]),
          Impl(0, ("Foo", (adt("Z"),))),
          Impl(1, ("Foo", (adt("W", var(0)),)), [("Foo", (var(0),))]),
          Impl(1, ("Bar", (var(0),)), [("Send", (var(0),))])]
    if rng.random() < 0.5:
        im.append(Impl(0, ("Foo", (adt("N"),))))
    return Prog(adts, tr, im, "auto-mixed")


SHAPES = [shape_diamond, shape_ind_cycle, shape_mutual, shape_chain, shape_nested_chain, shape_poly_rec,
          shape_overlap, shape_multi_arg, shape_neg_inv, shape_co_cycle, shape_co_scc, shape_growing, shape_auto, shape_auto_mixed, shape_random, shape_random, shape_random]


def gen_program(rng, shapes=None) -> Prog:
    p = rng.choice(shapes or SHAPES)(rng)
    if rng.random() < 0.5:
        p = permute(p, rng)
    return p


# ---------------------------------------------------------------------------------------
# goals
# ---------------------------------------------------------------------------------------

class GoalGen:
    def __init__(self, rng, p: Prog, depth=3):
        self.rng, self.p = rng, p
        self.univ = universe(p, depth=depth, limit=60, rng=rng)
        self.small = [t for t in self.univ if ty_depth(t) <= 2] or self.univ
        self.next_var = 0

    def fresh(self):
        self.next_var += 1
        return self.next_var

    def pick_ty(self, scope=(), pvar=0.0):
        if scope and self.rng.random() < pvar:
            v = self.rng.choice(scope)
            if self.rng.random() < 0.3:
                ws = [a for a in self.p.adts if a.nparams == 1]
                if ws:
                    return ("adt", ws[0].name, (var(v),))
            return var(v)
        return self.rng.choice(self.small if self.rng.random() < 0.7 else self.univ)

    def atom(self, scope=(), pvar=0.0, traits=None):
        t = self.rng.choice(traits or self.p.traits)
        args = [self.pick_ty(scope, pvar) for _ in range(1 + t.nextra)]
        if scope and pvar > 0 and not any(ty_vars(a) for a in args):
            args[self.rng.randrange(len(args))] = self.pick_ty(scope, 1.0)
        return (t.name, tuple(args))

    def ground_atom(self):
        return ("atom", self.atom())

    def if_follow(self):
        """`if (H) { G1 }, F..` where the followers F stand OUTSIDE the braces but would be provable
        only with H (and `not` of such): hypotheses must not leak to later conjuncts.  Closed;
        optionally under a `forall` (then without `not`, which only surrounds closed goals)."""
        under_forall = self.rng.random() < 0.4
        if under_forall:
            v = self.fresh()
            scope = (v,)
            h = self.atom(scope, 1.0)
        else:
            scope = ()
            h = self.atom()
        ws = [a for a in self.p.adts if a.nparams == 1]
        g1 = ("atom", h)
        if ws and self.rng.random() < 0.6:
            t = self.rng.choice(self.p.traits)
            if t.nextra == 0:
                g1 = ("atom", (t.name, (("adt", ws[0].name, (h[1][0],)),)))
        followers = []
        for _ in range(self.rng.choice([1, 1, 2])):
            r = self.rng.random()
            if r < 0.5:
                followers.append(("atom", h))
            elif r < 0.75:
                followers.append(g1)
            elif not under_forall:
                followers.append(("not", ("atom", h)))
            else:
                followers.append(("atom", self.atom(scope, 0.8)))
        g = ("and", tuple([("if", (((), h, ()),), g1)] + followers))
        return ("forall", scope, g) if under_forall else g

    def neg_under_hyp(self):
        """forall<..> { if (hypotheses mentioning the placeholders) { .. not { closed atom } .. } },
        also nested `if`s and conjunctions (chalk's inversion of negative literals)."""
        vs = tuple(self.fresh() for _ in range(self.rng.choice([1, 1, 2])))
        hyps = tuple(((), self.atom((v,), 1.0), ()) for v in vs)
        neg = ("not", self.ground_atom())
        r = self.rng.random()
        if r < 0.5:
            body = neg
        elif r < 0.7:
            body = ("and", (neg, ("atom", hyps[0][1])))
        elif r < 0.85:
            body = ("if", (((), self.atom(), ()),), neg)
        else:
            body = ("and", (("atom", self.atom(vs, 0.8)), neg))
        return ("forall", vs, ("if", hyps, body))

    def closed(self, depth=2):
        """An exists-free closed goal."""
        r = self.rng.random()
        if depth == 2 and r < 0.08:
            return self.neg_under_hyp()
        if depth == 2 and r < 0.2:
            return self.if_follow()
        if depth <= 0 or r < 0.35:
            return self.ground_atom()
        if r < 0.5:
            return ("and", tuple(self.closed(depth - 1) for _ in range(self.rng.randint(2, 3))))
        if r < 0.62:
            return ("not", self.closed(depth - 1) if self.rng.random() < 0.3 else self.ground_atom())
        if r < 0.8:
            return self.forall_goal(depth)
        if r < 0.95:
            return self.if_goal((), depth)
        return ("eq", self.pick_ty(), self.pick_ty())

    def body_over(self, scope, depth=1):
        r = self.rng.random()
        if depth <= 0 or r < 0.55:
            return ("atom", self.atom(scope, 0.8))
        if r < 0.7:
            return ("and", (("atom", self.atom(scope, 0.8)), ("atom", self.atom(scope, 0.5))))
        if r < 0.85:
            return self.if_goal(scope, depth)
        if r < 0.93:
            return ("eq", self.pick_ty(scope, 0.7), self.pick_ty(scope, 0.5))
        # `not` only around CLOSED goals (the properties' goal language): chalk reads a
        # placeholder under `not` by inversion (forall<X> not G == not exists<X> G), which is
        # not the generic-constant reading
        return ("and", (("atom", self.atom(scope, 0.8)), ("not", self.ground_atom())))

    def forall_goal(self, depth=1):
        vs = tuple(self.fresh() for _ in range(self.rng.choice([1, 1, 2])))
        return ("forall", vs, self.body_over(vs, depth - 1))

    def hyp(self, scope):
        r = self.rng.random()
        if r < 0.6 or not scope:
            return ((), self.atom(scope, 0.7 if scope else 0.0), ())
        if r < 0.8:
            v = self.fresh()
            ws = [a for a in self.p.adts if a.nparams == 1]
            t = self.rng.choice(self.p.traits)
            if ws and t.nextra == 0:
                return ((v,), (t.name, (("adt", ws[0].name, (var(v),)),)), ())
            return ((), self.atom(scope, 0.7), ())
        # a conditional hypothesis: head :- body with a trait of the same kind (keeps stratification)
        h = self.atom(scope, 0.7)
        ht = self.p.trait(h[0])
        cands = [u for u in self.p.traits if u.coinductive == ht.coinductive]
        return ((), h, (self.atom(scope, 0.7, traits=cands),))

    def if_goal(self, scope, depth=1):
        hs = tuple(self.hyp(scope) for _ in range(self.rng.choice([1, 1, 2])))
        inner = self.body_over(scope, depth - 1) if scope else (self.ground_atom() if self.rng.random() < 0.7 else self.closed(depth - 1))
        return ("if", hs, inner)

    def exists_goal(self):
        n = self.rng.choice([1, 1, 1, 2, 2, 3])
        vs = tuple(self.fresh() for _ in range(n))
        r = self.rng.random()
        if r < 0.15:
            # forall outside / inside
            u = self.fresh()
            return ("forall", (u,), ("exists", vs, self.body_over(vs + (u,), 1)))
        if r < 0.25:
            u = self.fresh()
            return ("exists", vs, ("forall", (u,), self.body_over(vs + (u,), 0)))
        body = self.body_over(vs, 1)
        # every exists variable should occur: add atoms for the missing ones
        used = goal_vars(body)
        extra = [("atom", self.atom((v,), 1.0)) for v in vs if v not in used]
        if extra:
            body = ("and", tuple([body] + extra))
        return ("exists", vs, body)

    def goals(self, n_ground=6, n_closed=4, n_exists=4):
        out = []
        for _ in range(n_ground):
            out.append(self.ground_atom())
        for _ in range(n_closed):
            out.append(self.closed(2))
        for _ in range(n_exists):
            out.append(self.exists_goal())
        return out


def goal_vars(g, acc=None):
    acc = set() if acc is None else acc
    k = g[0]
    if k == "atom":
        acc |= atom_vars(g[1])
    elif k == "eq":
        ty_vars(g[1], acc)
        ty_vars(g[2], acc)
    elif k == "and":
        for x in g[1]:
            goal_vars(x, acc)
    elif k in ("forall", "exists"):
        goal_vars(g[2], acc)
    elif k == "if":
        for vs, h, body in g[1]:
            acc |= atom_vars(h)
            for b in body:
                acc |= atom_vars(b)
        goal_vars(g[2], acc)
    elif k == "not":
        goal_vars(g[1], acc)
    return acc


def is_floundering_prone(g):
    """True if some `not` surrounds a goal with a free variable (bound by an enclosing
    `exists` or `forall`): under `exists` chalk flounders, under `forall` it inverts the
    placeholder into an existential (forall<X> not G  ==  not exists<X> G).  Both are outside
    the goal language of the properties (`not` around closed goals only)."""
    def walk(x, bound):
        k = x[0]
        if k == "not":
            return bool(goal_vars(x[1]) & bound) or walk(x[1], set())
        if k == "and":
            return any(walk(y, bound) for y in x[1])
        if k in ("exists", "forall"):
            return walk(x[2], bound | set(x[1]))
        if k == "if":
            return walk(x[2], bound)
        return False
    return walk(g, set())


# ---------------------------------------------------------------------------------------
# a harness case
# ---------------------------------------------------------------------------------------

def case(p_text, goal_texts, solver="Slg", mode="Fresh", opts=()):
    return ("Case", sx.Str(p_text), [sx.Str(g) for g in goal_texts], solver, mode, list(opts))


SLG = "Slg"
REC = "Rec"


def rec_with(overflow_depth, caching, max_size):
    return ("RecWith", overflow_depth, bool(caching), max_size)


def slg_with(max_size):
    return ("SlgWith", max_size)


# the minimal witnesses of DESIGN §5 that live in this fragment (always part of the corpus)
def corpus(neg_ring=False):
    out = []
    # F1
    p = Prog(_consts(2, "I") + [Adt("Vec", 1)], [Trait("Foo", 1)],
             [Impl(1, ("Foo", (adt("Vec", var(0)), var(0)))), Impl(0, ("Foo", (adt("Vec", adt("I0")), adt("I1"))))], "corpus-F1")
    out.append((p, [("exists", (1, 2), ("atom", ("Foo", (var(1), var(2)))))]))
    # F13 / F14
    p = Prog([Adt("S0"), Adt("S2", 1)], [Trait("Tr0", 0, ("coinductive",))],
             [Impl(1, ("Tr0", (adt("S2", var(0)),)), [("Tr0", (var(0),))])], "corpus-F14")
    out.append((p, [("exists", (1,), ("atom", ("Tr0", (var(1),)))), ("atom", ("Tr0", (adt("S2", adt("S0")),))),
                    ("forall", (2,), ("atom", ("Tr0", (adt("S2", var(2)),))))]))
    # F16
    p = Prog([Adt("A")], [Trait("Foo")], [Impl(1, ("Foo", (var(0),))), Impl(0, ("Foo", (adt("A"),)))], "corpus-F16")
    out.append((p, [("exists", (1,), ("atom", ("Foo", (var(1),))))]))
    # F7 (auto cycle)
    p = Prog([Adt("A", 0, "struct", [[adt("B")]]), Adt("B", 0, "struct", [[adt("A")]])], [Trait("Send", 0, ("auto",))], [], "corpus-F7")
    out.append((p, [("atom", ("Send", (adt("A"),))), ("atom", ("Send", (adt("B"),)))]))
    # F7q (nested coinductive SCC, root outside)
    S = lambda i: adt("S%d" % i)
    p = Prog([Adt("S%d" % i) for i in range(4)], [Trait("C0", 0, ("coinductive",))],
             [Impl(0, ("C0", (S(0),)), [("C0", (S(1),))]), Impl(0, ("C0", (S(1),)), [("C0", (S(3),)), ("C0", (S(2),))]),
              Impl(0, ("C0", (S(2),)), [("C0", (S(1),)), ("C0", (S(3),))]), Impl(0, ("C0", (S(3),)), [("C0", (S(2),))])], "corpus-F7q")
    out.append((p, [("atom", ("C0", (S(0),))), ("atom", ("C0", (S(1),)))]))
    # F14b: SLG loses answers on a coinductive SCC entered through a blanket clause
    q = _andor_prog([("P0", True), ("P1", True), ("P2", True), ("P4", True)],
                    [("P4", ["P1", "P0", "P2"]), ("P2", ["P4"]), ("P1", ["P2"]), ("P0", ["P2"])], [("P4", "B")], "corpus-F14b", 2)
    q.order = [("trait", 0), ("impl", 0), ("impl", 4), ("trait", 1), ("adt", 0), ("trait", 3), ("adt", 1), ("impl", 1), ("impl", 2), ("trait", 2), ("impl", 3)]
    out.append((q, [("exists", (2, 3), ("and", (("atom", ("P1", (var(2),))), ("atom", ("P4", (var(3),)))))),
                    ("atom", ("P1", (adt("A"),))), ("forall", (4,), ("atom", ("P4", (var(4),))))]))
    # round-5 seed `neg-literal-conditional-wrong-field`: a coinductive ring with a FAILING member
    # (C1 :- C3, C2 ; C2 :- C1 ; no C3): refuting one member leaves a conditional (delayed) answer in
    # the table of the other, which a later negative literal of the same query must not take for a proof.
    # Both where-clause orders, the negations in both orders, nested and alone.
    B = adt("B")
    for rev in ((False, True) if neg_ring else ()):
        wcs = [("C3", (B,)), ("C2", (B,))]
        if rev:
            wcs.reverse()
        p = Prog([Adt("B")], [Trait("C%d" % i, 0, ("coinductive",)) for i in (1, 2, 3)],
                 [Impl(0, ("C1", (B,)), wcs), Impl(0, ("C2", (B,)), [("C1", (B,))])], "corpus-neg-ring")
        n1, n2 = ("not", ("atom", ("C1", (B,)))), ("not", ("atom", ("C2", (B,))))
        out.append((p, [("and", (n1, n2)), ("and", (n2, n1)), ("not", ("and", (n1, ("atom", ("C2", (B,)))))),
                        ("not", ("and", (n2, ("atom", ("C1", (B,)))))), n1, n2,
                        ("and", (n1, n2, n1)), ("atom", ("C2", (B,)))]))
    # provisional result read by a sibling (recursive solver, minimums.update_from seed)
    # (the recursive solver works through where-clauses back to front and impls in declaration
    #  order; the witnesses need one particular order, so all four reversals are kept)
    for q in andor_demo_programs():
        for rev_wc in (False, True):
            for rev_items in (False, True):
                v = q.copy()
                if rev_wc:
                    for im in v.impls:
                        im.wcs.reverse()
                if rev_items:
                    v.order = [o for o in v.order if o[0] != "impl"] + [o for o in reversed(v.order) if o[0] == "impl"]
                out.append((v, list(v.fixed_goals)))
    return out


if __name__ == "__main__":
    import sys
    rng = random.Random(int(sys.argv[1]) if len(sys.argv) > 1 else 1)
    for _ in range(3):
        p = gen_program(rng)
        print("// shape:", p.shape)
        print(to_text(p))
        gg = GoalGen(rng, p)
        for g in gg.goals(2, 3, 3):
            print("  goal:", goal_text(g))
        print(sx.to_coq(to_model(p)))
