"""Glue for the solver-level checks (semantic-oracle layer): running the real solvers through
the `solve` harness binary and evaluating Coq functions of Chalk.Logic.* on many cases.
See /verif/tools/LOGIC_INTERFACE.md."""
from __future__ import annotations

import concurrent.futures
import os
import re

from . import core, sx

IMPORTS = ("Logic.Contract",)


def solve_cases(cases, timeout=900, shards=None):
    """Run harness cases; returns one dict per case:
       {"ok": bool, "error": str|None, "dump": sx|None, "goals": [(prefix_sx, answer_sx) | ("error", msg)]}
    A case whose process died as a whole (should not happen: goals run in children) is
    reported with ok=False."""
    outs = core.run_harness("solve", cases, timeout=timeout, shards=shards)
    res = []
    for o in outs:
        try:
            r = sx.parse_sexp(o) if o else ("Abort", sx.Str("no output"))
        except ValueError as e:
            r = ("Abort", sx.Str("unparsable harness output: %s" % e))
        h = sx.head(r)
        if h == "Result":
            goals = []
            for g in r[2]:
                if sx.head(g) == "R":
                    goals.append((g[1], g[2]))
                else:
                    goals.append(("error", str(g[1]) if isinstance(g, tuple) and len(g) > 1 else sx.to_sexp(g)))
            res.append({"ok": True, "error": None, "dump": None if r[1] == "NoDump" else r[1], "goals": goals})
        else:
            res.append({"ok": False, "error": sx.to_sexp(r), "dump": None, "goals": []})
    return res


def answer_kind(ans):
    """Coarse kind of a harness answer."""
    h = sx.head(ans)
    return h if h else "?"


def is_death(ans):
    return sx.head(ans) in ("Timeout", "Abort", "Skipped")


def panic_site(ans):
    """Map a (Panic "msg @ file:line") to a small enum (never compare messages)."""
    if sx.head(ans) != "Panic":
        return None
    msg = str(ans[1])
    if "overflow depth reached" in msg or "overflow" in msg.lower():
        return "overflow"
    m = re.search(r"@ .*?([\w\-]+/src/[\w/]+\.rs):\d+", msg)
    return "panic:" + (m.group(1) if m else "unknown")


# ---------------------------------------------------------------------------------------
# evaluating Coq expressions of type N over many cases
# ---------------------------------------------------------------------------------------

def _run_file(args):
    path, text, timeout = args
    with open(path, "w") as f:
        f.write(text)
    return core.coqc_file(path, timeout=timeout)


def coq_codes(workdir, tag, defs, exprs, shard=40, timeout=900, imports=IMPORTS):
    """defs:  dict name -> (coq type string, sx value | coq term string)
       exprs: list of (names used, coq expression of type N as a string)
    Returns the list of integers (vm_compute), sharded over parallel coqc processes.
    A shard that fails to compile / times out yields None for its entries and is reported
    in the second component."""
    os.makedirs(workdir, exist_ok=True)
    jobs, spans = [], []
    for s0 in range(0, len(exprs), shard):
        chunk = exprs[s0:s0 + shard]
        need = []
        for names, _ in chunk:
            for n in names:
                if n not in need:
                    need.append(n)
        lines = ["From Coq Require Import List NArith String Bool.", "Import ListNotations.",
                 "Set Printing Width 1000000.", "Set Printing Depth 1000000."]
        lines += ["From Chalk Require Import %s." % m for m in imports]
        for n in need:
            t, v = defs[n]
            lines.append("Definition %s : %s := %s." % (n, t, v if isinstance(v, str) and not isinstance(v, sx.Str) and v.startswith("(*raw*)") else sx.to_coq(v)))
        lines.append("Definition results : list N := [\n%s\n]." % ";\n".join("(%s)" % e for _, e in chunk))
        lines.append('Goal True. idtac "@@RESULT". Abort.')
        lines.append("Eval vm_compute in results.")
        jobs.append((os.path.join(workdir, "Codes_%s_%d.v" % (tag, s0 // shard)), "\n".join(lines) + "\n", timeout))
        spans.append((s0, len(chunk)))
    out = [None] * len(exprs)
    failures = []
    with concurrent.futures.ThreadPoolExecutor(max_workers=core.NCPU) as ex:
        for k, (rc, o, e) in enumerate(ex.map(_run_file, jobs)):
            s0, n = spans[k]
            if rc != 0:
                failures.append((jobs[k][0], (o + e)[-1500:]))
                continue
            m = re.search(r"@@RESULT\s*=\s*\[(.*?)\]\s*:\s*list N", o, re.S)
            if not m:
                failures.append((jobs[k][0], "cannot parse: " + o[-500:]))
                continue
            vals = [int(d) for d in re.findall(r"(\d+)%N", m.group(1))]
            if len(vals) != n:
                failures.append((jobs[k][0], "expected %d values, got %d" % (n, len(vals))))
                continue
            for j, v in enumerate(vals):
                out[s0 + j] = v
    return out, failures


# codes of Contract.verdict_code
V_OK, V_INCON = 0, 1


def verdict_name(code):
    if code is None:
        return "coq-failed"
    if code == 0:
        return "ok"
    if code == 1:
        return "inconclusive"
    return {11: "alarm:unique-substitution-has-false-instance", 12: "alarm:solution-not-covered",
            13: "alarm:nosolution-but-solution-exists"}.get(code, "alarm:%d" % code)


def ob(expr):
    """Coq expression: option bool -> N  (0 = Some false, 1 = Some true, 2 = None)"""
    return "match (%s) with Some false => 0%%N | Some true => 1%%N | None => 2%%N end" % expr


def bb(expr):
    return "if (%s) then 1%%N else 0%%N" % expr
