"""Shared case pipeline of the oracle-based solver checks (C01, C02, C04; reusable by others):
generate (program, goal) items, run the real solvers on them, check that generator / text /
lowering agree on the program, and render the Coq-side definitions.
See /verif/tools/LOGIC_INTERFACE.md."""
from __future__ import annotations

import collections
import hashlib
import os
import re

from . import core, logic, sx
from . import proggen as pg

SOLVERS = {"slg": pg.SLG, "rec": pg.REC}


class Item:
    """One (program, goal) pair and what the solvers said."""

    def __init__(self, pidx, prog, text, goal, goal_text, shape, kind):
        self.pidx, self.prog, self.text = pidx, prog, text
        self.goal, self.goal_text, self.shape, self.kind = goal, goal_text, shape, kind
        self.answers = {}        # solver name -> (prefix_sx, answer_sx)
        self.gidx = None

    def key(self):
        return hashlib.sha1((self.text + "\n##\n" + self.goal_text).encode()).hexdigest()[:16]

    def describe(self):
        return {"shape": self.shape, "program": self.text, "goal": self.goal_text,
                "answers": {k: sx.to_sexp(v[1]) for k, v in self.answers.items()}}


def fragment_items(rng, n_programs, n_ground=4, n_closed=4, n_exists=5, shapes=None, corpus=True, extra=(), neg_ring=False):
    """(programs, items): programs = list of Prog, items = list of Item.
    extra: [(shape function, count)] — additional programs of specific shapes; shapes that set
    `Prog.fixed_goals` are posed exactly those goals (plus at most 2 generated `exists` goals
    when n_exists > 0)."""
    progs, items = [], []

    def add(p, goals):
        pidx = len(progs)
        progs.append(p)
        text = pg.to_text(p)
        for g in goals:
            if pg.is_floundering_prone(g):
                continue
            items.append(Item(pidx, p, text, g, pg.goal_text(g), p.shape, pg.goal_kind(g)))
    if corpus:
        for p, goals in pg.corpus(neg_ring):
            add(p, goals)
    for _ in range(n_programs):
        p = pg.gen_program(rng, shapes)
        gg = pg.GoalGen(rng, p)
        add(p, gg.goals(n_ground, n_closed, n_exists))
    for fn, count in extra:
        for _ in range(count):
            p = pg.gen_program(rng, [fn])
            goals = list(p.fixed_goals or [])
            if not goals:
                goals = pg.GoalGen(rng, p).goals(n_ground, n_closed, 0)
            if n_exists > 0:
                goals += pg.GoalGen(rng, p).goals(0, 0, min(2, n_exists))
            add(p, goals)
    return progs, items


def run_items(items, solvers=None, cpu=5, mode="Fresh", dump_check=True, opts=(), timeout=1500):
    """Runs every solver on every item (one harness case per program and solver).
    Returns (dump_mismatches, program_errors)."""
    solvers = solvers or SOLVERS
    by_prog = collections.OrderedDict()
    for it in items:
        by_prog.setdefault(it.pidx, []).append(it)
    cases, meta = [], []
    for pidx, its in by_prog.items():
        first = True
        for sname, sv in solvers.items():
            o = [("Cpu", cpu)] + list(opts)
            if first and dump_check and its[0].prog is not None:
                o.append("Dump")
            first = False
            cases.append(pg.case(its[0].text, [it.goal_text for it in its], sv, mode, o))
            meta.append((pidx, sname))
    res = logic.solve_cases(cases, timeout=timeout)
    mism, perr = [], []
    for (pidx, sname), r in zip(meta, res):
        its = by_prog[pidx]
        if not r["ok"]:
            perr.append((pidx, sname, r["error"]))
            for it in its:
                it.answers[sname] = ([], ("Abort", sx.Str("program error: " + (r["error"] or "")[:200])))
            continue
        if r["dump"] is not None and its[0].prog is not None:
            if not pg.dump_matches(its[0].prog, r["dump"]):
                mism.append((pidx, sx.to_sexp(r["dump"])))
        for it, g in zip(its, r["goals"]):
            if g[0] == "error":
                it.answers[sname] = ([], ("GoalError", sx.Str(g[1])))
            else:
                it.answers[sname] = (g[0], g[1])
    return mism, perr


REAL = ("Unique", "NoSolution", "AmbigDefinite", "AmbigSuggested", "AmbigUnknown")


def is_real(ans):
    return sx.head(ans) in REAL


class SymAlloc(dict):
    """symbol table that allocates symbols for unknown names on demand (raw .chalk programs)"""

    def __missing__(self, k):
        v = 2000 + len(self)
        self[k] = v
        return v


def model_answer(it: Item, sname, labels=None, st=None):
    pre, ans = it.answers[sname]
    st = st if st is not None else (it.prog.symtab() if it.prog is not None else SymAlloc())
    return pg.answer_model(ans, st, pre, labels if labels is not None else {})


def coq_name(prefix, *idx):
    return prefix + "_" + "_".join(str(i) for i in idx)


def shape_histogram(items):
    h = collections.Counter()
    for it in items:
        h[it.shape] += 1
    return dict(h)


# ---------------------------------------------------------------------------------------
# programs and goals taken from the repository's own test-suite (seed corpus for the wider
# syntax: associated types, builtin traits, auto traits, lifetimes, dyn, fn pointers ...)
# ---------------------------------------------------------------------------------------

def _balanced(text, start):
    """text[start] == '{' -> index after the matching '}'"""
    depth, i = 0, start
    while i < len(text):
        c = text[i]
        if c == "{":
            depth += 1
        elif c == "}":
            depth -= 1
            if depth == 0:
                return i + 1
        i += 1
    return None


def extract_tests(test_dir=None, limit_files=None):
    """[(file, program_text, [goal_text ...])] from `test! { program { .. } goal { .. } ... }`."""
    test_dir = test_dir or os.path.join(core.REPO, "tests", "test")
    out = []
    if not os.path.isdir(test_dir):
        return out
    for fn in sorted(os.listdir(test_dir)):
        if not fn.endswith(".rs") or fn in ("mod.rs", "bench.rs"):
            continue
        if limit_files and fn not in limit_files:
            continue
        text = open(os.path.join(test_dir, fn)).read()
        text = re.sub(r"//[^\n]*", "", text)
        for m in re.finditer(r"\btest!\s*\{", text):
            end = _balanced(text, m.end() - 1)
            if end is None:
                continue
            body = text[m.end():end - 1]
            pm = re.search(r"\bprogram\s*\{", body)
            prog = ""
            rest_from = 0
            if pm:
                pe = _balanced(body, pm.end() - 1)
                if pe is None:
                    continue
                prog = body[pm.end():pe - 1]
                rest_from = pe
            goals = []
            for gm in re.finditer(r"\bgoal\s*\{", body[rest_from:]):
                gs = rest_from + gm.end() - 1
                ge = _balanced(body, gs)
                if ge is None:
                    continue
                g = " ".join(body[gs + 1:ge - 1].split())
                if g and len(g) < 600:
                    goals.append(g)
            if goals and len(prog) < 4000:
                out.append((fn, " ".join(prog.split()), goals))
    return out


def mutate_goal(rng, g, type_names):
    """cheap token-level variations of a goal text; may produce goals that do not lower
    (those are dropped after the GoalError)."""
    r = rng.random()
    if r < 0.3:
        if "forall<" in g and rng.random() < 0.5:
            return g.replace("forall<", "exists<", 1)
        if "exists<" in g:
            return g.replace("exists<", "forall<", 1)
    if r < 0.7 and type_names:
        toks = re.findall(r"[A-Za-z_][A-Za-z0-9_]*", g)
        cands = [t for t in toks if t in type_names]
        if cands:
            a = rng.choice(cands)
            b = rng.choice(sorted(type_names))
            return re.sub(r"\b%s\b" % re.escape(a), b, g, count=1)
    if r < 0.85:
        return "not { %s }" % g if "exists<" not in g else g
    return g


def guidance_repeats(ans):
    """Python mirror of Contract.guidance_repeats on a harness answer: the Ambig(Definite)
    substitution mentions some answer-bound variable twice."""
    if sx.head(ans) != "AmbigDefinite":
        return False
    seen, dup = set(), [False]

    def walk(t):
        h = sx.head(t)
        if h == "BV":
            if t[1] in seen:
                dup[0] = True
            seen.add(t[1])
        elif h == "App":
            for a in t[2]:
                walk(a)
        elif h == "Lt":
            walk(t[1])
    for t in ans[2]:
        walk(t)
    return dup[0]


def ground_subterms(g):
    """all ground types (and their subterms) written in a goal"""
    out = []

    def ty(t):
        if t[0] == "adt":
            if not pg.ty_vars(t) and t not in out:
                out.append(t)
            for a in t[2]:
                ty(a)

    def walk(x):
        k = x[0]
        if k == "atom":
            for t in x[1][1]:
                ty(t)
        elif k == "eq":
            ty(x[1]); ty(x[2])
        elif k == "and":
            for y in x[1]:
                walk(y)
        elif k in ("forall", "exists"):
            walk(x[2])
        elif k == "if":
            for vs, h, body in x[1]:
                for t in h[1]:
                    ty(t)
                for b in body:
                    for t in b[1]:
                        ty(t)
            walk(x[2])
        elif k == "not":
            walk(x[1])
    walk(g)
    return out


def inv_universe(it, limit=7):
    """finite universe over which the inversion reading instantiates the placeholders: the
    small universe of the program, every ground type written in the goal (with subterms), and
    one opaque constant"""
    st = it.prog.symtab()
    u = list(pg.universe(it.prog, depth=2, limit=limit))
    for t in ground_subterms(it.goal):
        if t not in u:
            u.append(t)
    return [pg.answer_ty_model(t, st, {}) for t in u[:14]] + [("TPh", 900)]


INV_IMPORTS = ("Logic.Contract", "Logic.Inv")


def inv_readings(workdir, tag, items, ks, fuel):
    """for the closed items `ks` with the shape `not` below a hypothesis mentioning a goal variable:
    {k: (shape_in_coq, literal_reading, inversion_reading)} with readings 0 false / 1 true / 2 inconclusive"""
    defs, exprs = {}, []
    for k in ks:
        it = items[k]
        st = it.prog.symtab()
        pn, gn, un = "P%d" % it.pidx, "g%d" % k, "U%d" % k
        if pn not in defs:
            defs[pn] = ("program", pg.to_model(it.prog))
        defs[gn] = ("goal", pg.goal_model(it.goal, st))
        defs[un] = ("list ty", inv_universe(it))
        exprs.append(([gn], logic.bb("neg_inv_shape false %s" % gn)))
        exprs.append(([pn, gn], logic.ob("eval_goal %d %s [] [] %s" % (fuel, pn, gn))))
        exprs.append(([pn, gn, un], logic.ob("eval_inv %d %s %s [] [] %s" % (fuel, un, pn, gn))))
    if not exprs:
        return {}
    codes, failures = logic.coq_codes(workdir, tag, defs, exprs, shard=max(9, (len(exprs) // 48 + 1) * 3), imports=INV_IMPORTS)
    if failures:
        raise core.CheckFailure("coq evaluation failed: %s" % (failures[0],))
    return {k: (codes[3 * j], codes[3 * j + 1], codes[3 * j + 2]) for j, k in enumerate(ks)}


def neg_inv_verdict(reading, solver_name, kind):
    """How an answer to a goal of the neg-inv shape is judged.  reading = (shape, lit, inv).
    Returns one of: None (not special: judge as usual), "known" (in the class, answer = chalk's
    inversion reading), "violation", "inconclusive"."""
    shape, lit, inv = reading
    if shape != 1:
        return None
    if inv == 2 or lit == 2:
        return "inconclusive"
    is_rec = solver_name.startswith("rec")
    if inv == 0 and is_rec and kind.startswith("Ambig"):
        return "known"            # recursive refute needs a *unique* solution of the inverted goal
    if lit == 1 and inv == 0:
        if kind in ("Timeout", "Abort", "Panic", "GoalError"):
            return "inconclusive"
        return "known" if kind == "NoSolution" else "violation"
    if lit == 1 and inv == 1 and kind == "NoSolution":
        return "inconclusive"     # an inversion witness may lie outside the finite universe
    return None
