"""The one data syntax shared by generators, Coq models and the Rust harness.

Python value            S-expression (harness I/O)      Coq term
('Ctor', a, b)          (Ctor a b)                      (Ctor a' b')
('Ctor',)  or 'Ctor'    Ctor                            Ctor
[a, b]                  [a b]                           [a'; b']
5                       5                               5%N
Nat(5)                  5                               5%nat
Str("x")                "x"                             "x"%string
True / False            true / false                    true / false
Pair(a, b)              (Pair a b)                      (a', b')
"""
from __future__ import annotations


class Nat(int):
    """A number that must be rendered as a Coq nat (fuel, list positions)."""


class Str(str):
    """A string literal (as opposed to a bare constructor name)."""


class Pair(tuple):
    def __new__(cls, a, b):
        return super().__new__(cls, (a, b))


def to_sexp(x) -> str:
    if isinstance(x, bool):
        return "true" if x else "false"
    if isinstance(x, Pair):
        return "(Pair %s %s)" % (to_sexp(x[0]), to_sexp(x[1]))
    if isinstance(x, Str):
        return '"' + x.replace("\\", "\\\\").replace('"', '\\"').replace("\n", "\\n") + '"'
    if isinstance(x, int):
        return str(int(x))
    if isinstance(x, str):
        return x
    if isinstance(x, tuple):
        if len(x) == 1:
            return x[0]
        return "(" + " ".join([x[0]] + [to_sexp(a) for a in x[1:]]) + ")"
    if isinstance(x, list):
        return "[" + " ".join(to_sexp(a) for a in x) + "]"
    raise TypeError("to_sexp: %r" % (x,))


def to_coq(x) -> str:
    if isinstance(x, bool):
        return "true" if x else "false"
    if isinstance(x, Pair):
        return "(%s, %s)" % (to_coq(x[0]), to_coq(x[1]))
    if isinstance(x, Str):
        return '"' + x.replace('"', '""') + '"%string'
    if isinstance(x, Nat):
        return "%d%%nat" % int(x)
    if isinstance(x, int):
        return "%d%%N" % int(x)
    if isinstance(x, str):
        return x
    if isinstance(x, tuple):
        if len(x) == 1:
            return x[0]
        return "(" + " ".join([x[0]] + [to_coq(a) for a in x[1:]]) + ")"
    if isinstance(x, list):
        return "[" + "; ".join(to_coq(a) for a in x) + "]"
    raise TypeError("to_coq: %r" % (x,))


def parse_sexp(s: str):
    """Inverse of to_sexp (numbers come back as int, strings as Str, (Pair a b) as Pair)."""
    pos = 0
    n = len(s)

    def ws():
        nonlocal pos
        while pos < n and s[pos].isspace():
            pos += 1

    def item():
        nonlocal pos
        ws()
        if pos >= n:
            raise ValueError("unexpected end of sexp: %r" % s[:80])
        c = s[pos]
        if c == "(":
            pos += 1
            ws()
            st = pos
            while pos < n and not s[pos].isspace() and s[pos] not in "()[]":
                pos += 1
            head = s[st:pos]
            args = []
            while True:
                ws()
                if pos >= n:
                    raise ValueError("unclosed ( in %r" % s[:80])
                if s[pos] == ")":
                    pos += 1
                    break
                args.append(item())
            if head == "Pair" and len(args) == 2:
                return Pair(args[0], args[1])
            if not args:
                return head
            return tuple([head] + args)
        if c == "[":
            pos += 1
            out = []
            while True:
                ws()
                if pos >= n:
                    raise ValueError("unclosed [ in %r" % s[:80])
                if s[pos] == "]":
                    pos += 1
                    break
                out.append(item())
            return out
        if c == '"':
            pos += 1
            buf = []
            while True:
                if pos >= n:
                    raise ValueError("unclosed string")
                ch = s[pos]
                pos += 1
                if ch == '"':
                    break
                if ch == "\\":
                    e = s[pos]
                    pos += 1
                    buf.append("\n" if e == "n" else e)
                else:
                    buf.append(ch)
            return Str("".join(buf))
        if c in ")]":
            raise ValueError("unexpected close at %d in %r" % (pos, s[:80]))
        st = pos
        while pos < n and not s[pos].isspace() and s[pos] not in '()[]"':
            pos += 1
        tok = s[st:pos]
        if tok.isdigit():
            return int(tok)
        if tok == "true":
            return True
        if tok == "false":
            return False
        return tok

    r = item()
    ws()
    if pos != n:
        raise ValueError("trailing input at %d in %r" % (pos, s[:120]))
    return r


def head(x):
    if isinstance(x, tuple) and not isinstance(x, Pair):
        return x[0]
    if isinstance(x, str) and not isinstance(x, Str):
        return x
    return None


def size(x) -> int:
    if isinstance(x, (tuple, list)):
        return 1 + sum(size(a) for a in x)
    return 1
